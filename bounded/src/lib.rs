//! Shared helpers for the bounded stand-ins.
use std::fmt::Debug;

/// Report a counterexample in the format the runner parses and exit 1.
pub fn fail(what: &str, input: &dyn Debug, got: &dyn Debug, want: &dyn Debug) -> ! {
    println!("COUNTEREXAMPLE: {what}");
    println!("  input: {input:?}");
    println!("  got:   {got:?}");
    println!("  want:  {want:?}");
    std::process::exit(1)
}

pub fn done(cases: u64, bound: &str) -> ! {
    println!("BOUNDED-OK cases={cases} bound={bound}");
    std::process::exit(0)
}

/// Report (once per tag) a concrete instance of a KNOWN, recorded deviation from the property
/// text without stopping the enumeration.  The runner turns each `FINDING:` line into the
/// obligation `native.<bin>.<tag>`: it is printed as KNOWN-FINDING when /verif/known_findings.txt
/// lists it, and is a VIOLATION otherwise.
pub fn finding(tag: &str, what: &str, input: &dyn Debug) {
    use std::sync::Mutex;
    static SEEN: Mutex<Vec<String>> = Mutex::new(Vec::new());
    let mut seen = SEEN.lock().unwrap();
    if seen.iter().any(|t| t == tag) { return; }
    seen.push(tag.to_string());
    println!("FINDING: [{tag}] {what}");
    println!("  input: {input:?}");
}
