//! Shared helpers for the bounded stand-ins.
use std::fmt::Debug;

/// Report a counterexample in the format the runner parses and exit 1.
pub fn fail(what: &str, input: &dyn Debug, got: &dyn Debug, want: &dyn Debug) -> ! {
    println!("COUNTEREXAMPLE: {what}");
    println!("  input: {input:?}");
    println!("  got:   {got:?}");
    println!("  want:  {want:?}");
    std::process::exit(1)
}

pub fn done(cases: u64, bound: &str) -> ! {
    println!("BOUNDED-OK cases={cases} bound={bound}");
    std::process::exit(0)
}
