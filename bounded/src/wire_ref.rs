//! Executable wire-format references shared by the wire-level stand-ins (bnd_name_wire,
//! bnd_reader, bnd_rdata).  Written from RFC 1035 (3.1, 3.3, 4.1), RFC 1034 3.6 (CH A),
//! RFC 2782 (SRV), RFC 3596 (AAAA), RFC 6891 6.1.2 (OPT), RFC 8945 4.2 (TSIG) and the
//! property texts C14 / C15 / C18 - not from the code under test.  `None` = not decodable.
//! Included with `#[path = "../wire_ref.rs"] mod wire_ref;`.
#![allow(dead_code)]

// ------------------------------------------------------------------------------- names (C14)

/// RFC 1035 4.1.4: the uncompressed wire form of the possibly compressed name at `start` and
/// the length of its first chunk (up to and including the null label or the first pointer).
/// Pointers must be strictly backwards: to an offset before the start of the chunk they end.
pub fn ref_decode(buf: &[u8], start: usize) -> Option<(Vec<u8>, usize)> {
    let mut name = Vec::new();
    let mut first_chunk_len = None;
    let mut chunk_start = start;
    let mut pos = start;
    loop {
        let o = *buf.get(pos)? as usize;
        if o >= 0xc0 {
            let target = (o & 0x3f) << 8 | *buf.get(pos.checked_add(1)?)? as usize;
            if target >= chunk_start { return None; }
            if first_chunk_len.is_none() { first_chunk_len = Some(pos + 2 - start); }
            chunk_start = target;
            pos = target;
        } else if o > 63 {
            return None;                                       // 0x40..=0xbf: no such label type
        } else {
            name.extend_from_slice(buf.get(pos..pos + 1 + o)?);
            if name.len() > 255 { return None; }
            pos += 1 + o;
            if o == 0 {
                let len = first_chunk_len.unwrap_or_else(|| pos - start);   // no pointer: one chunk
                return Some((name, len));
            }
        }
    }
}

/// RFC 1035 3.1: the length of the uncompressed name at the beginning of `buf`.
pub fn ref_uncompressed(buf: &[u8]) -> Option<usize> {
    let mut pos = 0;
    loop {
        let o = *buf.get(pos)? as usize;
        if o > 63 || pos + 1 + o > buf.len() || pos + 1 + o > 255 { return None; }
        pos += 1 + o;
        if o == 0 { return Some(pos); }
    }
}

/// First chunk of a possibly compressed name at the beginning of `buf`: its length, provided it
/// is well formed and even the shortest name it can belong to (pointer -> root) has <= 255 octets.
pub fn ref_skip(buf: &[u8]) -> Option<usize> {
    let mut pos = 0;
    loop {
        let o = *buf.get(pos)? as usize;
        if o >= 0xc0 {
            buf.get(pos + 1)?;
            return if pos + 1 <= 255 { Some(pos + 2) } else { None };
        }
        if o > 63 { return None; }
        if o == 0 { return if pos + 1 <= 255 { Some(pos + 1) } else { None }; }
        pos += 1 + o;
    }
}

/// The labels (without length octets, including the final null label) of an uncompressed name.
pub fn ref_labels(wire: &[u8]) -> Vec<Vec<u8>> {
    let (mut v, mut pos) = (Vec::new(), 0);
    while pos < wire.len() {
        let l = wire[pos] as usize;
        v.push(wire[pos + 1..pos + 1 + l].to_vec());
        pos += 1 + l;
    }
    v
}

// ------------------------------------------------------------------------------- RDATA (C18)

pub const IN: u16 = 1;
pub const CH: u16 = 3;
pub const T_A: u16 = 1;
pub const T_NS: u16 = 2;
pub const T_SOA: u16 = 6;
pub const T_WKS: u16 = 11;
pub const T_HINFO: u16 = 13;
pub const T_MINFO: u16 = 14;
pub const T_MX: u16 = 15;
pub const T_TXT: u16 = 16;
pub const T_AAAA: u16 = 28;
pub const T_SRV: u16 = 33;
pub const T_OPT: u16 = 41;
pub const T_TSIG: u16 = 250;

/// Layout of the RDATA of a known class/type pair: a list of fields that must tile it.
#[derive(Clone, Copy, Debug, PartialEq)]
pub enum Field { Fixed(usize), Name, CharStr, CharStrs1, AtLeast(usize), Options, Tsig }

pub fn layout(class: u16, rtype: u16) -> Option<&'static [Field]> {
    use Field::*;
    Some(match (rtype, class) {
        (2 | 3 | 4 | 5 | 7 | 8 | 9 | 12, _) => &[Name],          // NS MD MF CNAME MB MG MR PTR
        (T_A, IN) => &[Fixed(4)],
        (T_A, CH) => &[Name, Fixed(2)],                           // RFC 1034 3.6
        (T_SOA, _) => &[Name, Name, Fixed(20)],
        (T_WKS, IN) => &[AtLeast(5)],                             // address, protocol, bit map of any length
        (T_HINFO, _) => &[CharStr, CharStr],
        (T_MINFO, _) => &[Name, Name],
        (T_MX, _) => &[Fixed(2), Name],
        (T_TXT, _) => &[CharStrs1],                               // one or more <character-string>s
        (T_AAAA, IN) => &[Fixed(16)],
        (T_SRV, IN) => &[Fixed(6), Name],
        (T_OPT, _) => &[Options],
        (T_TSIG, _) => &[Tsig],
        _ => return None,                                         // unknown pair: anything goes (RFC 3597)
    })
}

fn be16(b: &[u8], at: usize) -> Option<usize> { Some((*b.get(at)? as usize) << 8 | *b.get(at + 1)? as usize) }

/// Does `rdata` (uncompressed) have the wire format its class/type prescribes?
pub fn ref_valid(class: u16, rtype: u16, rdata: &[u8]) -> bool {
    if rdata.len() > 65535 { return false; }
    let Some(fields) = layout(class, rtype) else { return true };
    let mut pos = 0;
    for f in fields {
        let rest = &rdata[pos..];
        let used = match *f {
            Field::Fixed(n) => if rest.len() >= n { Some(n) } else { None },
            Field::AtLeast(n) => if rest.len() >= n { Some(rest.len()) } else { None },
            Field::Name => ref_uncompressed(rest),
            Field::CharStr => rest.first().map(|l| 1 + *l as usize).filter(|n| *n <= rest.len()),
            Field::CharStrs1 => {
                let mut p = 0;
                loop {
                    match rest.get(p) { Some(l) if p + 1 + *l as usize <= rest.len() => p += 1 + *l as usize, _ => break None }
                    if p == rest.len() { break Some(p); }
                }
            }
            Field::Options => {
                let mut p = 0;
                loop {
                    if p == rest.len() { break Some(p); }
                    match be16(rest, p + 2) { Some(l) if p + 4 + l <= rest.len() => p += 4 + l, _ => break None }
                }
            }
            Field::Tsig => (|| {
                let a = ref_uncompressed(rest)?;                 // algorithm name, then time(6) fudge(2) MAC size(2)
                let mac = be16(rest, a + 8)?;
                let other = be16(rest, a + 10 + mac + 4)?;       // MAC, original id(2), error(2), other len(2)
                Some(a + 10 + mac + 6 + other).filter(|n| *n <= rest.len())
            })(),
        };
        match used { Some(n) => pos += n, None => return false }
    }
    pos == rdata.len()
}

/// Reading RDATA out of a message: the RDATA occupies message[cursor..cursor+rdlength]; embedded
/// names may be compressed (decoded inside the message cut off at the end of the RDATA) and are
/// expanded; the fields must fill RDLENGTH exactly.  Result: the uncompressed RDATA.
pub fn ref_read(class: u16, rtype: u16, msg: &[u8], cursor: usize, rdlength: u16) -> Option<Vec<u8>> {
    let end = cursor.checked_add(rdlength as usize).filter(|e| *e <= msg.len())?;
    let raw = &msg[cursor..end];
    let has_name = layout(class, rtype).map_or(false, |fs| fs.contains(&Field::Name));
    if !has_name {
        return if ref_valid(class, rtype, raw) { Some(raw.to_vec()) } else { None };
    }
    let buf = &msg[..end];
    let mut out = Vec::new();
    let mut pos = cursor;
    for f in layout(class, rtype).unwrap() {
        match *f {
            Field::Fixed(n) => { out.extend_from_slice(buf.get(pos..pos + n)?); pos += n; }
            Field::Name => { let (name, used) = ref_decode(buf, pos)?; out.extend(name); pos += used; }
            _ => unreachable!(),
        }
    }
    if pos == end { Some(out) } else { None }
}

// ------------------------------------------------------------------------------- messages (C15)

#[derive(Clone, Debug, PartialEq)]
pub struct RefQuestion { pub qname: Vec<u8>, pub qtype: u16, pub qclass: u16, pub end: usize }

/// RFC 1035 4.1.2: the question at `pos`.
pub fn ref_question(msg: &[u8], pos: usize) -> Option<RefQuestion> {
    let (qname, l) = ref_decode(msg, pos)?;
    let qtype = be16(msg, pos + l)? as u16;
    let qclass = be16(msg, pos + l + 2)? as u16;
    Some(RefQuestion { qname, qtype, qclass, end: pos + l + 4 })
}

/// End of the question at `pos` when only the first chunk of the QNAME is looked at.
pub fn ref_skip_question(msg: &[u8], pos: usize) -> Option<usize> {
    let l = ref_skip(msg.get(pos..)?)?;
    Some(pos + l + 4).filter(|e| *e <= msg.len())
}

#[derive(Clone, Debug, PartialEq)]
pub struct RefFixed { pub fixed_at: usize, pub rtype: u16, pub class: u16, pub raw_ttl: u32, pub rdlength: u16, pub end: usize }

/// RFC 1035 4.1.3 without looking past the first chunk of the owner or into the RDATA:
/// the fixed fields of the record at `pos` and its end; the whole record must be inside `msg`.
pub fn ref_skip_rr(msg: &[u8], pos: usize) -> Option<RefFixed> {
    let at = pos + ref_skip(msg.get(pos..)?)?;
    let rtype = be16(msg, at)? as u16;
    let class = be16(msg, at + 2)? as u16;
    let raw_ttl = (be16(msg, at + 4)? as u32) << 16 | be16(msg, at + 6)? as u32;
    let rdlength = be16(msg, at + 8)? as u16;
    let end = at + 10 + rdlength as usize;
    if end > msg.len() { return None; }
    Some(RefFixed { fixed_at: at, rtype, class, raw_ttl, rdlength, end })
}

#[derive(Clone, Debug, PartialEq)]
pub struct RefRr { pub owner: Vec<u8>, pub fixed: RefFixed, pub rdata: Vec<u8> }

/// RFC 1035 4.1.3: the record at `pos`, owner and RDATA decompressed.
pub fn ref_rr(msg: &[u8], pos: usize) -> Option<RefRr> {
    let (owner, _) = ref_decode(msg, pos)?;
    let fixed = ref_skip_rr(msg, pos)?;
    let rdata = ref_read(fixed.class, fixed.rtype, msg, fixed.fixed_at + 10, fixed.rdlength)?;
    Some(RefRr { owner, fixed, rdata })
}
