//! Reference model of a DNS zone store, shared by bnd_zone (C06) and bnd_zone_add (C20); included
//! with `#[path]`.  Written from RFC 1034 §4.3.2 step 3, RFC 4592 §3.3 and the property texts —
//! a flat list of records, no tree.  Also: conversion of the real store's answers into the same
//! canonical `Out*` values (names as lower-cased labels, RRsets as (ttl, sorted RDATA octets)), so
//! that nothing implementation-defined (iteration order, octet case of stored names) is compared.
#![allow(dead_code)]
use quandary::class::Class;
use quandary::db::zone::{
    IteratedRrset, LookupAddrsResult, LookupAllResult, LookupOptions, LookupResult, SingleRrset, Zone,
};
use quandary::db::HashMapTreeZone;
use quandary::name::Name;
use quandary::rr::{Rdata, Ttl, Type};
use std::borrow::Cow;

pub const A: u16 = 1;
pub const NS: u16 = 2;
pub const CNAME: u16 = 5;
pub const SOA: u16 = 6;
pub const MX: u16 = 15;
pub const TXT: u16 = 16;
pub const AAAA: u16 = 28;
pub const T257: u16 = 257;
pub const IN: u16 = 1;
pub const CH: u16 = 3;

/// A name as its labels, leftmost first, ASCII-lower-cased, without the root label.
pub type Labels = Vec<String>;

pub fn labels_of_str(n: &str) -> Labels {
    if n == "." { return vec![]; }
    n.trim_end_matches('.').split('.').map(|l| l.to_ascii_lowercase()).collect()
}

pub fn labels_of_name(n: &Name) -> Labels {
    n.labels().filter(|l| !l.is_null())
        .map(|l| String::from_utf8_lossy(l.octets()).to_ascii_lowercase()).collect()
}

/// One record offered to `add`.
#[derive(Clone, Debug)]
pub struct Rec {
    pub owner: &'static str,
    pub rtype: u16,
    pub class: u16,
    pub ttl: u32,
    pub rdata: &'static [u8],
}

/// (ttl, RDATA octets sorted) — the order of RDATA inside an RRset is not this property's business.
pub type RRs = (u32, Vec<Vec<u8>>);

/// Equality of RDATA as far as the RRsets of these stand-ins need it: NS and CNAME RDATA is one
/// domain name, compared ASCII-case-insensitively; every other type used here octet-wise.
fn rdata_same(rtype: u16, a: &[u8], b: &[u8]) -> bool {
    if rtype == NS || rtype == CNAME { a.eq_ignore_ascii_case(b) } else { a == b }
}

// ------------------------------------------------------------------------------------------ model

#[derive(Clone, Debug)]
pub struct Model {
    pub apex: Labels,
    pub class: u16,
    /// (owner, type, ttl, rdata) of every accepted, non-duplicate record.
    pub recs: Vec<(Labels, u16, u32, Vec<u8>)>,
}

#[derive(Clone, Debug, PartialEq)]
pub enum Base { WrongZone, Referral(Labels), Node(Labels, Option<Labels>), NxDomain }

impl Model {
    pub fn new(apex: &str, class: u16) -> Self { Model { apex: labels_of_str(apex), class, recs: vec![] } }

    pub fn in_zone(&self, name: &[String]) -> bool { name.ends_with(&self.apex) }

    /// C20: accepted iff owner at/below apex, class matches, TTL equals the existing RRset's.
    pub fn add(&mut self, r: &Rec) -> bool {
        let owner = labels_of_str(r.owner);
        if !self.in_zone(&owner) || r.class != self.class { return false; }
        if self.recs.iter().any(|e| e.0 == owner && e.1 == r.rtype && e.2 != r.ttl) { return false; }
        if !self.recs.iter().any(|e| e.0 == owner && e.1 == r.rtype && rdata_same(r.rtype, &e.3, r.rdata)) {
            self.recs.push((owner, r.rtype, r.ttl, r.rdata.to_vec()));
        }
        true
    }

    /// A node exists when it is the apex, owns a record, or has a record below it (empty non-terminal).
    pub fn exists(&self, name: &[String]) -> bool {
        name == &self.apex[..] || (self.in_zone(name) && self.recs.iter().any(|e| e.0.ends_with(name)))
    }

    pub fn rrset(&self, name: &[String], rtype: u16) -> Option<RRs> {
        let mut ttl = None;
        let mut v = vec![];
        for e in &self.recs {
            if e.0 == name && e.1 == rtype { ttl = Some(e.2); v.push(e.3.clone()); }
        }
        v.sort();
        ttl.map(|t| (t, v))
    }

    pub fn types_at(&self, name: &[String]) -> Vec<u16> {
        let mut t: Vec<u16> = self.recs.iter().filter(|e| e.0 == name).map(|e| e.1).collect();
        t.sort(); t.dedup(); t
    }

    /// All nodes: the apex, every owner, and every name between an owner and the apex.
    pub fn nodes(&self) -> Vec<Labels> {
        let mut v = vec![self.apex.clone()];
        for e in &self.recs {
            for k in 0..=(e.0.len() - self.apex.len()) { v.push(e.0[k..].to_vec()); }
        }
        v.sort(); v.dedup(); v
    }

    /// RFC 1034 §4.3.2 step 3 / RFC 4592 §3.3: walk from the apex towards the name.
    pub fn resolve(&self, name: &[String], below_cuts: bool) -> Base {
        if !self.in_zone(name) { return Base::WrongZone; }
        let mut k = name.len() - self.apex.len();      // labels of `name` not yet matched
        while k > 0 {
            let encloser = &name[k..];                    // exists (the apex, or matched last round)
            let next = &name[k - 1..];
            if !self.exists(next) {
                // `encloser` is the closest encloser; the only candidate source of synthesis is its `*` child
                let mut star = vec!["*".to_string()];
                star.extend_from_slice(encloser);
                return if self.exists(&star) { Base::Node(star.clone(), Some(star)) } else { Base::NxDomain };
            }
            // step 3b: a node (other than the apex) owning NS is a zone cut — the first one met is the topmost
            if !below_cuts && self.rrset(next, NS).is_some() { return Base::Referral(next.to_vec()); }
            k -= 1;
        }
        Base::Node(name.to_vec(), None)
    }
}

// ---------------------------------------------------------------- canonical answers (got and want)

#[derive(Clone, Debug, PartialEq)]
pub enum Out {
    Found(RRs, Option<Labels>),
    Cname(RRs, Option<Labels>),
    Referral(Labels, RRs),
    NoRecords(Option<Labels>),
    NxDomain,
    WrongZone,
    FoundAddrs { a: Option<RRs>, aaaa: Option<RRs>, sos: Option<Labels> },
    FoundAll(Vec<(u16, RRs)>, Option<Labels>),
}

impl Model {
    pub fn lookup(&self, base: &Base, rtype: u16) -> Out {
        match base {
            Base::WrongZone => Out::WrongZone,
            Base::NxDomain => Out::NxDomain,
            Base::Referral(c) => Out::Referral(c.clone(), self.rrset(c, NS).unwrap()),
            Base::Node(n, sos) => {
                if let Some(r) = self.rrset(n, rtype) { Out::Found(r, sos.clone()) }
                else if let Some(r) = self.rrset(n, CNAME) { Out::Cname(r, sos.clone()) }
                else { Out::NoRecords(sos.clone()) }
            }
        }
    }
    /// A always, AAAA only in class IN.
    pub fn lookup_addrs(&self, base: &Base) -> Out {
        match base {
            Base::Node(n, sos) => Out::FoundAddrs {
                a: self.rrset(n, A),
                aaaa: if self.class == IN { self.rrset(n, AAAA) } else { None },
                sos: sos.clone(),
            },
            _ => self.lookup(base, A),
        }
    }
    pub fn lookup_all(&self, base: &Base) -> Out {
        match base {
            Base::Node(n, sos) => Out::FoundAll(
                self.types_at(n).into_iter().map(|t| (t, self.rrset(n, t).unwrap())).collect(), sos.clone()),
            _ => self.lookup(base, A),
        }
    }
    /// lookup_addrs at a node that owns a CNAME and no address: the store may answer Found with no
    /// addresses or Cname (the API has both; which one is not fixed by the property).
    pub fn addrs_alternative(&self, base: &Base) -> Option<Out> {
        if let Base::Node(n, sos) = base {
            if let (Out::FoundAddrs { a: None, aaaa: None, .. }, Some(c)) = (self.lookup_addrs(base), self.rrset(n, CNAME)) {
                return Some(Out::Cname(c, sos.clone()));
            }
        }
        None
    }
}

fn rrs(ttl: Ttl, rdatas: &quandary::rr::RdataSet) -> RRs {
    let mut v: Vec<Vec<u8>> = rdatas.iter().map(|r| r.octets().to_vec()).collect();
    v.sort();
    (u32::from(ttl), v)
}
pub fn single(s: &SingleRrset) -> RRs { rrs(s.ttl, &s.rdatas) }
pub fn iterated(i: &IteratedRrset) -> (u16, RRs) { (u16::from(i.rr_type), rrs(i.ttl, &i.rdatas)) }
fn sos(s: &Option<Cow<Name>>) -> Option<Labels> { s.as_ref().map(|n| labels_of_name(n)) }

pub fn out_lookup(r: LookupResult) -> Out {
    match r {
        LookupResult::Found(f) => Out::Found(single(&f.data), sos(&f.source_of_synthesis)),
        LookupResult::Cname(c) => Out::Cname(single(&c.rrset), sos(&c.source_of_synthesis)),
        LookupResult::Referral(r) => Out::Referral(labels_of_name(&r.child_zone), single(&r.ns_rrset)),
        LookupResult::NoRecords(n) => Out::NoRecords(sos(&n.source_of_synthesis)),
        LookupResult::NxDomain => Out::NxDomain,
        LookupResult::WrongZone => Out::WrongZone,
    }
}
pub fn out_addrs(r: LookupAddrsResult) -> Out {
    match r {
        LookupAddrsResult::Found(f) => Out::FoundAddrs {
            a: f.data.a_rrset.as_ref().map(single),
            aaaa: f.data.aaaa_rrset.as_ref().map(single),
            sos: sos(&f.source_of_synthesis),
        },
        LookupAddrsResult::Cname(c) => Out::Cname(single(&c.rrset), sos(&c.source_of_synthesis)),
        LookupAddrsResult::Referral(r) => Out::Referral(labels_of_name(&r.child_zone), single(&r.ns_rrset)),
        LookupAddrsResult::NxDomain => Out::NxDomain,
        LookupAddrsResult::WrongZone => Out::WrongZone,
    }
}
pub fn out_all(r: LookupAllResult) -> Out {
    match r {
        LookupAllResult::Found(f) => {
            let s = sos(&f.source_of_synthesis);
            let mut v: Vec<(u16, RRs)> = f.data.map(|i| iterated(&i)).collect();
            v.sort();
            Out::FoundAll(v, s)
        }
        LookupAllResult::Referral(r) => Out::Referral(labels_of_name(&r.child_zone), single(&r.ns_rrset)),
        LookupAllResult::NxDomain => Out::NxDomain,
        LookupAllResult::WrongZone => Out::WrongZone,
    }
}

// -------------------------------------------------------------------------- driving the real store

pub fn class_of(c: u16) -> Class { Class::from(c) }

pub fn real_add(z: &mut HashMapTreeZone, r: &Rec) -> bool {
    let owner: Box<Name> = r.owner.parse().unwrap();
    let rdata: &Rdata = r.rdata.try_into().unwrap();
    z.add(&owner, Type::from(r.rtype), class_of(r.class), Ttl::from(r.ttl), rdata).is_ok()
}

/// A query name of the universe, parsed once.
pub struct QName { pub text: &'static str, pub name: Box<Name>, pub labels: Labels }
pub fn qnames(texts: &[&'static str]) -> Vec<QName> {
    texts.iter().map(|t| QName { text: t, name: t.parse().unwrap(), labels: labels_of_str(t) }).collect()
}

/// Compare every lookup of the real zone with the model: each name x each type (single-type lookup),
/// lookup_addrs, lookup_all, x search_below_cuts x checked/unchecked (unchecked only for names in the
/// zone: for other names the contract allows anything; not at all when `with_unchecked` is false).
/// Returns the number of lookups compared, or the first difference.
pub fn compare_lookups(z: &HashMapTreeZone, m: &Model, names: &[QName], types: &[u16], with_unchecked: bool) -> Result<u64, (String, String, String)> {
    let mut n = 0u64;
    for q in names {
        let inside = m.in_zone(&q.labels);
        for below in [false, true] {
            let base = m.resolve(&q.labels, below);
            for unchecked in [false, true] {
                if unchecked && !(inside && with_unchecked) { continue; }
                let opt = || LookupOptions { unchecked, search_below_cuts: below };
                let ctx = |what: &str| format!("{what} of {} (search_below_cuts={below}, unchecked={unchecked})", q.text);
                for &t in types {
                    let got = out_lookup(z.lookup(&q.name, Type::from(t), opt()));
                    let want = m.lookup(&base, t);
                    if got != want { return Err((ctx(&format!("lookup type {t}")), format!("{got:?}"), format!("{want:?}"))); }
                    n += 1;
                }
                let got = out_addrs(z.lookup_addrs(&q.name, opt()));
                let want = m.lookup_addrs(&base);
                if got != want && Some(&got) != m.addrs_alternative(&base).as_ref() {
                    return Err((ctx("lookup_addrs"), format!("{got:?}"), format!("{want:?}")));
                }
                let got = out_all(z.lookup_all(&q.name, opt()));
                let want = m.lookup_all(&base);
                if got != want { return Err((ctx("lookup_all"), format!("{got:?}"), format!("{want:?}"))); }
                n += 2;
            }
        }
    }
    Ok(n)
}

/// C20: iteration by node yields every node exactly once (incl. empty non-terminals) with exactly its
/// RRsets; iteration by RRset yields exactly the RRsets; soa()/ns() are the apex SOA/NS RRsets.
pub fn compare_iteration(z: &HashMapTreeZone, m: &Model) -> Result<(), (String, String, String)> {
    let mut got: Vec<(Labels, Vec<(u16, RRs)>)> = z.iter_by_node()
        .map(|(n, it)| { let mut v: Vec<(u16, RRs)> = it.map(|i| iterated(&i)).collect(); v.sort(); (labels_of_name(n), v) })
        .collect();
    got.sort();
    let want: Vec<(Labels, Vec<(u16, RRs)>)> = m.nodes().into_iter()
        .map(|n| { let v = m.types_at(&n).into_iter().map(|t| (t, m.rrset(&n, t).unwrap())).collect(); (n, v) })
        .collect();
    // a zone nothing was ever added to: whether its bare apex is listed is not constrained
    if !(m.recs.is_empty() && got.is_empty()) && got != want {
        return Err(("iter_by_node (sorted)".into(), format!("{got:?}"), format!("{want:?}")));
    }
    let mut got: Vec<(Labels, (u16, RRs))> = z.iter_by_rrset().map(|(n, i)| (labels_of_name(n), iterated(&i))).collect();
    got.sort();
    let want: Vec<(Labels, (u16, RRs))> = want.into_iter().flat_map(|(n, v)| v.into_iter().map(move |e| (n.clone(), e))).collect();
    if got != want { return Err(("iter_by_rrset (sorted)".into(), format!("{got:?}"), format!("{want:?}"))); }
    let got = z.soa().as_ref().map(single);
    let want = m.rrset(&m.apex, SOA);
    if got != want { return Err(("soa()".into(), format!("{got:?}"), format!("{want:?}"))); }
    let got = z.ns().as_ref().map(single);
    let want = m.rrset(&m.apex, NS);
    if got != want { return Err(("ns()".into(), format!("{got:?}"), format!("{want:?}"))); }
    Ok(())
}
