//! Reference for the server-level stand-ins (bnd_server_scan / bnd_server_answers / bnd_server_tsig):
//! request builders, a strict RFC 1035 response decoder (C02), an independent RFC 8945 MAC
//! computation (C10/C11) and the reference "walk" over a request that says what
//! `Server::handle_message` owes the sender (C03, C08, C09, C07 up to the catalog, C10).
//! Written from the property texts and RFC 1035 4.1 / 6891 6-7 / 8945 4-5 - not from the code.
//! Include with `#[path = "../wire_ref.rs"] mod wire_ref; #[path = "../srv_ref.rs"] mod srv_ref;`.
#![allow(dead_code)]
use super::wire_ref::*;
use hmac::{Hmac, Mac};

pub const FORMERR: u16 = 1;
pub const SERVFAIL: u16 = 2;
pub const NXDOMAIN: u16 = 3;
pub const NOTIMP: u16 = 4;
pub const REFUSED: u16 = 5;
pub const NOTAUTH: u16 = 9;
pub const BADVERS: u16 = 16;
pub const BADSIG: u16 = 16;
pub const BADKEY: u16 = 17;
pub const BADTIME: u16 = 18;
pub const ANY: u16 = 255;

pub fn be(b: &[u8], at: usize) -> u16 { u16::from_be_bytes([b[at], b[at + 1]]) }
pub fn hex(b: &[u8]) -> String { b.iter().map(|o| format!("{o:02x}")).collect() }

// ------------------------------------------------------------------------------ building requests

/// Wire form of a name given as dotted text without escapes ("." = root).
pub fn name(s: &str) -> Vec<u8> {
    let mut w = Vec::new();
    if s != "." {
        for l in s.trim_end_matches('.').split('.') { w.push(l.len() as u8); w.extend_from_slice(l.as_bytes()); }
    }
    w.push(0);
    w
}
/// A name of exactly `len` octets on the wire (len >= 3) made of labels filled with `fill`.
pub fn long_name(len: usize, fill: u8) -> Vec<u8> {
    let mut w = Vec::new();
    let mut rest = len - 1;
    while rest > 0 {
        // keep at least 2 octets for a following label
        let l = if rest <= 64 { rest - 1 } else if rest == 65 { 62 } else { 63 };
        w.push(l as u8);
        w.extend(std::iter::repeat(fill).take(l));
        rest -= l + 1;
    }
    w.push(0);
    assert_eq!(w.len(), len);
    w
}
/// ASCII-lower-cased copy of a wire name (length octets are <= 63 and thus never letters).
pub fn lower(n: &[u8]) -> Vec<u8> { n.to_ascii_lowercase() }

pub fn header(id: u16, b2: u8, b3: u8, qd: u16, an: u16, ns: u16, ar: u16) -> Vec<u8> {
    let mut m = id.to_be_bytes().to_vec();
    m.extend([b2, b3]);
    for c in [qd, an, ns, ar] { m.extend(c.to_be_bytes()); }
    m
}
pub fn question(qname: &[u8], qtype: u16, qclass: u16) -> Vec<u8> {
    let mut q = qname.to_vec();
    q.extend(qtype.to_be_bytes());
    q.extend(qclass.to_be_bytes());
    q
}
/// A record with an explicit RDLENGTH field (which may disagree with the RDATA octets that follow).
pub fn rr_len(owner: &[u8], rtype: u16, class: u16, ttl: u32, rdlength: u16, rdata: &[u8]) -> Vec<u8> {
    let mut r = owner.to_vec();
    r.extend(rtype.to_be_bytes());
    r.extend(class.to_be_bytes());
    r.extend(ttl.to_be_bytes());
    r.extend(rdlength.to_be_bytes());
    r.extend_from_slice(rdata);
    r
}
pub fn rr(owner: &[u8], rtype: u16, class: u16, ttl: u32, rdata: &[u8]) -> Vec<u8> {
    rr_len(owner, rtype, class, ttl, rdata.len() as u16, rdata)
}
/// RFC 8945 4.2 TSIG RDATA.
pub fn tsig_rdata(alg: &[u8], time: u64, fudge: u16, mac: &[u8], orig_id: u16, error: u16, other: &[u8]) -> Vec<u8> {
    let mut r = alg.to_vec();
    r.extend_from_slice(&time.to_be_bytes()[2..]);
    r.extend(fudge.to_be_bytes());
    r.extend((mac.len() as u16).to_be_bytes());
    r.extend_from_slice(mac);
    r.extend(orig_id.to_be_bytes());
    r.extend(error.to_be_bytes());
    r.extend((other.len() as u16).to_be_bytes());
    r.extend_from_slice(other);
    r
}

// ------------------------------------------------------------------------------ decoding responses (C02)

#[derive(Clone, Debug, PartialEq)]
pub struct DRr { pub owner: Vec<u8>, pub rtype: u16, pub class: u16, pub ttl: u32, pub rdata: Vec<u8>, pub start: usize, pub end: usize }
#[derive(Clone, Debug)]
pub struct DMsg {
    pub id: u16, pub b2: u8, pub b3: u8,
    pub questions: Vec<RefQuestion>,
    /// answer, authority, additional
    pub secs: [Vec<DRr>; 3],
}
impl DMsg {
    pub fn opt(&self) -> Option<&DRr> { self.secs[2].iter().find(|r| r.rtype == T_OPT) }
    pub fn tsig(&self) -> Option<&DRr> { self.secs[2].last().filter(|r| r.rtype == T_TSIG) }
    pub fn tc(&self) -> bool { self.b2 & 2 != 0 }
    pub fn aa(&self) -> bool { self.b2 & 4 != 0 }
    /// RFC 6891 6.1.3: upper 8 bits in the first octet of the OPT TTL, lower 4 in the header.
    pub fn ext_rcode(&self) -> u16 { (self.opt().map_or(0, |o| (o.ttl >> 24) as u16) << 4) | (self.b3 & 0xf) as u16 }
    /// Records other than OPT / TSIG, per section.
    pub fn data_counts(&self) -> [usize; 3] {
        [0, 1, 2].map(|s| self.secs[s].iter().filter(|r| r.rtype != T_OPT && r.rtype != T_TSIG).count())
    }
}

/// C02: the message decodes completely (every question, owner, RDATA incl. embedded names and
/// backward-only compression pointers), the counts match the records, the message ends exactly
/// after the last record, OPT at most once and in the additional section, TSIG only as the last record.
pub fn decode(m: &[u8]) -> Result<DMsg, String> {
    if m.len() < 12 { return Err(format!("only {} octets: no header", m.len())); }
    let mut pos = 12;
    let mut questions = vec![];
    for i in 0..be(m, 4) {
        let q = ref_question(m, pos).ok_or(format!("question {i} at offset {pos} does not decode"))?;
        pos = q.end;
        questions.push(q);
    }
    let mut secs: [Vec<DRr>; 3] = [vec![], vec![], vec![]];
    for s in 0..3 {
        for i in 0..be(m, 6 + 2 * s) {
            let r = ref_rr(m, pos).ok_or(format!("record {i} of section {} at offset {pos} does not decode (message has {} octets)", s + 1, m.len()))?;
            secs[s].push(DRr { owner: r.owner, rtype: r.fixed.rtype, class: r.fixed.class, ttl: r.fixed.raw_ttl, rdata: r.rdata, start: pos, end: r.fixed.end });
            pos = r.fixed.end;
        }
    }
    if pos != m.len() { return Err(format!("the counted records end at offset {pos} but the message has {} octets", m.len())); }
    let all: Vec<(usize, &DRr)> = secs.iter().enumerate().flat_map(|(s, v)| v.iter().map(move |r| (s, r))).collect();
    if all.iter().filter(|(_, r)| r.rtype == T_OPT).count() > 1 { return Err("more than one OPT record".into()); }
    if all.iter().any(|(s, r)| r.rtype == T_OPT && *s != 2) { return Err("OPT record outside the additional section".into()); }
    for (i, (s, r)) in all.iter().enumerate() {
        if r.rtype == T_TSIG && (*s != 2 || i != all.len() - 1) { return Err("TSIG record that is not the last record of the message".into()); }
    }
    Ok(DMsg { id: be(m, 0), b2: m[2], b3: m[3], questions, secs })
}

/// C02 "every name is well formed" read strictly (RFC 1035 4.1.4: a pointer replaces the tail of
/// a name by "a prior occurance of the same name"; = the first clause of C13): walks a message
/// that `decode` accepts and examines every name field - QNAME, owners, the names inside RDATA
/// of the known layouts incl. SRV / Chaosnet A / the TSIG algorithm name.  The stored part of a
/// name is literal labels, then the root label or ONE pointer; every pointer must point strictly
/// backwards to the first octet of a label (or root label) of a name stored earlier in the
/// message - never into the header, the fixed fields or the middle of a label.
pub fn pointer_check(m: &[u8]) -> Result<(), String> {
    fn chunk(m: &[u8], mut pos: usize, label_starts: &mut [bool], what: &str) -> Result<usize, String> {
        let mut mine = vec![];
        let end = loop {
            let o = *m.get(pos).ok_or(format!("{what}: runs past the end"))? as usize;
            if o >= 0xc0 {
                let target = (o & 0x3f) << 8 | *m.get(pos + 1).ok_or(format!("{what}: cut-off pointer"))? as usize;
                if target >= pos || !label_starts[target] {
                    return Err(format!("compression pointer at offset {pos} ({what}) has the target {target}, which is not the first octet of a label of a name written earlier"));
                }
                break pos + 2;
            }
            if o > 63 { return Err(format!("{what}: label type {o:#04x} at offset {pos}")); }
            mine.push(pos);
            if o == 0 { break pos + 1; }
            pos += 1 + o;
        };
        for s in mine { label_starts[s] = true; }
        Ok(end)
    }
    if m.len() < 12 { return Err("no header".into()); }
    let mut label_starts = vec![false; m.len()];
    let mut pos = 12;
    for i in 0..be(m, 4) { pos = chunk(m, pos, &mut label_starts, &format!("QNAME of question {i}"))? + 4; }
    for i in 0..be(m, 6) as usize + be(m, 8) as usize + be(m, 10) as usize {
        let at = chunk(m, pos, &mut label_starts, &format!("owner of record {i}"))?;
        if at + 10 > m.len() { return Err(format!("record {i}: fixed fields run past the end")); }
        let (rtype, class, rdlength) = (be(m, at), be(m, at + 2), be(m, at + 8) as usize);
        let (mut p, end) = (at + 10, at + 10 + rdlength);
        if end > m.len() { return Err(format!("record {i}: RDATA runs past the end")); }
        match layout(class, rtype) {
            Some(fields) if fields.contains(&Field::Name) => {
                for f in fields {
                    match *f {
                        Field::Fixed(n) => p += n,
                        Field::Name => p = chunk(&m[..end], p, &mut label_starts, &format!("name in the RDATA of record {i}, type {rtype}"))?,
                        _ => unreachable!(),
                    }
                }
            }
            Some(fields) if fields == [Field::Tsig] => { chunk(&m[..end], p, &mut label_starts, "algorithm name of the TSIG record")?; }
            _ => {}
        }
        pos = end;
    }
    Ok(())
}

// ------------------------------------------------------------------------------ RFC 8945 reference

#[derive(Clone, Copy, Debug, PartialEq)]
pub enum Alg { Sha1, Sha256 }
impl Alg {
    pub fn wire_name(self) -> Vec<u8> { name(match self { Alg::Sha1 => "hmac-sha1.", Alg::Sha256 => "hmac-sha256." }) }
    pub fn from_wire(n: &[u8]) -> Option<Alg> { [Alg::Sha1, Alg::Sha256].into_iter().find(|a| a.wire_name() == lower(n)) }
    pub fn out_len(self) -> usize { match self { Alg::Sha1 => 20, Alg::Sha256 => 32 } }
}
pub fn hmac(alg: Alg, key: &[u8], parts: &[&[u8]]) -> Vec<u8> {
    match alg {
        Alg::Sha1 => { let mut h = Hmac::<sha1::Sha1>::new_from_slice(key).unwrap(); for p in parts { h.update(p); } h.finalize().into_bytes().to_vec() }
        Alg::Sha256 => { let mut h = Hmac::<sha2::Sha256>::new_from_slice(key).unwrap(); for p in parts { h.update(p); } h.finalize().into_bytes().to_vec() }
    }
}
#[derive(Clone, Debug)]
pub struct Key { pub name: Vec<u8>, pub alg: Alg, pub secret: Vec<u8> }

/// The fields of a TSIG record (owner and RDATA already decoded / validated).
#[derive(Clone, Debug)]
pub struct Tsig { pub key: Vec<u8>, pub alg: Vec<u8>, pub time: u64, pub fudge: u16, pub mac: Vec<u8>, pub orig_id: u16, pub error: u16, pub other: Vec<u8> }
pub fn tsig_fields(owner: &[u8], rdata: &[u8]) -> Tsig {
    let a = ref_uncompressed(rdata).unwrap();
    let mut t = [0u8; 8];
    t[2..].copy_from_slice(&rdata[a..a + 6]);
    let ml = be(rdata, a + 8) as usize;
    let p = a + 10 + ml;
    let ol = be(rdata, p + 4) as usize;
    Tsig { key: owner.to_vec(), alg: rdata[..a].to_vec(), time: u64::from_be_bytes(t), fudge: be(rdata, a + 6), mac: rdata[a + 10..p].to_vec(),
           orig_id: be(rdata, p), error: be(rdata, p + 2), other: rdata[p + 6..p + 6 + ol].to_vec() }
}
/// RFC 8945 4.3: the MAC over [request MAC length + request MAC] + the message before the TSIG RR
/// with the original ID and ARCOUNT decremented + the TSIG variables (names in canonical form).
pub fn tsig_mac(alg: Alg, secret: &[u8], request_mac: Option<&[u8]>, msg_before_tsig: &[u8], arcount_includes_tsig: bool, t: &Tsig) -> Vec<u8> {
    let mut m = msg_before_tsig.to_vec();
    m[..2].copy_from_slice(&t.orig_id.to_be_bytes());
    if arcount_includes_tsig { let ar = be(&m, 10) - 1; m[10..12].copy_from_slice(&ar.to_be_bytes()); }
    let mut pre = vec![];
    if let Some(rm) = request_mac { pre.extend((rm.len() as u16).to_be_bytes()); pre.extend_from_slice(rm); }
    let mut vars = lower(&t.key);
    vars.extend([0, 255, 0, 0, 0, 0]);                       // CLASS ANY, TTL 0
    vars.extend(lower(&t.alg));
    vars.extend_from_slice(&t.time.to_be_bytes()[2..]);
    vars.extend(t.fudge.to_be_bytes());
    vars.extend(t.error.to_be_bytes());
    vars.extend((t.other.len() as u16).to_be_bytes());
    vars.extend_from_slice(&t.other);
    hmac(alg, secret, &[&pre, &m, &vars])
}
/// Sign `msg` (a complete message without TSIG) as a request: returns the message with the TSIG RR
/// appended (ARCOUNT incremented) and the full-length MAC.  `mac_edit` maps the computed MAC to the one sent.
pub fn sign_request(msg: &[u8], key_name: &[u8], alg_name: &[u8], alg: Alg, secret: &[u8], time: u64, fudge: u16, orig_id: u16,
                    mac_edit: &dyn Fn(Vec<u8>) -> Vec<u8>) -> (Vec<u8>, Vec<u8>) {
    let mut t = Tsig { key: key_name.to_vec(), alg: alg_name.to_vec(), time, fudge, mac: vec![], orig_id, error: 0, other: vec![] };
    let full = tsig_mac(alg, secret, None, msg, false, &t);
    t.mac = mac_edit(full);
    let mut out = msg.to_vec();
    let ar = be(&out, 10) + 1;
    out[10..12].copy_from_slice(&ar.to_be_bytes());
    out.extend(rr(key_name, T_TSIG, 255, 0, &tsig_rdata(alg_name, time, fudge, &t.mac, orig_id, 0, &[])));
    (out, t.mac)
}
/// RFC 8945 5.2.2.1: acceptable MAC lengths.
pub fn mac_len_ok(alg: Alg, len: usize) -> bool { len <= alg.out_len() && len >= 10.max((alg.out_len() + 1) / 2) }

#[derive(Clone, Debug, PartialEq)]
pub enum TsigVerdict { BadKey, FormErr, BadSig, BadTime, Ok }
/// RFC 8945 5.2: key check, then MAC length, MAC, time - in that order.
pub fn tsig_verdict(req: &[u8], tsig_start: usize, t: &Tsig, keys: &[Key], now: u64) -> (TsigVerdict, Option<Key>) {
    let Some(alg) = Alg::from_wire(&t.alg) else { return (TsigVerdict::BadKey, None) };
    let Some(key) = keys.iter().find(|k| lower(&k.name) == lower(&t.key) && k.alg == alg) else { return (TsigVerdict::BadKey, None) };
    if !mac_len_ok(alg, t.mac.len()) { return (TsigVerdict::FormErr, Some(key.clone())); }
    let full = tsig_mac(alg, &key.secret, None, &req[..tsig_start], true, t);
    if full[..t.mac.len()] != t.mac[..] { return (TsigVerdict::BadSig, Some(key.clone())); }
    if now.abs_diff(t.time) > t.fudge as u64 { return (TsigVerdict::BadTime, Some(key.clone())); }
    (TsigVerdict::Ok, Some(key.clone()))
}

// ------------------------------------------------------------------------------ the reference walk

#[derive(Clone, Debug, PartialEq)]
pub enum Stage {
    /// QR set, fewer than 12 octets, or QDCOUNT > 1: no response at all
    NoResponse,
    /// a problem found while walking the message: the acceptable (extended) RCODEs
    Error(Vec<u16>),
    /// a well-placed, well-formed TSIG that does not authenticate the request
    TsigError(TsigVerdict),
    /// the walk found nothing wrong; opcode QUERY with a supported QTYPE/QCLASS: the catalog decides
    Lookup,
}
#[derive(Clone, Debug)]
pub struct Expectation {
    pub stage: Stage,
    pub why: String,
    /// the parseable single question and whether its QNAME is free of compression pointers
    pub q: Option<(RefQuestion, bool)>,
    /// Some(b): the response must (not) carry an OPT; None: the property leaves it open
    pub opt: Option<bool>,
    /// the size a UDP response must not exceed
    pub udp_limit: usize,
    /// the TSIG of the request when it was reached, well placed and well formed; where it starts
    pub tsig: Option<(Tsig, usize)>,
    pub verdict: Option<TsigVerdict>,
    pub key: Option<Key>,
}

pub struct Ctx<'a> { pub tcp: bool, pub payload: u16, pub keys: &'a [Key], pub now: u64 }

pub fn expectation(req: &[u8], cx: &Ctx) -> Expectation {
    let mut e = Expectation { stage: Stage::NoResponse, why: String::new(), q: None, opt: Some(false), udp_limit: 512, tsig: None, verdict: None, key: None };
    if req.len() < 12 { e.why = "shorter than a header".into(); return e; }
    if req[2] & 0x80 != 0 { e.why = "QR set".into(); return e; }
    let (qd, an, ns, ar) = (be(req, 4), be(req, 6) as usize, be(req, 8) as usize, be(req, 10) as usize);
    if qd > 1 { e.why = "QDCOUNT > 1".into(); return e; }
    let opcode = req[2] >> 3 & 0xf;
    // a QUERY without question is FORMERR, too; whether that or a later EDNS/TSIG error is "first" is left open
    let no_q = qd == 0 && opcode == 0;
    let err = |mut e: Expectation, mut codes: Vec<u16>, why: &str| {
        if no_q && !codes.contains(&FORMERR) { codes.push(FORMERR); }
        e.stage = Stage::Error(codes);
        e.why = why.into();
        e
    };
    let mut pos = 12;
    if qd == 1 {
        match ref_question(req, 12) {
            Some(q) => { pos = q.end; let plain = ref_uncompressed(&req[12..]).is_some(); e.q = Some((q, plain)); }
            None => return err(e, vec![FORMERR], "the question cannot be parsed"),
        }
    }
    for _ in 0..an + ns {
        match ref_skip_rr(req, pos) {
            None => return err(e, vec![FORMERR], "a counted answer/authority record cannot be delimited"),
            Some(f) if f.rtype == T_OPT || f.rtype == T_TSIG => return err(e, vec![FORMERR], "OPT or TSIG outside the additional section"),
            Some(f) => pos = f.end,
        }
    }
    let mut seen_opt = false;
    for i in 0..ar {
        let Some(f) = ref_skip_rr(req, pos) else {
            // if the record that cannot be delimited announces itself as OPT, "reached" is debatable
            let announced = ref_skip(&req[pos..]).and_then(|l| req.get(pos + l..pos + l + 2)).map(|t| be(t, 0));
            if !seen_opt && announced == Some(T_OPT) { e.opt = None; }
            return err(e, vec![FORMERR], "a counted additional record cannot be delimited");
        };
        if f.rtype == T_OPT {
            if seen_opt { return err(e, vec![FORMERR], "more than one OPT"); }
            seen_opt = true;
            e.opt = Some(true);
            e.udp_limit = (f.class as usize).clamp(512, cx.payload as usize);
            let version = (f.raw_ttl >> 16) as u8;
            let well_formed = ref_rr(req, pos).map_or(false, |r| r.owner == [0]);
            match (well_formed, version != 0) {
                (true, false) => (),
                (true, true) => return err(e, vec![BADVERS], "EDNS version other than 0"),
                (false, false) => return err(e, vec![FORMERR], "OPT malformed or its owner is not the root"),
                (false, true) => return err(e, vec![FORMERR, BADVERS], "OPT malformed / owner not root AND version other than 0"),
            }
        } else if f.rtype == T_TSIG {
            if i != ar - 1 { return err(e, vec![FORMERR], "TSIG is not the last record"); }
            if f.class != 255 { return err(e, vec![FORMERR], "TSIG with a class other than ANY"); }
            if f.raw_ttl != 0 { return err(e, vec![FORMERR], "TSIG with a TTL field other than 0"); }
            let Some(r) = ref_rr(req, pos) else { return err(e, vec![FORMERR], "TSIG record malformed (RFC 8945 5.2)") };
            let t = tsig_fields(&r.owner, &r.rdata);
            let (v, key) = tsig_verdict(req, pos, &t, cx.keys, cx.now);
            e.tsig = Some((t, pos));
            e.verdict = Some(v.clone());
            e.key = key;
            match v {
                TsigVerdict::Ok => (),
                TsigVerdict::FormErr => return err(e, vec![FORMERR], "TSIG MAC length outside the allowed range"),
                v => {
                    e.stage = Stage::TsigError(v);
                    e.why = "TSIG does not authenticate the request".into();
                    return e;
                }
            }
        }
        pos = f.end;
    }
    if pos != req.len() { return err(e, vec![FORMERR], "octets after the last counted record"); }
    if opcode != 0 { return err(e, vec![NOTIMP], "opcode other than QUERY"); }
    let Some((q, _)) = &e.q else { return err(e, vec![FORMERR], "QUERY without question") };
    if (251..=254).contains(&q.qtype) { return err(e, vec![NOTIMP], "QTYPE IXFR/AXFR/MAILB/MAILA"); }
    if q.qclass == 255 { return err(e, vec![NOTIMP], "QCLASS ANY"); }
    e.stage = Stage::Lookup;
    e.why = "well-formed query".into();
    e
}

pub type Mismatch = (String, String, String);
fn mm(what: &str, got: impl std::fmt::Debug, want: impl std::fmt::Debug) -> Mismatch { (what.to_string(), format!("{got:?}"), format!("{want:?}")) }

/// Everything the properties say about a response without knowing the catalog.  `resp` = None: no
/// response was sent.  Returns the decoded response (None when rightly nothing was sent).
pub fn check_response(req: &[u8], resp: Option<&[u8]>, e: &Expectation, cx: &Ctx) -> Result<Option<DMsg>, Mismatch> {
    let Some(resp) = resp else {
        return if e.stage == Stage::NoResponse { Ok(None) } else { Err(mm("[C03] no response to a request that must be answered", "no response", &e.why)) };
    };
    if e.stage == Stage::NoResponse { return Err(mm("[C03] a response was sent although the request must be ignored", hex(resp), &e.why)); }
    // ---- C02
    let d = decode(resp).map_err(|why| mm("[C02] the response does not decode", format!("{why}: {}", hex(resp)), "a well-formed message"))?;
    // ---- C03
    let opcode = req[2] >> 3 & 0xf;
    if d.id != be(req, 0) { return Err(mm("[C03] response ID", d.id, be(req, 0))); }
    if d.b2 & 0x80 == 0 { return Err(mm("[C03] QR clear in a response", d.b2, "QR set")); }
    if d.b2 >> 3 & 0xf != opcode { return Err(mm("[C03] response opcode", d.b2 >> 3 & 0xf, opcode)); }
    let want_rd = if opcode == 0 { req[2] & 1 } else { 0 };
    if d.b2 & 1 != want_rd { return Err(mm("[C03] RD (copied only for opcode QUERY)", d.b2 & 1, want_rd)); }
    if d.b3 & 0xf0 != 0 { return Err(mm("[C03] RA / reserved header bits (mask 0xf0 of the fourth header octet)", format!("{:#04x}", d.b3 & 0xf0), 0)); }
    if let Some((q, plain)) = &e.q {
        let ok = d.questions.len() == 1 && d.questions[0].qname == q.qname && d.questions[0].qtype == q.qtype && d.questions[0].qclass == q.qclass
            && (!*plain || resp.get(12..q.end) == Some(&req[12..q.end]));
        if !ok { return Err(mm("[C03] the question is not echoed octet-for-octet", hex(&resp[12..d.questions.last().map_or(12, |q| q.end)]), hex(&req[12..q.end]))); }
    }
    // ---- C04 (size, TC)
    let counts = d.data_counts();
    if cx.tcp {
        if d.tc() { return Err(mm("[C04] TC set over TCP", "TC", "TC clear")); }
    } else {
        if resp.len() > e.udp_limit { return Err(mm("[C04] UDP response longer than the limit", resp.len(), e.udp_limit)); }
        if d.tc() && counts != [0, 0, 0] { return Err(mm("[C04] TC set but records other than OPT/TSIG present (answer, authority, additional)", counts, [0, 0, 0])); }
    }
    // ---- C09
    if let Some(o) = d.opt() {
        if o.owner != [0] || o.class != cx.payload || (o.ttl >> 16) as u8 != 0 {
            return Err(mm("[C09] OPT of the response (owner, class, version)", (hex(&o.owner), o.class, (o.ttl >> 16) as u8), ("00", cx.payload, 0)));
        }
    }
    if let Some(want) = e.opt {
        if d.opt().is_some() != want { return Err(mm("[C09] OPT in the response iff an OPT of the request's additional section was reached", d.opt().is_some(), (want, &e.why))); }
    }
    // ---- stage
    let rcode = d.ext_rcode();
    match &e.stage {
        Stage::NoResponse => unreachable!(),
        Stage::Error(codes) => {
            if !codes.contains(&rcode) {
                let tag = if e.verdict == Some(TsigVerdict::FormErr) { "[C10]" } else if codes.contains(&BADVERS) { "[C09]" } else if codes.contains(&NOTIMP) { "[C07]" } else { "[C08]" };
                return Err(mm(&format!("{tag} (extended) RCODE"), rcode, (codes, &e.why)));
            }
            let tag = match rcode { FORMERR => "[C08]", BADVERS => "[C09]", _ => "[C07]" };
            if counts[0] != 0 || (rcode != BADVERS && counts[1] != 0) || (rcode == NOTIMP && counts[2] != 0) {
                return Err(mm(&format!("{tag} records in an error response (answer, authority, additional without OPT/TSIG)"), counts, (rcode, "none")));
            }
            if rcode == NOTIMP && d.aa() { return Err(mm("[C07] AA set in a NOTIMP response", "AA", "AA clear")); }
        }
        Stage::TsigError(v) => {
            let no_q_formerr = be(req, 4) == 0 && opcode == 0 && rcode == FORMERR;
            if !no_q_formerr {
                if rcode != NOTAUTH { return Err(mm("[C10][C11] RCODE for a TSIG that does not authenticate the request", rcode, (NOTAUTH, v))); }
                if counts != [0, 0, 0] { return Err(mm("[C10] records in a NOTAUTH response", counts, [0, 0, 0])); }
            }
        }
        Stage::Lookup => (),
    }
    // ---- C10 / C11: the TSIG of the response
    if let (Some((t, _)), Some(v)) = (&e.tsig, &e.verdict) {
        let no_q_formerr = be(req, 4) == 0 && opcode == 0 && rcode == FORMERR && *v != TsigVerdict::Ok;
        if !no_q_formerr && *v != TsigVerdict::FormErr {
            match d.tsig() {
                None => {
                    // the only excuse: it does not fit (then the client is told to retry over TCP)
                    let fits_surely = resp.len() + t.key.len() + 10 + t.alg.len() + 16 + 32 + 6 <= if cx.tcp { 65535 } else { e.udp_limit };
                    if fits_surely || cx.tcp || !d.tc() { return Err(mm("[C10] the response to a request with TSIG carries no TSIG record (and TC is clear or it would fit)", "no TSIG", v)); }
                }
                Some(r) => {
                    let rt = tsig_fields(&r.owner, &r.rdata);
                    let want_err = match v { TsigVerdict::BadKey => BADKEY, TsigVerdict::BadSig => BADSIG, TsigVerdict::BadTime => BADTIME, _ => 0 };
                    if rt.error != want_err { return Err(mm("[C10] error field of the response TSIG", rt.error, (want_err, v))); }
                    if lower(&rt.key) != lower(&t.key) { return Err(mm("[C10] key name of the response TSIG", hex(&rt.key), hex(&t.key))); }
                    match v {
                        TsigVerdict::BadKey | TsigVerdict::BadSig => if !rt.mac.is_empty() { return Err(mm("[C10] MAC of a BADKEY/BADSIG response must be empty", hex(&rt.mac), "")); },
                        _ => {
                            let key = e.key.as_ref().unwrap();
                            let full = tsig_mac(key.alg, &key.secret, Some(&t.mac), &resp[..r.start], true, &rt);
                            if !mac_len_ok(key.alg, rt.mac.len()) || full[..rt.mac.len()] != rt.mac[..] {
                                return Err(mm("[C10][C11] the response MAC does not verify (RFC 8945 4.3: request MAC, message with original ID, TSIG variables)", hex(&rt.mac), hex(&full)));
                            }
                        }
                    }
                }
            }
        }
    }
    Ok(Some(d))
}
