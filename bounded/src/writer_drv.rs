//! Driver shared by bnd_writer (C12, and the writer clauses of C02) and bnd_writer_ptr (C13);
//! included with `#[path = "../writer_drv.rs"] mod writer_drv;`.
//!
//! Enumerates sequences of operations of the real `quandary::message::Writer` (public API only),
//! keeps a MODEL of what the finished message has to contain (written from the property texts
//! C12 / C13 / C02, RFC 1035 4.1, RFC 6891 6.1 (OPT), RFC 8945 4.2 (TSIG), RFC 3597 4), finishes
//! the message and decodes it with the independent decoder of wire_ref.rs.
//!
//! C12 clauses (bnd_writer): the message decodes completely, to exactly the header values,
//! questions, records (sections by header counts), OPT (payload size, extended RCODE) and TSIG
//! record of the operations that returned Ok, in order - so failed operations left no trace and
//! the counts match; names equal the names given EXACTLY in case-preserving / disabled mode and
//! ignoring ASCII case in standard mode; length <= limit in effect; an operation that returned
//! Err(Truncation) really did not fit uncompressed into limit - reservations - written; the same
//! sequence without the operations that failed gives the identical message (no trace).
//! C13 clauses (bnd_writer_ptr): every compression pointer points strictly backwards to the first
//! octet of a label of a name that was completed earlier in the message; no pointer inside SRV,
//! Chaosnet A, TSIG or unknown-type RDATA; none in names written while compression was disabled.
//!
//! Which operations succeed is NOT predicted (only Truncation is constrained, as above).  Hints
//! are used only as the API documentation allows: Qname when the name is the first QNAME (or no
//! question exists - documented), MostRecentOwner / MostRecentNameInRdata / Explicit only when the
//! model knows such an earlier occurrence that equals the name ignoring ASCII case; never after
//! clear_rrs discarded it, never taken from a failed operation, MostRecentNameInRdata never after
//! an unknown-type record.  After set_rcode on an EDNS message with non-zero upper extended-RCODE
//! bits the upper bits are not constrained.  The HMAC value of a signed TSIG record is only
//! required to be the MAC finish_with_mac returns (32 octets for HMAC-SHA256).
#![allow(dead_code)]
use quandary::class::Class;
use quandary::message::tsig::{Algorithm, PreparedTsigRr};
use quandary::message::writer::{CompressionMode, Error, Hint, HintPointerVec, HintedName, TsigMode, Writer};
use quandary::message::{ExtendedRcode, Opcode, Qclass, Qtype, Question, Rcode};
use quandary::name::{LowercaseName, Name};
use quandary::rr::rdata::TimeSigned;
use quandary::rr::{Rdata, RdataSetOwned, Ttl, Type};
use std::panic::{catch_unwind, AssertUnwindSafe};
use vq_bounded::{done, fail};

#[path = "wire_ref.rs"]
mod wire_ref;
use wire_ref::{layout, ref_question, ref_rr, ref_uncompressed, Field, RefRr};

// ------------------------------------------------------------------------------------ universe

#[derive(Clone, Copy, Debug, PartialEq)]
pub enum Sec { An, Ns, Ar }
#[derive(Clone, Copy, Debug, PartialEq)]
pub enum H { None, Qname, Owner, InRdata, Explicit(usize) }
#[derive(Clone, Copy, Debug, PartialEq)]
pub enum Mode { Std, Case, Off }
const MODES: [Mode; 3] = [Mode::Std, Mode::Case, Mode::Off];

#[derive(Clone, Copy, Debug, PartialEq)]
pub enum Op {
    Question(usize),
    Rr { sec: Sec, owner: usize, hint: H, rd: usize },
    RrSet { sec: Sec, owner: usize, hint: H, set: usize },
    Header(u8),
    Rcode(u8),
    Edns(u16),
    ExtRcode(u16),
    Tsig(usize),
    TimeSigned,
    Clear,
    Limit(usize),
    Mode(Mode),
    Template,
}

#[derive(Clone, Copy, Debug, PartialEq)]
pub enum Init { New(usize), TryFrom }

#[derive(Clone, Debug)]
pub struct Scenario { buf_len: usize, init: Init, mode0: Mode, ops: Vec<Op> }

struct RdSpec { rtype: u16, class: u16, octets: Vec<u8>, rdata: Box<Rdata>, names: Vec<Vec<u8>>, text: String }
struct SetSpec { rtype: u16, class: u16, members: Vec<usize>, set: RdataSetOwned }
struct TsigSpec { signed: bool, alg: Vec<u8>, key_name: usize, error: u16, text: &'static str }

pub struct Uni {
    texts: Vec<&'static str>,
    wires: Vec<Vec<u8>>,
    names: Vec<Box<Name>>,
    questions: Vec<Question>,
    rdatas: Vec<RdSpec>,
    sets: Vec<SetSpec>,
    tsigs: Vec<TsigSpec>,
}

fn wire(text: &str) -> Vec<u8> {
    let mut w = Vec::new();
    for l in text.split('.').filter(|l| !l.is_empty()) { w.push(l.len() as u8); w.extend_from_slice(l.as_bytes()); }
    w.push(0);
    w
}

/// The uncompressed names inside valid uncompressed RDATA of a known type, in order.
fn names_in(class: u16, rtype: u16, rdata: &[u8]) -> Vec<Vec<u8>> {
    let mut v = Vec::new();
    let Some(fields) = layout(class, rtype) else { return v };
    let mut pos = 0;
    for f in fields {
        match *f {
            Field::Fixed(n) => pos += n,
            Field::Name => { let l = ref_uncompressed(&rdata[pos..]).unwrap(); v.push(rdata[pos..pos + l].to_vec()); pos += l; }
            _ => break,
        }
    }
    v
}

const T_A: u16 = 1;
const T_NS: u16 = 2;
const T_CNAME: u16 = 5;
const T_SOA: u16 = 6;
const T_MX: u16 = 15;
const T_TXT: u16 = 16;
const T_SRV: u16 = 33;
const T_OPT: u16 = 41;
const T_TSIG: u16 = 250;
const T_UNKNOWN: u16 = 65280;
const IN: u16 = 1;
const CH: u16 = 3;

// indices into Uni::texts
const N_ROOT: usize = 0;
const N_EX: usize = 1;
const N_A_EX: usize = 2;
const N_A_EX_UP: usize = 3;
const N_B_A_EX: usize = 4;
const N_B_A_EX_MIX: usize = 5;
const N_C: usize = 6;
const N_KEY: usize = 7;
const N_D_EX: usize = 8;

impl Uni {
    fn new() -> Uni {
        let texts = vec![".", "ex.", "a.ex.", "A.EX.", "b.a.ex.", "B.A.ex.", "c.", "k.a.ex.", "d.ex."];
        let wires: Vec<Vec<u8>> = texts.iter().map(|t| wire(t)).collect();
        let names: Vec<Box<Name>> = wires.iter().map(|w| Name::try_from_uncompressed_all(w).unwrap()).collect();
        let questions = names.iter().map(|n| Question { qname: n.clone(), qtype: Qtype::from(T_A), qclass: Qclass::from(IN) }).collect();
        let mut u = Uni { texts, wires, names, questions, rdatas: vec![], sets: vec![], tsigs: vec![] };
        let cat = |parts: &[&[u8]]| parts.concat();
        // 0..=12
        u.rd(T_A, IN, vec![10, 0, 0, 1], "A 10.0.0.1");
        u.rd(T_NS, IN, wire("a.ex."), "NS a.ex.");
        u.rd(T_NS, IN, wire("B.A.ex."), "NS B.A.ex.");
        u.rd(T_MX, IN, cat(&[&[0, 10], &wire("b.a.ex.")]), "MX 10 b.a.ex.");
        u.rd(T_SOA, IN, cat(&[&wire("ns.a.ex."), &wire("h.A.EX."), &[0, 0, 0, 1, 0, 0, 0, 2, 0, 0, 0, 3, 0, 0, 0, 4, 0, 0, 0, 5]]), "SOA ns.a.ex. h.A.EX. 1 2 3 4 5");
        u.rd(T_CNAME, IN, wire("ex."), "CNAME ex.");
        u.rd(T_SRV, IN, cat(&[&[0, 1, 0, 2, 0, 53], &wire("b.a.ex.")]), "SRV 1 2 53 b.a.ex.");
        u.rd(T_A, CH, cat(&[&wire("a.ex."), &[0, 1]]), "CH A a.ex. 1");
        u.rd(T_UNKNOWN, IN, wire("a.ex."), "TYPE65280 \\# 6 (octets of the name a.ex.)");
        u.rd(T_UNKNOWN, IN, vec![0xc0, 0x0c, 1, 2], "TYPE65280 \\# 4 c00c0102");
        u.rd(T_NS, IN, wire("c."), "NS c.");
        u.rd(T_TXT, IN, vec![2, b'h', b'i'], "TXT hi");
        u.rd(T_A, IN, vec![10, 0, 0, 2], "A 10.0.0.2");
        // 13..: further members of RRsets
        u.rd(T_NS, IN, wire("b.a.ex."), "NS b.a.ex.");
        u.rd(T_MX, IN, cat(&[&[0, 20], &wire("A.EX.")]), "MX 20 A.EX.");
        u.rd(T_SRV, IN, cat(&[&[0, 9, 0, 9, 0, 99], &wire("a.ex.")]), "SRV 9 9 99 a.ex.");
        u.rd(T_NS, IN, wire("d.ex."), "NS d.ex.");
        u.set(&[1, 13]);
        u.set(&[0, 12]);
        u.set(&[3, 14]);
        u.set(&[6, 15]);
        u.set(&[2, 16, 1]);
        u.tsigs.push(TsigSpec { signed: false, alg: wire("alg.ex."), key_name: N_KEY, error: 0, text: "unsigned, algorithm alg.ex., key k.a.ex." });
        u.tsigs.push(TsigSpec { signed: false, alg: wire("alg.ex."), key_name: N_KEY, error: 18, text: "unsigned, algorithm alg.ex., key k.a.ex., error BADTIME" });
        u.tsigs.push(TsigSpec { signed: true, alg: wire("hmac-sha256."), key_name: N_KEY, error: 0, text: "request signed with hmac-sha256, key k.a.ex." });
        u
    }
    fn rd(&mut self, rtype: u16, class: u16, octets: Vec<u8>, text: &str) -> usize {
        let rdata: Box<Rdata> = octets.clone().try_into().unwrap();
        let names = names_in(class, rtype, &octets);
        self.rdatas.push(RdSpec { rtype, class, octets, rdata, names, text: text.to_string() });
        self.rdatas.len() - 1
    }
    fn set(&mut self, members: &[usize]) {
        let (rtype, class) = (self.rdatas[members[0]].rtype, self.rdatas[members[0]].class);
        let set = RdataSetOwned::from_iter(Class::from(class), Type::from(rtype), members.iter().map(|m| &*self.rdatas[*m].rdata)).unwrap();
        // the order the writer will see
        let order: Vec<usize> = set.iter().map(|r| *members.iter().find(|m| self.rdatas[**m].octets == r.octets()).unwrap()).collect();
        self.sets.push(SetSpec { rtype, class, members: order, set });
    }
    fn describe(&self, sc: &Scenario) -> Vec<String> {
        let mut v = vec![format!("buffer of {} octets, {:?}, initial compression mode {:?}", sc.buf_len, sc.init, sc.mode0)];
        for op in &sc.ops {
            v.push(match *op {
                Op::Question(n) => format!("add_question({} A IN)", self.texts[n]),
                Op::Rr { sec, owner, hint, rd } => format!("add_{:?}_rr(owner {} hint {:?}, {})", sec, self.texts[owner], hint, self.rdatas[rd].text),
                Op::RrSet { sec, owner, hint, set } => format!("add_{:?}_rrset(owner {} hint {:?}, [{}])", sec, self.texts[owner], hint,
                    self.sets[set].members.iter().map(|m| self.rdatas[*m].text.clone()).collect::<Vec<_>>().join("; ")),
                Op::Tsig(t) => format!("set_tsig({})", self.tsigs[t].text),
                other => format!("{other:?}"),
            });
        }
        v
    }
}

const TIME0: [u8; 6] = [0, 0, 0, 1, 2, 3];
const TIME1: [u8; 6] = [0, 0, 0, 7, 7, 7];
const SERVER_TIME: [u8; 6] = [0, 0, 0, 9, 9, 9];
const FUDGE: u16 = 300;
const ORIGINAL_ID: u16 = 0x1234;
const TTL: u32 = 300;

// --------------------------------------------------------------------------------------- model

#[derive(Clone, Debug)]
struct Rec { owner: Vec<u8>, rtype: u16, class: u16, rdata: Vec<u8>, mode: Mode }
#[derive(Clone, Debug, PartialEq)]
enum LastRd { None, Name(Vec<u8>), Ambiguous }

struct Model {
    id: u16, b2: u8, b3: u8,
    questions: Vec<(usize, Mode)>,
    rrs: [Vec<Rec>; 3],
    edns: Option<(u16, Option<u16>)>,           // payload size, upper extended-RCODE bits (None: unconstrained)
    tsig: Option<(usize, [u8; 6])>,             // spec, time signed
    mode: Mode,
    last_owner: Option<Vec<u8>>,
    last_rd: LastRd,
    explicit: Vec<(HintPointerVec, usize, Vec<u8>)>,   // (vector, index in it, name recorded there)
    limit: usize,
}

impl Model {
    fn reserved(&self, u: &Uni) -> usize {
        self.edns.map_or(0, |_| 11) + self.tsig.map_or(0, |(t, _)| tsig_rr_len(u, t))
    }
    fn n_regular(&self) -> usize { self.rrs.iter().map(|s| s.len()).sum() }
}

fn tsig_rdata(u: &Uni, t: usize, time: [u8; 6], mac: &[u8]) -> Vec<u8> {
    let s = &u.tsigs[t];
    let mut r = s.alg.clone();
    r.extend(time); r.extend(FUDGE.to_be_bytes());
    r.extend((mac.len() as u16).to_be_bytes()); r.extend_from_slice(mac);
    r.extend(ORIGINAL_ID.to_be_bytes()); r.extend(s.error.to_be_bytes());
    if s.error == 18 { r.extend([0, 6]); r.extend(SERVER_TIME); } else { r.extend([0, 0]); }     // RFC 8945 5.2.3
    r
}
fn tsig_rr_len(u: &Uni, t: usize) -> usize {
    let mac = vec![0u8; if u.tsigs[t].signed { 32 } else { 0 }];
    u.wires[u.tsigs[t].key_name].len() + 10 + tsig_rdata(u, t, TIME0, &mac).len()
}

fn eq_name(got: &[u8], want: &[u8], mode: Mode) -> bool {
    if mode == Mode::Std { got.eq_ignore_ascii_case(want) } else { got == want }
}

/// Decompressed RDATA against the RDATA given: embedded names by the rule of the mode, all else exactly.
fn eq_rdata(class: u16, rtype: u16, got: &[u8], want: &[u8], mode: Mode) -> bool {
    if got.len() != want.len() { return false; }
    let fields = match layout(class, rtype) { Some(f) if f.contains(&Field::Name) && mode == Mode::Std => f, _ => return got == want };
    let mut pos = 0;
    for f in fields {
        match *f {
            Field::Fixed(n) => { if got[pos..pos + n] != want[pos..pos + n] { return false; } pos += n; }
            Field::Name => { let l = ref_uncompressed(&want[pos..]).unwrap(); if !got[pos..pos + l].eq_ignore_ascii_case(&want[pos..pos + l]) { return false; } pos += l; }
            _ => unreachable!(),
        }
    }
    true
}

// ------------------------------------------------------------------------------------- running

pub struct Ctx<'u> {
    u: &'u Uni,
    c12: bool,
    c13: bool,
    tag: &'static str,
    pub cases: u64,
    pub skipped: u64,
    pub truncations: u64,
}

struct Run { results: Vec<Result<(), Error>>, model: Model, msg: Vec<u8>, cursor: usize }

type Pools = [Vec<Vec<u8>>];

fn cmode(m: Mode) -> CompressionMode {
    match m { Mode::Std => CompressionMode::Standard, Mode::Case => CompressionMode::CasePreserving, Mode::Off => CompressionMode::Disabled }
}

impl<'u> Ctx<'u> {
    fn bad(&self, what: &str, sc: &Scenario, upto: usize, got: &dyn std::fmt::Debug, want: &dyn std::fmt::Debug) -> ! {
        let mut d = self.u.describe(sc);
        d.truncate(upto + 1);
        d.push("finish".into());
        fail(&format!("[{}] {}", self.tag, what), &d, got, want)
    }
    /// Like `bad`, for a clause that is also a clause of C02 ("every name is well formed").
    fn bad_c02_too(&self, what: &str, sc: &Scenario, upto: usize, got: &dyn std::fmt::Debug, want: &dyn std::fmt::Debug) -> ! {
        self.bad(&format!("[C02] {what}"), sc, upto, got, want)
    }

    /// Runs the first `upto` operations of the scenario and `finish`, checks the finished message
    /// and returns it with the model.  None: the scenario is not run (a hint would break the API
    /// contract, or the writer could not be created).
    fn exec(&mut self, sc: &Scenario, upto: usize, pools: &mut Pools) -> Option<Run> {
        let r = catch_unwind(AssertUnwindSafe(|| self.exec_inner(sc, upto, pools)));
        match r {
            Ok(r) => r,
            Err(_) => self.bad("panic inside the writer", sc, upto, &"panic", &"no panic"),
        }
    }

    fn exec_inner(&mut self, sc: &Scenario, upto: usize, pools: &mut Pools) -> Option<Run> {
        let u = self.u;
        let (pool, deeper) = pools.split_first_mut().expect("replay depth");
        let n_bufs = 1 + sc.ops[..upto].iter().filter(|o| **o == Op::Template).count();
        for b in pool.iter_mut().take(n_bufs) { b[..sc.buf_len].fill(0); }
        let mut bufs = pool.iter_mut();
        let mut cur_buf = 0usize;
        let first = &mut bufs.next().unwrap()[..sc.buf_len];
        let (created, limit0) = match sc.init {
            Init::New(l) => (Writer::new(first, l), l.min(sc.buf_len)),
            Init::TryFrom => (Writer::try_from(first), sc.buf_len),
        };
        let mut w = created.ok()?;
        if sc.mode0 != Mode::Std { w.set_compression_mode(cmode(sc.mode0)); }
        let mut m = Model {
            id: 0, b2: 0, b3: 0, questions: vec![], rrs: [vec![], vec![], vec![]], edns: None, tsig: None, mode: sc.mode0,
            last_owner: None, last_rd: LastRd::None, explicit: vec![], limit: limit0,
        };
        let mut results = Vec::with_capacity(upto);
        for (i, op) in sc.ops[..upto].iter().enumerate() {
            let mut size = None;                  // uncompressed size, for operations that may fail by truncation
            let res: Result<(), Error> = match *op {
                Op::Question(n) => {
                    size = Some(u.wires[n].len() + 4);
                    let r = w.add_question(&u.questions[n]);
                    if r.is_ok() { m.questions.push((n, m.mode)); }
                    r
                }
                Op::Rr { sec, owner, hint, rd } => {
                    let hn = self.hinted(&m, owner, hint)?;
                    let spec = &u.rdatas[rd];
                    size = Some(u.wires[owner].len() + 10 + spec.octets.len());
                    let mut hv = HintPointerVec::new();
                    let (t, c, ttl) = (Type::from(spec.rtype), Class::from(spec.class), Ttl::from(TTL));
                    let r = match sec {
                        Sec::An => w.add_answer_rr(hn, t, c, ttl, &spec.rdata, Some(&mut hv)),
                        Sec::Ns => w.add_authority_rr(hn, t, c, ttl, &spec.rdata, Some(&mut hv)),
                        Sec::Ar => w.add_additional_rr(hn, t, c, ttl, &spec.rdata, Some(&mut hv)),
                    };
                    if r.is_ok() { added(&mut m, u, sec, owner, &[rd], hv); }
                    r
                }
                Op::RrSet { sec, owner, hint, set } => {
                    let hn = self.hinted(&m, owner, hint)?;
                    let spec = &u.sets[set];
                    size = Some(spec.members.iter().map(|r| u.wires[owner].len() + 10 + u.rdatas[*r].octets.len()).sum());
                    let mut hv = HintPointerVec::new();
                    let (t, c, ttl) = (Type::from(spec.rtype), Class::from(spec.class), Ttl::from(TTL));
                    let r = match sec {
                        Sec::An => w.add_answer_rrset(hn, t, c, ttl, &spec.set, Some(&mut hv)),
                        Sec::Ns => w.add_authority_rrset(hn, t, c, ttl, &spec.set, Some(&mut hv)),
                        Sec::Ar => w.add_additional_rrset(hn, t, c, ttl, &spec.set, Some(&mut hv)),
                    };
                    if r.is_ok() { added(&mut m, u, sec, owner, &spec.members, hv); }
                    r
                }
                Op::Header(v) => {
                    let on = v == 0;
                    let (id, opcode) = if on { (0xbeef, Opcode::NOTIFY) } else { (0x0102, Opcode::QUERY) };
                    w.set_id(id); w.set_qr(on); w.set_opcode(opcode); w.set_aa(on); w.set_tc(!on); w.set_rd(on); w.set_ra(on);
                    m.id = id;
                    m.b2 = (on as u8) << 7 | u8::from(opcode) << 3 | (on as u8) << 2 | (!on as u8) << 1 | on as u8;
                    m.b3 = (m.b3 & 0x0f) | (on as u8) << 7;
                    Ok(())
                }
                Op::Rcode(rc) => {
                    w.set_rcode(Rcode::try_from(rc).unwrap());
                    m.b3 = (m.b3 & 0xf0) | rc;
                    if let Some((_, upper)) = &mut m.edns { if *upper != Some(0) { *upper = None; } }
                    Ok(())
                }
                Op::Edns(payload) => {
                    size = Some(11);
                    let r = w.set_edns(payload);
                    if r.is_ok() { m.edns = Some((payload, Some(0))); }
                    r
                }
                Op::ExtRcode(v) => {
                    let r = w.set_extended_rcode(ExtendedRcode::from(v));
                    if r.is_ok() {
                        m.b3 = (m.b3 & 0xf0) | (v & 0xf) as u8;
                        if let Some((_, upper)) = &mut m.edns { *upper = Some(v >> 4); }
                        else if v > 15 { self.bad("set_extended_rcode succeeded on a message without EDNS (the extended RCODE cannot be in the message)", sc, i + 1, &"Ok", &"Err"); }
                    }
                    r
                }
                Op::Tsig(t) => {
                    size = Some(tsig_rr_len(u, t));
                    let s = &u.tsigs[t];
                    let key_name: Box<LowercaseName> = u.names[s.key_name].clone().into();
                    let rr = PreparedTsigRr { key_name, time_signed: TimeSigned::from(TIME0), fudge: FUDGE, original_id: ORIGINAL_ID,
                                              error: ExtendedRcode::from(s.error), server_time: TimeSigned::from(SERVER_TIME) };
                    let mode = if s.signed { TsigMode::Request { algorithm: Algorithm::HmacSha256, key: b"secret".to_vec().into_boxed_slice() } }
                               else { TsigMode::Unsigned { algorithm: Name::try_from_uncompressed_all(&s.alg).unwrap().into() } };
                    let r = w.set_tsig(mode, rr);
                    if r.is_ok() { m.tsig = Some((t, TIME0)); }
                    r
                }
                Op::TimeSigned => {
                    let r = w.update_time_signed(TimeSigned::from(TIME1));
                    if r.is_ok() { if let Some((_, time)) = &mut m.tsig { *time = TIME1; } }
                    r
                }
                Op::Clear => {
                    w.clear_rrs();
                    m.rrs = [vec![], vec![], vec![]];
                    m.last_owner = None; m.last_rd = LastRd::None; m.explicit.clear();
                    Ok(())
                }
                Op::Limit(n) => {
                    // documented: clamped to [written so far + reserved space, buffer size]
                    let written = self.exec(sc, i, deeper)?.cursor;
                    w.set_limit(n);
                    m.limit = n.min(sc.buf_len).max(written + m.reserved(u));
                    Ok(())
                }
                Op::Mode(mode) => { w.set_compression_mode(cmode(mode)); m.mode = mode; Ok(()) }
                Op::Template => {
                    let t = w.into_template();
                    cur_buf += 1;
                    let next = &mut bufs.next().unwrap()[..sc.buf_len];
                    match Writer::try_from_template(next, &t) {
                        Ok(nw) => w = nw,
                        Err(e) => self.bad("a template was refused for a buffer of the same size as the one it was made from", sc, i + 1, &e, &"Ok"),
                    }
                    Ok(())
                }
            };
            if res == Err(Error::Truncation) && self.c12 {
                self.truncations += 1;
                if let Some(size) = size {
                    let written = self.exec(sc, i, deeper)?.cursor;
                    let room = m.limit as i64 - m.reserved(u) as i64 - written as i64;
                    if size as i64 <= room {
                        self.bad("an operation whose uncompressed encoding fits in the remaining space failed with Truncation", sc, i + 1,
                                 &format!("Err(Truncation); uncompressed size {size}"), &format!("room: limit {} - reserved {} - written {} = {}", m.limit, m.reserved(u), written, room));
                    }
                }
            }
            results.push(res);
        }
        let (len, mac) = w.finish_with_mac();
        drop(bufs);
        if len > sc.buf_len { self.bad("finish returned a length beyond the buffer", sc, upto, &len, &sc.buf_len); }
        let msg = pool[cur_buf][..len].to_vec();
        let cursor = self.check(sc, upto, &m, &msg, mac.as_deref());
        Some(Run { results, model: m, msg, cursor })
    }

    /// Runs and checks a whole scenario.  "Failed operations leave the message unchanged": the
    /// scenario without its first failed operation must give the same results for all the other
    /// operations and the identical message (and so on for the next failed operation).
    fn run(&mut self, pools: &mut Pools, sc: Scenario) -> Option<Run> {
        let r = self.exec(&sc, sc.ops.len(), pools);
        if r.is_none() { self.skipped += 1; }
        let r = r?;
        if self.c12 {
            if let Some(k) = r.results.iter().position(|x| x.is_err()) {
                let mut sc2 = sc.clone();
                sc2.ops.remove(k);
                let mut want = r.results.clone();
                want.remove(k);
                if let Some(r2) = self.run(pools, sc2) {
                    if r2.msg != r.msg || r2.results != want {
                        self.bad(&format!("a failed operation left a trace: without operation {k} (which failed) the other operations give different results / a different message"),
                                 &sc, sc.ops.len(), &(&r.results, show(&r.msg)), &("without it", &r2.results, show(&r2.msg)));
                    }
                }
            }
        }
        Some(r)
    }

    /// The owner with its hint, or None when the hint would break the API contract.
    fn hinted<'a>(&self, m: &'a Model, owner: usize, hint: H) -> Option<HintedName<'a>> where 'u: 'a {
        let u = self.u;
        let (name, wire) = (&*u.names[owner], &u.wires[owner]);
        let same = |other: &[u8]| other.eq_ignore_ascii_case(wire);
        Some(match hint {
            H::None => HintedName::new(Hint::None, name),
            H::Qname => match m.questions.first() {
                Some((q, _)) if !same(&u.wires[*q]) => return None,
                _ => HintedName::new(Hint::Qname, name),
            },
            H::Owner => match &m.last_owner { Some(o) if same(o) => HintedName::new(Hint::MostRecentOwner, name), _ => return None },
            H::InRdata => match &m.last_rd { LastRd::Name(n) if same(n) => HintedName::new(Hint::MostRecentNameInRdata, name), _ => return None },
            H::Explicit(k) => match m.explicit.get(k) {
                Some((hv, idx, n)) if same(n) => HintedName::from_hint_pointer_vec(hv, *idx, name),
                _ => return None,
            },
        })
    }

    /// Decodes the finished message and compares it with the model.  Returns the offset at which
    /// the records added by finish (OPT, TSIG) begin (= octets written before finish).
    fn check(&mut self, sc: &Scenario, upto: usize, m: &Model, msg: &[u8], mac: Option<&[u8]>) -> usize {
        let u = self.u;
        self.cases += 1;
        // expected records, in order
        let mut want: Vec<Rec> = m.rrs.iter().flatten().cloned().collect();
        let n_regular = want.len();
        if let Some((payload, _)) = m.edns {
            want.push(Rec { owner: vec![0], rtype: T_OPT, class: payload, rdata: vec![], mode: m.mode });
        }
        if let Some((t, time)) = m.tsig {
            let s = &u.tsigs[t];
            let mac_octets = if s.signed { mac.unwrap_or(&[]).to_vec() } else { vec![] };
            want.push(Rec { owner: u.wires[s.key_name].clone(), rtype: T_TSIG, class: 255, rdata: tsig_rdata(u, t, time, &mac_octets), mode: m.mode });
        }
        let counts = [m.questions.len(), m.rrs[0].len(), m.rrs[1].len(), m.rrs[2].len() + want.len() - n_regular];

        // ---- structure (needed by both binaries; only reported by the C12 one)
        let c12 = self.c12;
        let structural = |ctx: &Ctx, what: &str, got: &dyn std::fmt::Debug, want: &dyn std::fmt::Debug| -> Option<()> {
            if c12 { ctx.bad(&format!("[C02] {what}"), sc, upto, &(got, "message", show(msg)), want) } else { None }   // structure clauses are also C02 clauses
        };
        let mut starts: Vec<usize> = Vec::new();      // start offset of each record
        let mut decoded: Vec<RefRr> = Vec::new();
        let ok: Option<()> = (|| {
            if msg.len() < 12 { structural(self, "the finished message is shorter than a header", &msg.len(), &12)?; }
            let be = |i: usize| (msg[i] as usize) << 8 | msg[i + 1] as usize;
            let got_counts = [be(4), be(6), be(8), be(10)];
            if got_counts != counts {
                structural(self, "header counts (QD, AN, NS, AR) differ from the questions / records of the operations that succeeded (+ OPT, TSIG)", &got_counts, &counts)?;
            }
            let got_hdr = (be(0) as u16, msg[2], msg[3]);
            if got_hdr != (m.id, m.b2, m.b3) { structural(self, "header ID / flag octets differ from the values set", &got_hdr, &(m.id, m.b2, m.b3))?; }
            let mut pos = 12;
            for (qi, (n, mode)) in m.questions.iter().enumerate() {
                match ref_question(msg, pos) {
                    Some(q) if eq_name(&q.qname, &u.wires[*n], *mode) && q.qtype == T_A && q.qclass == IN => pos = q.end,
                    other => structural(self, &format!("question {qi} (at offset {pos}) does not decode to the question added (names: exact unless standard compression mode)"), &other, &(&u.wires[*n], T_A, IN))?,
                }
            }
            for (ri, w) in want.iter().enumerate() {
                let got = ref_rr(msg, pos);
                let good = got.as_ref().map_or(false, |g| {
                    eq_name(&g.owner, &w.owner, w.mode) && g.fixed.rtype == w.rtype && g.fixed.class == w.class
                        && eq_rdata(w.class, w.rtype, &g.rdata, &w.rdata, w.mode)
                        && match w.rtype { T_OPT => true, T_TSIG => g.fixed.raw_ttl == 0, _ => g.fixed.raw_ttl == TTL }
                });
                if !good {
                    structural(self, &format!("record {ri} (at offset {pos}) does not decode to the record given (owner / embedded names: exact unless standard compression mode)"),
                               &got, &(&w.owner, w.rtype, w.class, &w.rdata))?;
                }
                let g = got?;
                if w.rtype == T_OPT {
                    // RFC 6891 6.1.3: extended RCODE upper bits, version 0, flags 0
                    let (_, upper) = m.edns.unwrap();
                    let ttl_ok = match upper { Some(x) => g.fixed.raw_ttl as u64 == (x as u64) << 24, None => g.fixed.raw_ttl & 0x00ff_ffff == 0 };
                    if !ttl_ok { structural(self, "the OPT record does not carry the extended RCODE set (upper 8 bits in the TTL field, version and flags 0)", &g.fixed.raw_ttl, &upper)?; }
                }
                starts.push(pos);
                pos = g.fixed.end;
                decoded.push(g);
            }
            if pos != msg.len() { structural(self, "the message does not end after the last record", &msg.len(), &pos)?; }
            if let Some((t, _)) = m.tsig {
                if u.tsigs[t].signed && mac.map_or(true, |x| x.len() != 32) { structural(self, "finish_with_mac returned no 32-octet MAC for an HMAC-SHA256 signed message", &mac, &"32 octets")?; }
            }
            if msg.len() > m.limit { structural(self, "the finished message exceeds the size limit in effect", &msg.len(), &m.limit)?; }
            Some(())
        })();
        let cursor = starts.get(n_regular).copied().unwrap_or(msg.len());
        if self.c13 { self.walk(sc, upto, m, &want, msg, ok.is_some()); }
        cursor
    }

    /// C13: walks the message as its own header counts describe it and examines every name field.
    /// Independent of the comparison above (only the compression mode in effect when a question /
    /// record was added is taken from the model, by position); stops silently where the message
    /// stops being well formed - that is reported by the C12 stand-in.
    fn walk(&self, sc: &Scenario, upto: usize, m: &Model, want: &[Rec], msg: &[u8], as_expected: bool) -> Option<()> {
        if msg.len() < 12 { return None; }
        let be = |i: usize| Some((*msg.get(i)? as usize) << 8 | *msg.get(i + 1)? as usize);
        let mut label_starts = vec![false; msg.len()];
        let mut pos = 12;
        for qi in 0..be(4)? {
            let mode = m.questions.get(qi).map_or(m.mode, |q| q.1);
            pos = self.chunk(sc, upto, msg, pos, &mut label_starts, mode != Mode::Off, &format!("QNAME of question {qi}"))? + 4;
        }
        for ri in 0..be(6)? + be(8)? + be(10)? {
            let on = want.get(ri).map_or(m.mode, |w| w.mode) != Mode::Off;
            let fixed_at = self.chunk(sc, upto, msg, pos, &mut label_starts, on, &format!("owner of record {ri}"))?;
            let (rtype, class, rdlength) = (be(fixed_at)? as u16, be(fixed_at + 2)? as u16, be(fixed_at + 8)?);
            let mut p = fixed_at + 10;
            let end = p + rdlength;
            let rdata = msg.get(..end)?;                       // names inside RDATA end with the RDATA
            // RFC 3597 4: compression only inside RDATA of the RFC 1035 types
            let rfc1035 = matches!(rtype, 2..=9 | 12 | 14 | 15);
            match layout(class, rtype) {
                Some(fields) if fields.contains(&Field::Name) => {
                    for f in fields {
                        match *f {
                            Field::Fixed(n) => p += n,
                            Field::Name => p = self.chunk(sc, upto, rdata, p, &mut label_starts, on && rfc1035, &format!("name in the RDATA of record {ri} (type {rtype}, class {class})"))?,
                            _ => unreachable!(),
                        }
                    }
                }
                Some(fields) if fields == [Field::Tsig] => {
                    self.chunk(sc, upto, rdata, p, &mut label_starts, false, "algorithm name in the TSIG RDATA")?;
                }
                Some(_) => {}
                None => {
                    if as_expected && msg[p..end] != want[ri].rdata[..] {
                        self.bad("RDATA of an unknown type was not written verbatim (RFC 3597 4: no compression)", sc, upto, &&msg[p..end], &want[ri].rdata);
                    }
                }
            }
            pos = end;
        }
        Some(())
    }

    /// Walks the part of a name that is stored at `pos`: literal labels, then the root label or ONE
    /// pointer.  A pointer must be allowed here, point strictly backwards, and hit the first octet
    /// of a label of a name completed earlier.  Registers this name's labels and returns the end
    /// (None: the message ends / is malformed here).
    fn chunk(&self, sc: &Scenario, upto: usize, msg: &[u8], mut pos: usize, label_starts: &mut [bool], pointers_allowed: bool, what: &str) -> Option<usize> {
        let mut mine = Vec::new();
        let end = loop {
            let o = *msg.get(pos)? as usize;
            if o >= 0xc0 {
                let target = (o & 0x3f) << 8 | *msg.get(pos + 1)? as usize;
                if !pointers_allowed {
                    self.bad(&format!("compression pointer at offset {pos} in the {what}, where none is permitted (compression disabled, or SRV / Chaosnet A / TSIG / unknown-type RDATA)"), sc, upto, &(("target", target), "message", show(msg)), &"no pointer");
                }
                if target >= pos || !label_starts[target] {
                    self.bad_c02_too(&format!("compression pointer at offset {pos} in the {what} does not point strictly backwards to the first octet of a label of an earlier name"), sc, upto, &(("target", target), "message", show(msg)), &"offset of a label of an earlier name");
                }
                break pos + 2;
            }
            if o > 63 { return None; }
            mine.push(pos);
            if o == 0 { break pos + 1; }
            pos += 1 + o;
        };
        for s in mine { label_starts[s] = true; }
        Some(end)
    }
}

/// The message for a counterexample: in full when short, otherwise without the filler.
fn show(msg: &[u8]) -> String {
    if msg.len() <= 600 { return format!("{msg:?}"); }
    let from = msg.len().min(0x3fff - 40);
    format!("{} octets; first 32: {:?}; from offset {from}: {:?}", msg.len(), &msg[..32], &msg[from..])
}

fn added(m: &mut Model, u: &Uni, sec: Sec, owner: usize, rds: &[usize], hv: HintPointerVec) {
    let mut k = 0;
    for rd in rds {
        let spec = &u.rdatas[*rd];
        m.rrs[sec as usize].push(Rec { owner: u.wires[owner].clone(), rtype: spec.rtype, class: spec.class, rdata: spec.octets.clone(), mode: m.mode });
        if layout(spec.class, spec.rtype).is_none() { m.last_rd = LastRd::Ambiguous; }
        for n in &spec.names {
            m.last_rd = LastRd::Name(n.clone());
            if k < 16 { m.explicit.push((hv.clone(), k, n.clone())); }
            k += 1;
        }
    }
    m.last_owner = Some(u.wires[owner].clone());
}

// --------------------------------------------------------------------------------- enumeration

const BUF: usize = 400;
const BIG: usize = 0x4000 + 400;

fn pools(len: usize) -> Vec<Vec<Vec<u8>>> { (0..8).map(|_| (0..5).map(|_| vec![0u8; len]).collect()).collect() }

/// Calls `f` with every sequence over `menu` of length min_len..=max_len.
fn sequences(menu: &[Op], min_len: usize, max_len: usize, f: &mut dyn FnMut(&[Op])) {
    fn rec(menu: &[Op], cur: &mut Vec<Op>, min_len: usize, max_len: usize, f: &mut dyn FnMut(&[Op])) {
        if cur.len() >= min_len { f(cur); }
        if cur.len() == max_len { return; }
        for op in menu { cur.push(*op); rec(menu, cur, min_len, max_len, f); cur.pop(); }
    }
    rec(menu, &mut Vec::new(), min_len, max_len, f);
}

fn record_menu(owners: &[usize], hints: &[H], rds: &[usize], sec: Sec) -> Vec<Op> {
    let mut v = Vec::new();
    for &owner in owners { for &hint in hints { for &rd in rds { v.push(Op::Rr { sec, owner, hint, rd }); } } }
    v
}

pub fn main_with(c12: bool, c13: bool) {
    let u = Uni::new();
    let mut cx = Ctx { u: &u, c12, c13, tag: if c12 { "C12" } else { "C13" }, cases: 0, skipped: 0, truncations: 0 };
    let mut small = pools(BUF);
    let all_hints = [H::None, H::Qname, H::Owner, H::InRdata, H::Explicit(0), H::Explicit(1)];
    let run = |cx: &mut Ctx, pools: &mut Pools, buf_len: usize, init: Init, mode0: Mode, ops: Vec<Op>| -> Option<Run> {
        cx.run(pools, Scenario { buf_len, init, mode0, ops })
    };

    // ---- P1: [question] + 1..2 records from the full owner x hint x RDATA menu, all modes
    let owners = [N_ROOT, N_EX, N_A_EX, N_A_EX_UP, N_B_A_EX, N_C];
    let rds: Vec<usize> = (0..=10).collect();
    let p1_first = record_menu(&owners, &[H::None, H::Qname], &rds, Sec::An);
    for mode in MODES {
        for q in [None, Some(N_A_EX), Some(N_B_A_EX_MIX)] {
            for sec2 in [Sec::An, Sec::Ar] {
                let second = record_menu(&owners, &all_hints, &rds, sec2);
                for a in &p1_first {
                    let mut head: Vec<Op> = q.map(Op::Question).into_iter().collect();
                    head.push(*a);
                    if sec2 == Sec::An { run(&mut cx, &mut small, BUF, Init::TryFrom, mode, head.clone()); }
                    for b in &second {
                        let mut ops = head.clone(); ops.push(*b);
                        run(&mut cx, &mut small, BUF, Init::TryFrom, mode, ops);
                    }
                }
            }
        }
    }
    // ... and [question] + 3 records over a sub-menu (3 owners x 4 hints x 4 RDATA), all in the answer section
    let third = record_menu(&[N_A_EX_UP, N_B_A_EX, N_D_EX], &[H::None, H::Owner, H::InRdata, H::Explicit(0)], &[0, 1, 3, 6], Sec::An);
    for mode in MODES {
        for q in [None, Some(N_A_EX)] {
            sequences(&third, 3, 3, &mut |ops| {
                if !matches!(ops[0], Op::Rr { hint: H::None, .. }) { return; }
                let mut all: Vec<Op> = q.map(Op::Question).into_iter().collect();
                all.extend_from_slice(ops);
                run(&mut cx, &mut small, BUF, Init::TryFrom, mode, all);
            });
        }
    }
    let p1 = cx.cases;

    // ---- P2: all sequences of <= 3 operations over the control menu (every kind of operation)
    let control: Vec<Op> = vec![
        Op::Question(N_A_EX), Op::Question(N_B_A_EX_MIX),
        Op::Rr { sec: Sec::An, owner: N_B_A_EX, hint: H::None, rd: 1 },
        Op::Rr { sec: Sec::An, owner: N_A_EX_UP, hint: H::Qname, rd: 5 },
        Op::Rr { sec: Sec::Ns, owner: N_A_EX, hint: H::None, rd: 4 },
        Op::Rr { sec: Sec::Ns, owner: N_B_A_EX_MIX, hint: H::Owner, rd: 3 },
        Op::Rr { sec: Sec::Ar, owner: N_A_EX_UP, hint: H::InRdata, rd: 0 },
        Op::Rr { sec: Sec::Ar, owner: N_A_EX, hint: H::Explicit(0), rd: 6 },
        Op::Rr { sec: Sec::Ar, owner: N_D_EX, hint: H::None, rd: 8 },
        Op::RrSet { sec: Sec::An, owner: N_D_EX, hint: H::None, set: 0 },
        Op::RrSet { sec: Sec::Ns, owner: N_A_EX, hint: H::Qname, set: 2 },
        Op::RrSet { sec: Sec::Ar, owner: N_B_A_EX, hint: H::Explicit(1), set: 1 },
        Op::RrSet { sec: Sec::Ar, owner: N_C, hint: H::None, set: 3 },
        Op::Header(0), Op::Header(1), Op::Rcode(3),
        Op::Edns(1232), Op::ExtRcode(16), Op::ExtRcode(2048), Op::ExtRcode(4095), Op::ExtRcode(4096),
        Op::Tsig(0), Op::Tsig(1), Op::Tsig(2), Op::TimeSigned,
        Op::Clear, Op::Limit(12), Op::Limit(60), Op::Mode(Mode::Off), Op::Mode(Mode::Case), Op::Mode(Mode::Std), Op::Template,
    ];
    for mode in MODES {
        sequences(&control, 0, 3, &mut |ops| { run(&mut cx, &mut small, BUF, Init::TryFrom, mode, ops.to_vec()); });
    }
    // ... and of exactly 4 operations over the operations that interact (records, EDNS, TSIG, clear, template)
    let core: Vec<Op> = [0usize, 2, 3, 4, 5, 7, 9, 11, 12, 16, 18, 21, 23, 25, 28, 31].iter().map(|i| control[*i]).collect();
    for mode in MODES {
        sequences(&core, 4, 4, &mut |ops| { run(&mut cx, &mut small, BUF, Init::TryFrom, mode, ops.to_vec()); });
    }
    let p2 = cx.cases - p1;

    // ---- P3: truncation at every limit: sequences of <= 2 (menu) / 3 (sub-menu) operations; the limit is
    //      given at creation (Writer::new with a limit, or a buffer of exactly that size) or set before any
    //      later operation with set_limit
    let limit_menu: Vec<Op> = [0usize, 2, 3, 4, 5, 6, 7, 8, 9, 10, 11, 12, 16, 21, 22, 23, 25, 31].iter().map(|i| control[*i]).collect();
    let limit_core: Vec<Op> = [0usize, 2, 9, 11, 16, 21, 25].iter().map(|i| control[*i]).collect();
    let mut sweep = |cx: &mut Ctx, mode: Mode, ops: &[Op]| {
        let Some(full) = run(cx, &mut small, BUF, Init::TryFrom, mode, ops.to_vec()) else { return };
        for limit in 0..=full.msg.len() {
            run(cx, &mut small, BUF, Init::New(limit), mode, ops.to_vec());
            run(cx, &mut small, limit, Init::TryFrom, mode, ops.to_vec());
            run(cx, &mut small, limit, Init::New(BUF), mode, ops.to_vec());
            for at in 1..ops.len() {
                let mut with = ops.to_vec(); with.insert(at, Op::Limit(limit));
                run(cx, &mut small, BUF, Init::TryFrom, mode, with);
            }
        }
    };
    for mode in MODES {
        sequences(&limit_menu, 1, 2, &mut |ops| sweep(&mut cx, mode, ops));
        sequences(&limit_core, 3, 3, &mut |ops| sweep(&mut cx, mode, ops));
    }
    let p3 = cx.cases - p1 - p2;

    // ---- P4: large messages: [question] + one filler record that brings the write position to
    //      0x3fff - d, then <= 3 operations whose names lie around / beyond the reach of a 14-bit pointer
    let mut uu = Uni::new();
    let mut fillers = Vec::new();
    let ds: Vec<i32> = (-2..=26).collect();
    for q in [false, true] {
        for &d in &ds {
            let before = 12 + if q { uu.wires[N_A_EX].len() + 4 } else { 0 } + uu.wires[N_EX].len() + 10;
            let f = (0x3fff - d) as usize - before;
            let mut octets = vec![0u8; f];
            for (i, o) in octets.iter_mut().enumerate() { *o = (i % 251) as u8; }
            fillers.push((q, d, uu.rd(T_UNKNOWN, IN, octets, &format!("TYPE65280 \\# {f} (filler up to offset 0x3fff - {d})"))));
        }
    }
    let mut cy = Ctx { u: &uu, c12, c13, tag: cx.tag, cases: 0, skipped: 0, truncations: 0 };
    let mut big = pools(BIG);
    let big_menu: Vec<Op> = vec![
        Op::Rr { sec: Sec::An, owner: N_A_EX, hint: H::None, rd: 0 },
        Op::Rr { sec: Sec::An, owner: N_B_A_EX, hint: H::None, rd: 1 },
        Op::Rr { sec: Sec::An, owner: N_D_EX, hint: H::None, rd: 3 },
        Op::Rr { sec: Sec::An, owner: N_A_EX_UP, hint: H::Owner, rd: 0 },
        Op::Rr { sec: Sec::An, owner: N_A_EX_UP, hint: H::InRdata, rd: 16 },
        Op::Rr { sec: Sec::An, owner: N_B_A_EX, hint: H::Explicit(0), rd: 6 },
        Op::Rr { sec: Sec::An, owner: N_A_EX, hint: H::Qname, rd: 7 },
        Op::RrSet { sec: Sec::An, owner: N_D_EX, hint: H::None, set: 1 },
        Op::RrSet { sec: Sec::An, owner: N_B_A_EX_MIX, hint: H::None, set: 4 },
        Op::RrSet { sec: Sec::An, owner: N_A_EX, hint: H::None, set: 2 },
    ];
    for &(q, _, filler) in &fillers {
        for mode in MODES {
            sequences(&big_menu, 1, 3, &mut |ops| {
                let mut all: Vec<Op> = if q { vec![Op::Question(N_A_EX)] } else { vec![] };
                all.push(Op::Rr { sec: Sec::An, owner: N_EX, hint: H::None, rd: filler });
                all.extend_from_slice(ops);
                run(&mut cy, &mut big, BIG, Init::TryFrom, mode, all);
            });
        }
    }
    let p4 = cy.cases;

    done(cx.cases + cy.cases, &format!(
        "finished messages decoded and compared ({} scenarios skipped because a hint would break the API contract; {} Truncation results examined). \
         P1 ({p1}): [question a.ex. | B.A.ex. | none] + 1..2 records, owners {{., ex., a.ex., A.EX., b.a.ex., c.}} x hints {{None, Qname, MostRecentOwner, MostRecentNameInRdata, Explicit 0/1}} \
         x 11 RDATA (A, NS x3, MX, SOA, CNAME, SRV, CH A, unknown type x2), second record in answer or additional section, and [question a.ex. | none] + 3 answer records over 3 owners x 4 hints x 4 RDATA, x 3 compression modes; \
         P2 ({p2}): all sequences of <= 3 operations over a 32-operation menu (questions, 7 records, 4 RRsets of 2-3 records, header setters, set_rcode, set_edns, set_extended_rcode 16/2048/4095/4096, \
         set_tsig unsigned/BADTIME/HMAC-SHA256, update_time_signed, clear_rrs, set_limit 12/60, set_compression_mode x3, template round trip) and of 4 operations over 16 of them, x 3 initial modes; \
         P3 ({p3}): every sequence of <= 2 operations over 18 of them and of 3 over 7, x 3 modes, re-run with EVERY limit 0..=final length given as Writer::new limit, as buffer size, or by set_limit before each later operation; \
         P4 ({p4}): [question] + filler record ending at offset 0x3fff-d, d in -2..=26, + all sequences of <= 3 of 10 record / RRset operations, x 3 modes (names around and beyond offset 0x3fff)",
        cx.skipped + cy.skipped, cx.truncations + cy.truncations));
}
