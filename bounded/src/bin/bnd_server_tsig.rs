//! Bounded stand-in for C10 and the server-visible part of C11: requests signed by the independent
//! RFC 8945 signer of srv_ref.rs (own HMAC computation with the `hmac`/`sha1`/`sha2` crates) are sent
//! through the real `Server::handle_message` with a TSIG key set (k256./hmac-sha256, k1./hmac-sha1,
//! mixed.key./hmac-sha256); the response must be what C10 says and its MAC must equal the independent
//! RFC 8945 4.3 computation (request MAC, message with the ORIGINAL ID and ARCOUNT decremented, TSIG
//! variables in canonical form).
//!
//! Enumeration: 8 key/algorithm choices (3 configured keys, key name in upper case, algorithm name
//! in upper case, unknown key, configured key with the other algorithm, unknown algorithm) x 16 MAC
//! edits (full; left-truncated to 0, 1, 9, 10, 15, 16, 19, 20, 21, 31 octets; one octet too long; one
//! bit flipped at full length / truncated to 16 / to 10; all zero) x 19 time offsets (0, +-100, +-250
//! inside the fudge; +-400, +-86400, +-65536, +-(65536+100), +-(65536-100), 2*65536, -3*65536+50, time
//! 0, time 2^48-1 outside) x fudge 300 / 30 / 65535 x header ID equal to / different from the TSIG
//! original ID x EDNS yes/no x UDP/TCP x 5 request kinds (existing name, missing name, opcode UPDATE,
//! octet after the TSIG, QUERY without question) - pruned as coded.  The clock is read per request;
//! all offsets keep >= 50 s distance from the edges of the fudge window.
//! [C08] "octets remain after the last counted record": every request of the enumeration whose TSIG
//! verifies (reference verdict Ok) is also sent with 2 octets (c0 0c), 3 octets (00 00 01) and a complete
//! uncounted A record after the TSIG record: FORMERR without answer/authority data.  (Requests whose
//! TSIG does not verify are sent with the one-octet tail only, as before: a TSIG error comes first.)
#[path = "../wire_ref.rs"]
mod wire_ref;
#[path = "../srv_ref.rs"]
mod srv_ref;
use quandary::class::Class;
use quandary::db::catalog::Entry;
use quandary::db::zone::GluePolicy;
use quandary::db::{HashMapTreeCatalog, HashMapTreeZone};
use quandary::message::tsig::Algorithm;
use quandary::name::Name;
use quandary::rr::{Rdata, Ttl, Type};
use quandary::server::{ReceivedInfo, Response, Server, Transport, TsigKeyMap};
use srv_ref::*;
use std::panic::{catch_unwind, AssertUnwindSafe};
use std::sync::Arc;
use vq_bounded::{done, fail};
use wire_ref::T_OPT;

fn now() -> u64 { std::time::SystemTime::now().duration_since(std::time::UNIX_EPOCH).unwrap().as_secs() }

fn main() {
    std::panic::set_hook(Box::new(|i| eprintln!("panic inside the crate under test: {i}")));
    // ---- the server
    let pn = |s: &str| -> Box<Name> { s.parse().unwrap() };
    let mut zone = HashMapTreeZone::new(pn("ex."), Class::IN, GluePolicy::Narrow);
    let mut soa = name("ns.ex.");
    soa.extend(name("h.ex."));
    soa.extend([0, 0, 0, 1, 0, 0, 0, 2, 0, 0, 0, 3, 0, 0, 0, 4, 0, 0, 0, 5]);
    for (o, t, rd) in [("ex.", 6u16, soa), ("ex.", 2, name("ns.ex.")), ("ns.ex.", 1, vec![10, 0, 0, 53]), ("a.ex.", 1, vec![10, 0, 0, 1])] {
        let rdata: &Rdata = rd.as_slice().try_into().unwrap();
        zone.add(&pn(o), Type::from(t), Class::IN, Ttl::from(30), rdata).unwrap();
    }
    let mut cat: HashMapTreeCatalog<HashMapTreeZone, ()> = HashMapTreeCatalog::new();
    cat.insert(Entry::Loaded(Arc::new(zone), ()));
    let server = Server::new(Arc::new(cat));
    let keys = vec![
        Key { name: name("k256."), alg: Alg::Sha256, secret: b"secret-of-k256-0123456789abcdefghij".to_vec() },
        Key { name: name("k1."), alg: Alg::Sha1, secret: b"\x00\x01\x02secret-of-k1".to_vec() },
        Key { name: name("mixed.key."), alg: Alg::Sha256, secret: vec![0xa5; 64] },
    ];
    let mut map = TsigKeyMap::new();
    for k in &keys {
        map.insert(Name::try_from_uncompressed_all(&k.name).unwrap(), (match k.alg { Alg::Sha1 => Algorithm::HmacSha1, Alg::Sha256 => Algorithm::HmacSha256 }, k.secret.clone().into_boxed_slice()));
    }
    server.set_tsig_keys(Arc::new(map));

    // ---- the enumeration
    // (what, key name on the wire, algorithm name on the wire, algorithm and secret the signer uses)
    let choices: Vec<(&str, Vec<u8>, Vec<u8>, Alg, Vec<u8>)> = vec![
        ("k256./hmac-sha256", name("k256."), name("hmac-sha256."), Alg::Sha256, keys[0].secret.clone()),
        ("k1./hmac-sha1", name("k1."), name("hmac-sha1."), Alg::Sha1, keys[1].secret.clone()),
        ("MIXED.Key./hmac-sha256 (configured as mixed.key.)", name("MIXED.Key."), name("hmac-sha256."), Alg::Sha256, keys[2].secret.clone()),
        ("k256./HMAC-SHA256 (algorithm name in upper case)", name("k256."), name("HMAC-SHA256."), Alg::Sha256, keys[0].secret.clone()),
        ("nokey./hmac-sha256 (unknown key)", name("nokey."), name("hmac-sha256."), Alg::Sha256, keys[0].secret.clone()),
        ("k256./hmac-sha1 (configured key, other algorithm)", name("k256."), name("hmac-sha1."), Alg::Sha1, keys[0].secret.clone()),
        ("k1./hmac-sha256 (configured key, other algorithm)", name("k1."), name("hmac-sha256."), Alg::Sha256, keys[1].secret.clone()),
        ("k256./hmac-sha512 (unknown algorithm)", name("k256."), name("hmac-sha512."), Alg::Sha256, keys[0].secret.clone()),
    ];
    type Edit = (&'static str, Box<dyn Fn(Vec<u8>) -> Vec<u8>>);
    let mut edits: Vec<Edit> = vec![("full", Box::new(|m| m))];
    for l in [0usize, 1, 9, 10, 15, 16, 19, 20, 21, 31] { edits.push((Box::leak(format!("truncated to {l}").into_boxed_str()), Box::new(move |mut m| { m.truncate(l); m }))); }
    edits.push(("one octet too long", Box::new(|mut m| { m.push(0); m })));
    edits.push(("full, one bit flipped", Box::new(|mut m| { m[3] ^= 4; m })));
    edits.push(("truncated to 16, last bit flipped", Box::new(|mut m| { m.truncate(16); m[15] ^= 1; m })));
    edits.push(("truncated to 10, first bit flipped", Box::new(|mut m| { m.truncate(10); m[0] ^= 0x80; m })));
    edits.push(("all zero", Box::new(|m| vec![0; m.len()])));
    #[derive(Clone, Copy, Debug)]
    enum Time { Off(i64), Abs(u64) }
    let times = [Time::Off(0), Time::Off(-100), Time::Off(100), Time::Off(-250), Time::Off(250), Time::Off(-400), Time::Off(400), Time::Off(-86400), Time::Off(86400),
        Time::Off(-65536), Time::Off(65536), Time::Off(-65636), Time::Off(65636), Time::Off(-65436), Time::Off(65436), Time::Off(131072), Time::Off(-196608 + 50), Time::Abs(0), Time::Abs((1 << 48) - 1)];
    let kinds = ["a.ex. A", "n.ex. A (no such name)", "opcode UPDATE", "a.ex. A with an octet after the TSIG", "QUERY without question",
        "a.ex. A with the octets c0 0c after a TSIG that verifies", "a.ex. A with the octets 00 00 01 after a TSIG that verifies", "a.ex. A with a complete uncounted A record after a TSIG that verifies"];
    let tails: [&[u8]; 8] = [&[], &[], &[], &[0], &[], &[0xc0, 0x0c], &[0, 0, 1], &[0, 0, 1, 0, 1, 0, 0, 0, 5, 0, 4, 10, 0, 0, 9]];

    let (mut cases, mut tail_cases) = (0u64, 0u64);
    let mut buf = vec![0u8; 65535];
    for (ki, kind) in kinds.iter().enumerate() { for (cwhat, kname, aname, alg, secret) in &choices { for (ewhat, edit) in &edits { for time in times { for fudge in [300u16, 30, 65535] {
        for id_differs in [false, true] { for edns in [false, true] { for tcp in [false, true] {
            // pruning: the full product only for the first kind; other kinds with fudge 300 and 5 times
            if ki > 0 && (fudge != 300 || !matches!(time, Time::Off(0) | Time::Off(-100) | Time::Off(400) | Time::Off(65536) | Time::Abs(0))) { continue; }
            if ki > 0 && (id_differs != edns) { continue; }
            let id = 0x1234u16;
            let orig_id = if id_differs { 0x4321 } else { id };
            let mut m = header(id, if ki == 2 { 5 << 3 } else { 1 }, 0, (ki != 4) as u16, 0, 0, edns as u16);
            if ki != 4 { m.extend(question(&name(if ki == 1 { "n.ex." } else { "a.ex." }), 1, 1)); }
            if edns { m.extend(rr(&[0], T_OPT, 1232, 0, &[])); }
            let t0 = now();
            let ts = match time { Time::Off(o) => (t0 as i64 + o) as u64, Time::Abs(a) => a };
            let (mut req, _) = sign_request(&m, kname, aname, *alg, secret, ts, fudge, orig_id, edit.as_ref());
            req.extend_from_slice(tails[ki]);
            let input = format!("{kind} | key {cwhat} | MAC {ewhat} | time signed {time:?} (now {t0}) fudge {fudge} | header ID {id:#06x} original ID {orig_id:#06x} | EDNS {edns} | {} | request {}", if tcp { "TCP" } else { "UDP" }, hex(&req));
            let info = ReceivedInfo::new("192.0.2.1".parse().unwrap(), if tcp { Transport::Tcp } else { Transport::Udp });
            let r = catch_unwind(AssertUnwindSafe(|| match server.handle_message(&req, info, &mut buf) { Response::Single(n) => Some(n), Response::None => None }));
            let n = match r { Ok(n) => n, Err(_) => fail("[C10] Server::handle_message panicked", &input, &"panic", &"a response") };
            let cx = Ctx { tcp, payload: 1232, keys: &keys, now: t0 };
            let e = expectation(&req, &cx);
            if ki >= 5 {
                // only the clear case: the TSIG verifies, so the octets after it are the first problem
                if e.verdict != Some(TsigVerdict::Ok) { continue; }
                if e.stage != Stage::Error(vec![FORMERR]) { fail("set-up: the reference does not expect FORMERR for octets after a verifying TSIG", &input, &e.stage, &"FORMERR"); }
                tail_cases += 1;
            }
            cases += 1;
            let d = match check_response(&req, n.map(|n| &buf[..n]), &e, &cx) { Ok(d) => d, Err((what, got, want)) => fail(&what, &input, &got, &want) };
            if let (Some(d), Stage::Lookup) = (d, &e.stage) {
                // authenticated and well formed: answered normally
                let want = if ki == 1 { (NXDOMAIN, 0) } else { (0, 1) };
                let got = (d.ext_rcode(), d.data_counts()[0]);
                if got != want { fail("[C10][C11] an authenticated query must be answered normally (RCODE, number of answer records)", &input, &got, &want); }
            }
        }}}
    }}}}}
    if tail_cases < 100 { fail("set-up: too few requests with octets after a verifying TSIG", &tail_cases, &"", &">= 100"); }
    done(cases, "8 key/algorithm choices x 16 MAC edits x 19 time offsets x 3 fudge values x original ID equal/different x EDNS yes/no x UDP/TCP for a query of an existing name; \
for 4 more request kinds (missing name, opcode UPDATE, octet after the TSIG, QUERY without question) fudge 300, 5 time offsets, 2 of the 4 ID/EDNS combinations; HMAC-SHA1 and HMAC-SHA256; \
each of those requests whose TSIG verifies also with c0 0c / 00 00 01 / a complete uncounted A record after the TSIG record (FORMERR expected)")
}
