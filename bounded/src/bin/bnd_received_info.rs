//! Bounded stand-in for the source-canonicalisation clause of C27: `ReceivedInfo::new` turns
//! exactly the IPv4-mapped IPv6 addresses ::ffff:a.b.c.d into the IPv4 address a.b.c.d and
//! leaves every other address alone (in particular the deprecated IPv4-compatible ::a.b.c.d).
//! The `source` field is private, so the effect is observed through the public API, as
//! response rate limiting sees it: a server with an empty catalog (every answer REFUSED: one
//! stream per source prefix), one response per window, slip 0, prefixes /32 and /64 and a
//! one-bucket table (a different stream evicts the bucket and is answered).  For an IPv6 source X
//! with low 32 bits a.b.c.d: after a UDP query from the IPv4 source a.b.c.d, a UDP query from X
//! goes unanswered iff X shares the stream of a.b.c.d iff X was turned into that IPv4 address.
//! Universe of X: octets 0..10 all zero / one single bit set / all ones; octets 10..12 all
//! 2^16 values (when octets 0..10 are zero; otherwise 0, 0xffff, 0xfffe, 0x00ff); 5 low words.
//! Also: TCP is never limited (same source, stream full).  The token bucket refills with time
//! (1 s); an unexpected outcome is re-tried twice and reported only when it persists.
use quandary::db::{HashMapTreeCatalog, HashMapTreeZone};
use quandary::server::{ReceivedInfo, Response, RrlParams, Server, Transport};
use std::net::{IpAddr, Ipv4Addr, Ipv6Addr};
use std::panic::{catch_unwind, AssertUnwindSafe};
use std::sync::Arc;
use vq_bounded::{done, fail};

type Cat = HashMapTreeCatalog<HashMapTreeZone, ()>;

fn query() -> Vec<u8> {
    let mut m = vec![0x12, 0x34, 0, 0, 0, 1, 0, 0, 0, 0, 0, 0];
    m.extend_from_slice(b"\x07example\x04test\x00\x00\x01\x00\x01");       // example.test. IN A
    m
}

struct Probe { server: Server<Cat>, query: Vec<u8>, buf: Vec<u8> }

impl Probe {
    fn new() -> Self {
        let mut params = RrlParams::new(1, 1, 1, 1).unwrap();
        params.set_slip(0);
        params.set_ipv4_prefix_len(32).unwrap();
        params.set_ipv6_prefix_len(64).unwrap();
        params.set_size(1).unwrap();
        let mut server = Server::new(Arc::new(Cat::new()));
        server.set_rrl_params(Some(params));
        Probe { server, query: query(), buf: vec![0u8; 65535] }
    }
    /// Is a query from `source` over `transport` answered?
    fn answered(&mut self, source: IpAddr, transport: Transport) -> bool {
        let (server, query, buf) = (&self.server, &self.query, &mut self.buf);
        match catch_unwind(AssertUnwindSafe(|| {
            let info = ReceivedInfo::new(source, transport);
            matches!(server.handle_message(query, info, buf), Response::Single(_))
        })) {
            Ok(a) => a,
            Err(_) => fail("ReceivedInfo::new / Server::handle_message panicked", &(source, transport), &"panic", &"a response or none"),
        }
    }
    /// After the stream of the IPv4 source `v4` has been filled: is a query from `x` answered?
    fn answered_after_v4(&mut self, v4: Ipv4Addr, x: IpAddr, transport: Transport) -> bool {
        self.answered(IpAddr::V4(v4), Transport::Udp);
        self.answered(x, transport)
    }
}

fn main() {
    let mut p = Probe::new();
    let mut cases = 0u64;
    let mut expect = |p: &mut Probe, v4: Ipv4Addr, x: IpAddr, transport: Transport, want_answered: bool, what: &str| {
        cases += 1;
        for _attempt in 0..3 {
            if p.answered_after_v4(v4, x, transport) == want_answered { return; }
        }
        fail(what, &format!("after a UDP query from {v4}: query from {x} over {transport:?}"),
             &(if want_answered { "not answered (rate limited)" } else { "answered" }),
             &(if want_answered { "answered" } else { "not answered (same stream, one response per window)" }));
    };

    // The set-up observes what it should: same IPv4 source is limited, another one and TCP are not.
    let a = Ipv4Addr::new(1, 2, 3, 4);
    expect(&mut p, a, IpAddr::V4(a), Transport::Udp, false, "set-up: a second UDP response to the same IPv4 source within the window was not limited");
    expect(&mut p, a, IpAddr::V4(Ipv4Addr::new(1, 2, 3, 5)), Transport::Udp, true, "set-up: another IPv4 source (/32 prefixes) was limited");
    expect(&mut p, a, IpAddr::V4(a), Transport::Tcp, true, "a TCP response was rate limited");

    let lows = [[1u8, 2, 3, 4], [0, 0, 0, 1], [127, 0, 0, 1], [255, 255, 255, 254], [0, 0, 0, 0]];
    let mut heads: Vec<[u8; 10]> = vec![[0; 10], [0xff; 10]];
    for bit in 0..80 { let mut h = [0u8; 10]; h[bit / 8] = 0x80 >> (bit % 8); heads.push(h); }
    for head in &heads {
        let mids: Vec<u16> = if *head == [0u8; 10] { (0..=0xffff).collect() } else { vec![0, 0xffff, 0xfffe, 0x00ff] };
        for mid in mids {
            for low in lows {
                let mut o = [0u8; 16];
                o[..10].copy_from_slice(head); o[10..12].copy_from_slice(&mid.to_be_bytes()); o[12..].copy_from_slice(&low);
                let x = IpAddr::V6(Ipv6Addr::from(o));
                let v4 = Ipv4Addr::from(low);
                let mapped = *head == [0u8; 10] && mid == 0xffff;
                if mapped {
                    expect(&mut p, v4, x, Transport::Udp, false, "an IPv4-mapped IPv6 source ::ffff:a.b.c.d does not share the stream of the IPv4 source a.b.c.d");
                    expect(&mut p, v4, x, Transport::Tcp, true, "a TCP response was rate limited");
                } else {
                    expect(&mut p, v4, x, Transport::Udp, true, "an IPv6 source that is not IPv4-mapped was limited by the stream of an IPv4 source (treated as IPv4 a.b.c.d)");
                }
            }
        }
    }
    done(cases, "IPv6 sources: octets 0..10 zero (x all 2^16 values of octets 10..12) / one single bit set / all ones (x 4 values), x 5 low words; observed through RRL (REFUSED stream, 1 response per window, slip 0, /32 and /64 prefixes, 1 bucket)")
}
