//! Bounded stand-in for C18 (RDATA validation and reading): the public `Rdata::validate` and
//! `Rdata::read` of the real crate against the RDATA references of ../wire_ref.rs (field layouts
//! from RFC 1035 3.3/3.4, RFC 1034 3.6, RFC 2782, RFC 3596, RFC 6891 6.1.2, RFC 8945 4.2).
//!  (A) validate(class, type) accepts exactly the RFC encodings: every class/type pair of a list
//!      (all 20 known pairs, the known types in other classes, unknown types) on every RDATA of a
//!      universe = all strings of <= 4 octets over 9 symbols + structured exemplars of every
//!      layout (name / character-string / option / TSIG shapes incl. the 63/64, 255/256 and
//!      65535-octet limits), each also truncated at every point and extended by one octet.
//!  (B) read(class, type, message, cursor, rdlength) never panics - for ANY cursor and RDLENGTH,
//!      including usize::MAX and cursor + rdlength overflowing -, fails when the RDATA does not lie
//!      inside the message, returns only RDATA that the reference and validate accept, and
//!      returns exactly the reference result: the octets themselves for formats without names,
//!      the decompressed form for formats with names (SRV: refusing a compressed target is
//!      tolerated, RFC 2782 forbids compressing it; a wrong expansion is not).
//!  (C) the same read check in messages LONGER than 256 octets: a name at offset T in {255, 256,
//!      257, 511, 512, 513, 768, 1024, 15872} (pointers to multiples of 256 have a 0x00 low octet,
//!      which looks like a null label) and a chained name ("sub" + pointer to T) 256 octets
//!      later; every layout with names (NS.., MX, SOA, MINFO, CH A, SRV) x names that are bare
//!      pointers / label + pointer to either of them, plain, or pointers one octet off.
//! Which error is returned is not constrained.  The write -> read round trip of C18 is NOT checked here.
use quandary::class::Class;
use quandary::rr::{Rdata, Type};
use std::panic::{catch_unwind, AssertUnwindSafe};
use vq_bounded::{done, fail};

#[path = "../wire_ref.rs"]
mod wire_ref;
use wire_ref::*;

static ACCEPTED: std::sync::atomic::AtomicU64 = std::sync::atomic::AtomicU64::new(0);
static READ_OK: std::sync::atomic::AtomicU64 = std::sync::atomic::AtomicU64::new(0);

fn total<T>(what: &str, input: &dyn std::fmt::Debug, f: impl FnOnce() -> T) -> T {
    match catch_unwind(AssertUnwindSafe(f)) {
        Ok(v) => v,
        Err(_) => fail(&format!("{what} panicked"), input, &"panic", &"a value or an error"),
    }
}

/// (class, type) pairs: all known ones, known types in classes where they are not defined, unknown types.
fn pairs() -> Vec<(u16, u16)> {
    let mut v = Vec::new();
    for t in [T_A, T_NS, 3, 4, 5, T_SOA, 7, 8, 9, 10, T_WKS, 12, T_HINFO, T_MINFO, T_MX, T_TXT, T_AAAA, T_SRV, T_OPT, T_TSIG, 0, 17, 99, 0xff00, 0xffff] {
        for c in [IN, CH, 2, 4, 254, 255, 1232] {
            // class-independent types: IN, CH and one odd class are enough
            let class_specific = [T_A, T_WKS, T_AAAA, T_SRV].contains(&t);
            if class_specific || [IN, CH, 1232].contains(&c) { v.push((c, t)); }
        }
    }
    v
}

// --------------------------------------------------------------------------- building blocks

fn label(n: usize) -> Vec<u8> { let mut v = vec![n as u8]; v.extend(std::iter::repeat(b'x').take(n)); v }

/// A name of exactly `total` octets (uncompressed, including the null label), total >= 1.
fn name_of(total: usize) -> Vec<u8> {
    let mut v = Vec::new();
    let mut left = total - 1;
    while left > 0 {
        let mut piece = left.min(64);
        if left - piece == 1 { piece -= 1; }
        v.extend(label(piece - 1));
        left -= piece;
    }
    v.push(0);
    v
}

/// Names as they may stand in an uncompressed RDATA (valid and invalid shapes).
fn plain_names() -> Vec<Vec<u8>> {
    vec![
        vec![0], vec![1, b'n', 0], vec![1, b'N', 2, b'o', b'p', 0], name_of(65), name_of(255), name_of(256),
        { let mut v = label(64); v.push(0); v },              // 64-octet label
        vec![1, b'n'],                                         // no null label
        vec![2, b'n', 0],                                      // label swallows the terminator
        vec![0xc0, 12], vec![1, b'n', 0xc0, 12],               // compression pointers
        vec![0x80, 0], vec![],
    ]
}

// the messages of part B hold the name "p." at offset 12, then a 190-octet name at 15
fn message_prefix() -> Vec<u8> {
    let mut m = vec![0xab; 12];
    m[4] = 0;
    m.extend([1, b'p', 0]);
    m.extend(name_of(190));
    m
}

/// Names as they may stand in the RDATA of a message (prefix as above), compressed or not.
fn message_names(at_hint: usize) -> Vec<Vec<u8>> {
    let mut v = plain_names();
    v.extend([
        vec![0xc0, 4],                                         // into the header: a root
        vec![0xc0, 13],                                        // into the middle of a label: 'p' = 0x70 is no label type
        vec![0xc0, 15], vec![1, b'n', 0xc0, 15],               // the long name
        { let mut n = name_of(66); n.pop(); n.extend([0xc0, 15]); n },    // 65 + 190 = 255 octets: fits
        { let mut n = name_of(67); n.pop(); n.extend([0xc0, 15]); n },    // 256 octets: too long
        vec![0xc0, 0xff], vec![0xff, 0xff],                    // forwards / far beyond the message
        vec![0xc0, at_hint as u8], vec![1, b'n', 0xc0, at_hint as u8],    // to the start of the RDATA itself
        vec![0xc0],                                            // cut-off pointer
    ]);
    v
}

fn char_strings() -> Vec<Vec<u8>> {
    vec![vec![0], vec![1, b's'], label(255), vec![2, b's'], vec![]]
}

/// Exemplars of the layout of (class, type): the cartesian product of the shapes of its fields.
fn exemplars(class: u16, rtype: u16, names: &[Vec<u8>]) -> Vec<Vec<u8>> {
    let Some(fields) = layout(class, rtype) else { return vec![vec![], vec![1], vec![1, 2, 3]] };
    let mut out: Vec<Vec<u8>> = vec![vec![]];
    for f in fields {
        let shapes: Vec<Vec<u8>> = match *f {
            Field::Fixed(n) => vec![(1..=n as u8).collect()],
            Field::AtLeast(n) => vec![(1..=n as u8).collect(), (1..=n as u8 + 3).collect()],
            Field::Name => names.to_vec(),
            Field::CharStr => char_strings(),
            Field::CharStrs1 => {
                let mut v = char_strings();
                v.push(vec![1, b'a', 0, 2, b'b', b'c']);
                v.push(vec![1, b'a', 3, b'b']);
                v.push(std::iter::repeat(label(255)).take(255).flatten().chain(label(254)).collect());    // 65535 octets
                v
            }
            Field::Options => {
                let opt = |code: u16, len: u16, data: usize| { let mut v = code.to_be_bytes().to_vec(); v.extend(len.to_be_bytes()); v.extend(std::iter::repeat(7u8).take(data)); v };
                vec![vec![], opt(10, 0, 0), opt(10, 3, 3), [opt(10, 1, 1), opt(11, 0, 0), opt(12, 2, 2)].concat(),
                     opt(10, 4, 3), [opt(10, 1, 1), vec![0, 11, 0]].concat(), opt(65001, 65531, 65531), opt(10, 65535, 65531)]
            }
            Field::Tsig => {
                let tsig = |alg: &[u8], mac_size: u16, mac: usize, other_len: u16, other: usize| {
                    let mut v = alg.to_vec();
                    v.extend([0, 0, 0x65, 0, 0, 0, 1, 0x2c]); v.extend(mac_size.to_be_bytes()); v.extend(std::iter::repeat(5u8).take(mac));
                    v.extend([0x12, 0x34, 0, 0]); v.extend(other_len.to_be_bytes()); v.extend(std::iter::repeat(6u8).take(other));
                    v
                };
                let alg = [11u8, b'h', b'm', b'a', b'c', b'-', b's', b'h', b'a', b'2', b'5', b'6', 0];
                let mut v = vec![tsig(&alg, 32, 32, 0, 0), tsig(&alg, 0, 0, 0, 0), tsig(&alg, 4, 4, 6, 6), tsig(&[0], 1, 1, 1, 1),
                                 tsig(&alg, 5, 4, 0, 0), tsig(&alg, 4, 4, 7, 6), tsig(&alg, 4, 4, 5, 6), tsig(&alg, 0xffff, 4, 0, 0),
                                 tsig(&alg, 4, 4, 0xffff, 0), tsig(&[0xc0, 12], 4, 4, 0, 0), tsig(&[1, b'n'], 0, 0, 0, 0)];
                v.push(alg.to_vec());
                v
            }
        };
        out = out.iter().flat_map(|head| shapes.iter().map(move |s| [head.as_slice(), s.as_slice()].concat())).collect();
    }
    out
}

// --------------------------------------------------------------------------- (A) validate

fn check_validate(class: u16, rtype: u16, rdata: &[u8], cases: &mut u64) {
    *cases += 1;
    let input = (("class", class), ("type", rtype), ("rdata", if rdata.len() <= 600 { rdata } else { &rdata[..600] }), ("rdata.len", rdata.len()));
    let r: &Rdata = match rdata.try_into() { Ok(r) => r, Err(_) => fail("an octet string of <= 65535 octets was refused as Rdata", &input, &"Err", &"Ok") };
    let got = total("Rdata::validate", &input, || r.validate(Class::from(class), Type::from(rtype))).is_ok();
    let want = ref_valid(class, rtype, rdata);
    if got != want { fail("Rdata::validate differs from the RFC wire format of the class/type", &input, &got, &want); }
    if got && layout(class, rtype).is_some() { ACCEPTED.fetch_add(1, std::sync::atomic::Ordering::Relaxed); }
}

// --------------------------------------------------------------------------- (B) read

fn check_read(class: u16, rtype: u16, msg: &[u8], cursor: usize, rdlength: u16, cases: &mut u64) {
    *cases += 1;
    let input = (("class", class), ("type", rtype), ("message", msg), ("cursor", cursor), ("rdlength", rdlength));
    let got = total("Rdata::read", &input, || Rdata::read(Class::from(class), Type::from(rtype), msg, cursor, rdlength))
        .ok().map(|r| r.octets().to_vec());
    let inside = cursor.checked_add(rdlength as usize).map_or(false, |e| e <= msg.len());
    if let Some(r) = &got {
        if layout(class, rtype).is_some() { READ_OK.fetch_add(1, std::sync::atomic::Ordering::Relaxed); }
        if !inside { fail("Rdata::read succeeded although message[cursor..cursor+rdlength] does not exist", &input, &got, &"Err"); }
        if !ref_valid(class, rtype, r) { fail("Rdata::read returned RDATA that is not valid for the class/type", &input, &got, &"valid uncompressed RDATA or Err"); }
        let as_rdata: &Rdata = r.as_slice().try_into().unwrap();
        if total("Rdata::validate", &input, || as_rdata.validate(Class::from(class), Type::from(rtype))).is_err() {
            fail("Rdata::read returned RDATA that Rdata::validate rejects", &input, &got, &"RDATA accepted by validate");
        }
    }
    let want = ref_read(class, rtype, msg, cursor, rdlength);
    if got != want {
        // SRV (RFC 2782: target not compressed; RFC 3597 4: receivers should expand): refusing a compressed target is tolerated
        let srv_compressed = rtype == T_SRV && class == IN && got.is_none() && inside && !ref_valid(class, rtype, &msg[cursor..cursor + rdlength as usize]);
        if !srv_compressed { fail("Rdata::read differs from the reference reader (None = must fail; names decompressed)", &input, &got, &want); }
    }
}

fn main() {
    let mut cases = 0u64;
    let pairs = pairs();

    // ---- (A)
    let mut universe: Vec<Vec<u8>> = Vec::new();
    let alphabet = [0u8, 1, 2, 3, 4, 0x3f, 0x40, 0xc0, 0xff];
    for len in 0..=4usize {
        for mut code in 0..alphabet.len().pow(len as u32) {
            universe.push((0..len).map(|_| { let s = alphabet[code % alphabet.len()]; code /= alphabet.len(); s }).collect());
        }
    }
    let plain = plain_names();
    let mut seen_layouts: Vec<&'static [Field]> = Vec::new();
    for &(c, t) in &pairs {
        if let Some(l) = layout(c, t) { if seen_layouts.contains(&l) { continue; } seen_layouts.push(l); }
        else if t != 0xff00 { continue; }
        for e in exemplars(c, t, &plain) {
            if e.len() <= 600 {
                for cut in 0..e.len() { universe.push(e[..cut].to_vec()); }
                for extra in [0u8, 1, 0xff] { let mut x = e.clone(); x.push(extra); universe.push(x); }
            } else if e.len() < 65535 {
                universe.push(e[..e.len() - 1].to_vec());
                let mut x = e.clone(); x.push(0); universe.push(x);
            } else {
                universe.push(e[..e.len() - 1].to_vec());
            }
            universe.push(e);
        }
    }
    universe.sort(); universe.dedup();
    let universe_len = universe.len();
    for &(c, t) in &pairs { for r in &universe { check_validate(c, t, r, &mut cases); } }

    // ---- (B)
    let prefix = message_prefix();
    let rd_at = prefix.len();
    let names = message_names(rd_at);
    let mut regions: Vec<Vec<u8>> = Vec::new();
    let mut seen_layouts: Vec<&'static [Field]> = Vec::new();
    for &(c, t) in &pairs {
        if let Some(l) = layout(c, t) { if seen_layouts.contains(&l) { continue; } seen_layouts.push(l); }
        else if t != 0xff00 { continue; }
        let has_name = layout(c, t).map_or(false, |l| l.contains(&Field::Name));
        regions.extend(exemplars(c, t, if has_name { &names } else { &plain }).into_iter().filter(|e| e.len() <= 1000));
    }
    regions.sort(); regions.dedup();
    let n_regions = regions.len();
    for region in &regions {
        for suffix in [&[][..], &[0u8][..], &[0xc0u8, 12, 0][..]] {
            let mut msg = prefix.clone(); msg.extend_from_slice(region); msg.extend_from_slice(suffix);
            let n = region.len();
            let mut calls: Vec<(usize, usize)> = vec![(rd_at, n), (rd_at, n + 1), (rd_at, n + 2), (rd_at, 0), (rd_at + 1, n.saturating_sub(1)), (rd_at - 1, n + 1)];
            if n >= 1 { calls.push((rd_at, n - 1)); }
            if n >= 2 { calls.push((rd_at, n - 2)); calls.push((rd_at, 2)); }
            if n >= 6 { calls.push((rd_at, 6)); }
            for (cursor, rdlength) in calls {
                for &(c, t) in &pairs { check_read(c, t, &msg, cursor, rdlength as u16, &mut cases); }
            }
        }
    }
    // any cursor / RDLENGTH, including huge ones
    let mut small_msgs: Vec<Vec<u8>> = vec![vec![], vec![0], vec![0, 0, 0, 0], prefix.clone()];
    { let mut m = prefix.clone(); m.extend([0, 10, 0xc0, 12]); small_msgs.push(m); }
    for msg in &small_msgs {
        let l = msg.len();
        let mut cursors: Vec<usize> = vec![0, 1, l.saturating_sub(4), l.saturating_sub(1), l, l + 1, l + 2, 65535, 65536, 1 << 31, (1 << 32) - 1, 1 << 32,
                                           isize::MAX as usize, isize::MAX as usize + 1, usize::MAX - 65536, usize::MAX - 65535, usize::MAX - 65534,
                                           usize::MAX - 4, usize::MAX - 2, usize::MAX - 1, usize::MAX];
        cursors.sort(); cursors.dedup();
        for &cursor in &cursors {
            for rdlength in [0u16, 1, 2, 3, 4, 5, 6, 16, 20, 22, 255, 256, 65534, 65535] {
                for &(c, t) in &pairs { check_read(c, t, msg, cursor, rdlength, &mut cases); }
            }
        }
    }
    // ---- (C) pointer targets beyond offset 255 (low octet of the pointer 0x00, 0x01, 0xff)
    let mut far_regions = 0usize;
    for t in [255usize, 256, 257, 511, 512, 513, 768, 1024, 0x3e00] {
        let ptr = |to: usize| vec![0xc0 | (to >> 8) as u8, to as u8];
        let mut far = vec![0xabu8; t];                         // filler: 0xab is no label type, a pointer into it never decodes
        far[4] = 0;
        far.extend([7, b'e', b'x', b'a', b'm', b'p', b'l', b'e', 3, b'c', b'o', b'm', 0]);
        far.resize(t + 256, 0xab);
        far.extend([3, b's', b'u', b'b']); far.extend(ptr(t));             // "sub" + pointer to T, at T + 256
        let at = far.len();
        let names: Vec<Vec<u8>> = vec![
            ptr(t), [vec![3, b'n', b's', b'1'], ptr(t)].concat(), ptr(t + 256), [vec![4, b'm', b'a', b'i', b'l'], ptr(t + 256)].concat(),
            vec![1, b'n', 0], vec![0], ptr(t + 8), [vec![1, b'n'], ptr(t + 8)].concat(),       // T + 8: the label "com"
            ptr(t + 1), ptr(t - 1), [vec![1, b'n'], ptr(t + 255)].concat(), ptr(at),            // into a label / the filler / itself
        ];
        let mut regions: Vec<Vec<u8>> = Vec::new();
        let mut seen_layouts: Vec<&'static [Field]> = Vec::new();
        for &(c, ty) in &pairs {
            let Some(l) = layout(c, ty) else { continue };
            if !l.contains(&Field::Name) || seen_layouts.contains(&l) { continue; }
            seen_layouts.push(l);
            regions.extend(exemplars(c, ty, &names));
        }
        regions.sort(); regions.dedup();
        far_regions += regions.len();
        for region in &regions {
            for suffix in [&[][..], &[0u8][..]] {
                let mut msg = far.clone(); msg.extend_from_slice(region); msg.extend_from_slice(suffix);
                let n = region.len();
                for (cursor, rdlength) in [(at, n), (at, n + 1), (at, n.saturating_sub(1)), (at, n.saturating_sub(2))] {
                    for &(c, ty) in &pairs { check_read(c, ty, &msg, cursor, rdlength as u16, &mut cases); }
                }
            }
        }
    }
    done(cases, &format!("{} class/type pairs (all 20 known, known types in other classes, unknown types); validate: {} RDATA strings (all of <= 4 octets over 9 symbols; exemplars of every layout, every truncation, one-octet extensions, 63/64 255/256 65535 limits); read: {} RDATA regions in a message with two earlier names x 3 continuations x 6-10 cursor/RDLENGTH choices, plus 5 messages x 21 cursors up to usize::MAX x 14 RDLENGTHs; long messages: a name at offset T in {{255,256,257,511,512,513,768,1024,15872}} and a chained name at T+256, {} RDATA regions (every layout with names x 12 name shapes: pointer / label+pointer to T, T+256, T+8, plain, pointers one off, to itself) x 2 continuations x RDLENGTH exact/+1/-1/-2 (known pairs: {} accepting validates, {} successful reads)", pairs.len(), universe_len, n_regions, far_regions,
        ACCEPTED.load(std::sync::atomic::Ordering::Relaxed), READ_OK.load(std::sync::atomic::Ordering::Relaxed)))
}
