//! Bounded stand-in for C16 (name text form, equality, ordering): the public `Name` API of the
//! real crate against a reference model over label lists, on a structured universe of names:
//! all names of <= 2 labels over 26 labels (case pairs, octets around the letter ranges
//! 0x40/0x5b/0x60/0x7b, '.', '\\', ' ', '*', digits and escape look-alikes, 0x00, 0x7f, 0x80, 0xff,
//! a 63-octet label and its case variant), all names of 3 labels over 6 of them, and long names
//! (255 octets in 4 labels, 127 one-octet labels, case variants); names whose labels contain BINARY
//! octets equal to plausible length octets, next to the names whose wire form is a raw-octet suffix of
//! theirs without being a label-wise suffix (a\007example.test. / example.test., \004test. / test.,
//! x\001a. / a., \001a.b. / a.b., ..., with case variants); and names whose TEXT form is longer than 255
//! characters because their octets are escaped (\DDD, \. , \\): up to the 255-octet wire maximum.
//! Checked: Display -> FromStr gives the identical wire form; text acceptance at the limits
//! (63/64-octet labels, 255/256-octet names, absolute/relative, empty labels, \DDD for all
//! 1000 three-digit values); for every PAIR of names: == iff the labels are equal ignoring ASCII
//! case, equal names hash alike, cmp is RFC 4034 6.1 canonical order (Equal iff ==),
//! eq_or_subdomain_of iff label-suffix; per name: labels/len/is_root/is_wildcard, superdomain(k)
//! for every k, make_ascii_lowercase, wire_repr_to/from.
use quandary::name::Name;
use std::cmp::Ordering;
use std::collections::hash_map::DefaultHasher;
use std::hash::{Hash, Hasher};
use std::panic::{catch_unwind, AssertUnwindSafe};
use vq_bounded::{done, fail};

type Labels = Vec<Vec<u8>>;          // without the final null label

fn total<T>(what: &str, input: &dyn std::fmt::Debug, f: impl FnOnce() -> T) -> T {
    match catch_unwind(AssertUnwindSafe(f)) {
        Ok(v) => v,
        Err(_) => fail(&format!("{what} panicked"), input, &"panic", &"a value"),
    }
}

fn wire_of(labels: &Labels) -> Vec<u8> {
    let mut w = Vec::new();
    for l in labels { w.push(l.len() as u8); w.extend_from_slice(l); }
    w.push(0);
    w
}
fn lower(labels: &Labels) -> Labels { labels.iter().map(|l| l.to_ascii_lowercase()).collect() }
fn name_of(labels: &Labels) -> Box<Name> {
    match Name::try_from_uncompressed_all(&wire_of(labels)) { Ok(n) => n, Err(e) => fail("a valid uncompressed name was refused", labels, &e, &"Ok") }
}
fn hash_of(n: &Name) -> u64 { let mut h = DefaultHasher::new(); n.hash(&mut h); h.finish() }

/// RFC 1035 5.1 / RFC 4343 2.1 text form of an absolute name -> labels.  None = not a name.
fn ref_text(text: &[u8]) -> Option<Labels> {
    if text == b"." { return Some(vec![]); }
    let mut labels: Labels = Vec::new();
    let mut cur: Vec<u8> = Vec::new();
    let mut i = 0;
    let mut ended_with_dot = false;
    while i < text.len() {
        ended_with_dot = false;
        match text[i] {
            b'\\' => {
                let d = text.get(i + 1)?;
                if d.is_ascii_digit() {
                    let ddd = text.get(i + 1..i + 4)?;
                    if !ddd.iter().all(u8::is_ascii_digit) { return None; }
                    let v = ddd.iter().fold(0u32, |a, c| a * 10 + (*c - b'0') as u32);
                    if v > 255 { return None; }
                    cur.push(v as u8); i += 4;
                } else { cur.push(*d); i += 2; }
            }
            b'.' => {
                if cur.is_empty() { return None; }              // only the root label is empty
                labels.push(std::mem::take(&mut cur)); i += 1; ended_with_dot = true;
            }
            c => { cur.push(c); i += 1; }
        }
        if cur.len() > 63 { return None; }
    }
    if !ended_with_dot { return None; }                          // empty text or relative name
    if wire_of(&labels).len() > 255 { return None; }
    Some(labels)
}

fn universe() -> Vec<Labels> {
    let l63: Vec<u8> = (0..63).map(|i| b'a' + (i % 26) as u8).collect();
    let base: Vec<Vec<u8>> = vec![
        b"a".to_vec(), b"A".to_vec(), b"b".to_vec(), b"ab".to_vec(), b"aB".to_vec(), b"Ab".to_vec(), b"aa".to_vec(), b"z".to_vec(), b"Z".to_vec(),
        b"@".to_vec(), b"[".to_vec(), b"`".to_vec(), b"{".to_vec(), b"a.b".to_vec(), b"\\".to_vec(), b" ".to_vec(), b"*".to_vec(),
        b"1".to_vec(), b"\\065".to_vec(), b"065".to_vec(), vec![0], vec![0x7f], vec![0x80], vec![0xff], l63.clone(), l63.to_ascii_uppercase(),
    ];
    let mut u: Vec<Labels> = vec![vec![]];
    for a in &base { u.push(vec![a.clone()]); }
    for a in &base { for b in &base { u.push(vec![a.clone(), b.clone()]); } }
    let small = [b"a".to_vec(), b"A".to_vec(), b"b".to_vec(), b"*".to_vec(), b".".to_vec(), vec![0xe9]];
    for a in &small { for b in &small { for c in &small { u.push(vec![a.clone(), b.clone(), c.clone()]); } } }
    // 255 octets: 63+63+63+61 octet labels; 127 one-octet labels; and case variants of both
    let long4: Labels = vec![l63.clone(), l63.clone(), l63.clone(), l63[..61].to_vec()];
    let many: Labels = (0..127).map(|i| vec![b'a' + (i % 26) as u8]).collect();
    u.push(long4.iter().map(|l| l.to_ascii_uppercase()).collect()); u.push(long4);
    u.push(many.iter().map(|l| l.to_ascii_uppercase()).collect()); u.push(many);
    // labels holding an octet that looks like a length octet: the wire form of the second name of each
    // group is a suffix of the octets of the first, but its labels are not a suffix of the first's labels
    let l = |parts: &[&[u8]]| -> Labels { parts.iter().map(|p| p.to_vec()).collect() };
    for n in [
        l(&[b"a\x07example", b"test"]), l(&[b"example", b"test"]), l(&[b"\x07example", b"test"]), l(&[b"a", b"example", b"test"]),
        l(&[b"\x04test"]), l(&[b"test"]), l(&[b"x\x04test"]), l(&[b"x", b"test"]),
        l(&[b"x\x01a"]), l(&[b"\x01a"]), l(&[b"\x01a", b"b"]), l(&[b"\x01a\x01b"]), l(&[b"a\x01b"]), l(&[b"x\x01a", b"b"]),
        l(&[b"a\x00"]), l(&[b"a", b"\x00"]), l(&[b"b\x02a\x00"]), l(&[b"\x02ab", b"\x01a"]), l(&[b"ab", b"\x01a"]), l(&[b"ab", b"a"]),
    ] {
        u.push(n.iter().map(|l| l.to_ascii_uppercase()).collect()); u.push(n);
    }
    // text form longer than 255 characters: every octet is escaped (4 or 2 characters each)
    for o in [0x00u8, 0xff, b'.', b'\\'] {
        u.push(vec![vec![o; 63], b"a".to_vec()]);                              // text of 255 characters when o is \DDD
        u.push(vec![vec![o; 63], b"ab".to_vec()]);                             // ... of 256
        u.push(vec![vec![o; 63], vec![o; 63]]);
        u.push(vec![vec![o; 63], vec![o; 63], vec![o; 63], vec![o; 61]]);      // 255 octets
    }
    u.push((0..127).map(|_| vec![0x07]).collect());                            // 127 labels, 635 characters
    u.push((0..127).map(|i| vec![[0x07u8, b'.', 0xe9, b'a'][i % 4]]).collect());
    let mixed: Vec<u8> = (0..63).map(|i| [0x00u8, b'A', b'.', 0x80, b'\\', b'z', b' '][i % 7]).collect();
    u.push(vec![mixed.clone(), mixed.clone(), mixed.to_ascii_lowercase(), mixed[..61].to_vec()]);     // 255 octets, mixed escapes
    u
}

fn main() {
    let mut cases = 0u64;
    let uni = universe();
    let names: Vec<Box<Name>> = uni.iter().map(name_of).collect();

    // ---- per name
    for (labels, n) in uni.iter().zip(&names) {
        cases += 1;
        let wire = wire_of(labels);
        let got_labels: Labels = total("Name::labels", labels, || n.labels().map(|l| l.octets().to_vec()).collect());
        let mut want_labels = labels.clone(); want_labels.push(vec![]);
        if got_labels != want_labels || n.len() != want_labels.len() || n.wire_repr() != wire {
            fail("labels()/len()/wire_repr() differ from the label list", labels, &(got_labels, n.len()), &(want_labels.clone(), want_labels.len()));
        }
        for i in 0..n.len() { if n[i].octets() != want_labels[i] { fail("name[i] is not the i-th label", &(labels, i), &n[i].octets(), &want_labels[i]); } }
        let facts = (n.is_root(), n.is_wildcard());
        let want_facts = (labels.is_empty(), labels.first().map_or(false, |l| l == b"*"));
        if facts != want_facts { fail("is_root / is_wildcard", labels, &facts, &want_facts); }
        // text round trip
        let text = total("Display for Name", labels, || n.to_string());
        let back = total("FromStr for Box<Name>", &text, || text.parse::<Box<Name>>()).ok().map(|b| b.wire_repr().to_vec());
        if back.as_deref() != Some(&wire[..]) { fail("Display -> FromStr does not give the identical wire form", &(labels, &text), &back, &wire); }
        if ref_text(text.as_bytes()).as_ref() != Some(labels) { fail("the text form is not the RFC 1035 5.1 text of the name", labels, &text, &"text that denotes these labels"); }
        // superdomains and partial wire forms
        for k in 0..=n.len() + 1 {
            let got = total("Name::superdomain", &(labels, k), || n.superdomain(k)).map(|s| s.wire_repr().to_vec());
            let want = if k <= labels.len() { Some(wire_of(&labels[k..].to_vec())) } else { None };
            if got != want { fail("superdomain(k) is not the name without its first k labels", &(labels, k), &got, &want); }
            if k <= n.len() {
                let split = wire_of(&labels[..k.min(labels.len())].to_vec()).len() - 1;
                let (to, from) = if k == n.len() { (&wire[..], &wire[wire.len()..]) } else { (&wire[..split], &wire[split..]) };
                if n.wire_repr_to(k) != to || n.wire_repr_from(k) != from { fail("wire_repr_to / wire_repr_from", &(labels, k), &(n.wire_repr_to(k), n.wire_repr_from(k)), &(to, from)); }
            }
        }
        // lowercasing
        let mut m = n.clone();
        total("make_ascii_lowercase", labels, || m.make_ascii_lowercase());
        if m.wire_repr() != wire_of(&lower(labels)) { fail("make_ascii_lowercase", labels, &m.wire_repr(), &wire_of(&lower(labels))); }
        if *m != **n { fail("a name differs from its lower-cased form", labels, &false, &true); }
    }

    // ---- pairs
    let lowered: Vec<Labels> = uni.iter().map(lower).collect();
    let reversed: Vec<Labels> = lowered.iter().map(|l| l.iter().rev().cloned().collect()).collect();
    let hashes: Vec<u64> = names.iter().map(|n| hash_of(n)).collect();
    for i in 0..uni.len() {
        for j in 0..uni.len() {
            cases += 1;
            let (a, b) = (&names[i], &names[j]);
            let input = (&uni[i], &uni[j]);
            let want_eq = lowered[i] == lowered[j];
            let got_eq = total("Name == Name", &input, || **a == **b);
            if got_eq != want_eq { fail("== differs from label equality ignoring ASCII case (and nothing else)", &input, &got_eq, &want_eq); }
            if want_eq && hashes[i] != hashes[j] { fail("equal names hash differently", &input, &(hashes[i], hashes[j]), &"equal hashes"); }
            let want_cmp: Ordering = reversed[i].cmp(&reversed[j]);     // RFC 4034 6.1: labels right to left, lower-cased octet strings
            let got_cmp = total("Name::cmp", &input, || a.cmp(b));
            if got_cmp != want_cmp { fail("cmp differs from RFC 4034 6.1 canonical order", &input, &got_cmp, &want_cmp); }
            if a.partial_cmp(b) != Some(want_cmp) { fail("partial_cmp differs from cmp", &input, &a.partial_cmp(b), &Some(want_cmp)); }
            let want_sub = lowered[i].ends_with(&lowered[j]);
            let got_sub = total("eq_or_subdomain_of", &input, || a.eq_or_subdomain_of(b));
            if got_sub != want_sub { fail("eq_or_subdomain_of differs from 'the other name's labels are a suffix'", &input, &got_sub, &want_sub); }
        }
    }

    // ---- text acceptance at the limits
    let mut texts: Vec<String> = vec!["".into(), ".".into(), "a".into(), "a.".into(), "a.b".into(), "a.b.".into(), "..".into(), "a..".into(), ".a.".into(), "a..b.".into(),
        "\\".into(), "a\\".into(), "\\..".into(), "\\.".into(), "a\\.".into(), "a\\..".into(), "\\\\.".into(), "\\a.".into(), "\\1.".into(), "\\12.".into(), "\\12a.".into(), "\\1234.".into(),
        "*.".into(), "*.a.".into(), "a b.".into(), "@.".into()];
    for v in 0..1000 { texts.push(format!("\\{v:03}.")); texts.push(format!("x\\{v:03}y.z.")); }
    let x = |n: usize| "x".repeat(n);
    for n in [62, 63, 64, 65] { texts.push(format!("{}.", x(n))); texts.push(format!("a.{}.b.", x(n))); texts.push(format!("{}\\046.", x(n - 1))); }
    for last in [59, 60, 61, 62, 63] {          // 3 x 64 + (last + 1) + 1 octets
        texts.push(format!("{0}.{0}.{0}.{1}.", x(63), x(last)));
        texts.push(format!("{0}.{0}.{0}.{1}", x(63), x(last)));
    }
    for n in [125, 126, 127, 128, 129] { texts.push("a.".repeat(n)); }
    // the same limits written with escapes: texts of up to 1008 characters for names of 254..256 octets
    for esc in ["\\120", "\\000", "\\.", "\\x"] {
        let e = |n: usize| esc.repeat(n);
        for n in [63, 64] { texts.push(format!("{}.", e(n))); texts.push(format!("a.{}.b.", e(n))); }
        for last in [60, 61, 62] { texts.push(format!("{0}.{0}.{0}.{1}.", e(63), e(last))); texts.push(format!("{0}.{0}.{0}.{1}", e(63), e(last))); }
        for n in [126, 127, 128] { texts.push(format!("{esc}.").repeat(n)); }
    }
    for t in &texts {
        cases += 1;
        let got = total("FromStr for Box<Name>", t, || t.parse::<Box<Name>>()).ok().map(|n| n.wire_repr().to_vec());
        let want = ref_text(t.as_bytes()).map(|l| wire_of(&l));
        if got != want { fail("text parsing differs from RFC 1035 5.1 (absolute names of <= 255 octets, labels <= 63; None = must be refused)", t, &got, &want); }
    }
    done(cases, &format!("{} names (all of <= 2 labels over 26 labels, 3 labels over 6, 255-octet and 127-label names, 40 names with binary octets that look like length octets next to their raw-octet-suffix look-alikes, 19 names of 66..255 octets made of octets that are escaped in text (0x00, 0xff, '.', '\\', 0x07, mixed; text forms of up to 1004 characters)) one by one and in all {} ordered pairs; {} texts at the limits (plain and written with \\DDD / \\X escapes, up to 1008 characters)", uni.len(), uni.len() * uni.len(), texts.len()))
}
