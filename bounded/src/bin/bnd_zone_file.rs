//! Bounded stand-in for C24 (zone-file parser is total and only yields valid records): the real
//! `zone_file::Parser` (and its `records_only()` adapter) is iterated to exhaustion over a
//! deterministic universe of zone-file texts:
//!  (A) record cross product: 2 contexts x every class token x every type token (all mnemonics,
//!      lower case, TYPEnnn for known / forbidden / unknown numbers, malformed) x a pooled list of
//!      RDATA texts (presentation forms of every supported type, valid and invalid, and RFC 3597
//!      `\# len hex` forms: `\# 0`, wrong lengths, RDATA malformed for the known type, ...);
//!  (B) owner x preamble ($ORIGIN/$TTL/previous record) x TTL/class order x a few records;
//!  (C) size limits: TXT RDATA of exactly 65535/65536/65537 octets (several shapes), generic
//!      `\# 65535` / `\# 65536`, fields around the reader's per-field limit (65536), character
//!      strings of 255/256, labels of 63/64, names of 255/256 octets, WKS with 65534..65536 ports;
//!  (D) mutations of 4 valid multi-record zone texts: every prefix, every single-byte deletion,
//!      every single-byte substitution and insertion from an 18-symbol alphabet;
//!  (E) all byte strings of length <= 3 over a 20-symbol alphabet; all sequences of <= 4 tokens
//!      from a 16-token list.
//!  (F) transient I/O errors: 5 multi-line zone texts delivered 1 / 7 octets / one line per
//!      read() call by a stream whose k-th read() call fails once (io::ErrorKind::Other) and
//!      which then continues to deliver the rest of the text, for EVERY k up to the number of
//!      read() calls the undisturbed parse makes.
//! Every text is read three ways: whole slice, 1 byte per read() call, 7 bytes per read() call.
//! Checked (from the property text only): no panic; termination (item cap); after the first Err
//! item next() returns None; every yielded record has an absolute owner (well-formed uncompressed
//! wire name <= 255 octets ending in the root label), a type other than NULL(10)/OPT(41)/
//! TSIG(250), RDATA <= 65535 octets accepted by `Rdata::validate(class, type)` AND by the
//! independent RFC reference `wire_ref::ref_valid`.  Which error is returned, how many records
//! are yielded and their TTLs are not constrained.
use quandary::zone_file::{LineContent, ParsedRr, Parser};
use std::io::Read;
use std::panic::{catch_unwind, AssertUnwindSafe};
use vq_bounded::{done, fail};

#[path = "../wire_ref.rs"]
mod wire_ref;

const ITEM_CAP: usize = 10_000;

/// A stream handing out at most `chunk` octets (`chunk` = 0: at most up to the next newline) per
/// read() call whose read() call number `fail_at` (counted from 0) fails without consuming
/// anything; later calls continue as if nothing had happened.  Counts its calls.
struct Flaky<'a> { data: &'a [u8], chunk: usize, fail_at: usize, calls: &'a std::cell::Cell<usize> }
impl Read for Flaky<'_> {
    fn read(&mut self, buf: &mut [u8]) -> std::io::Result<usize> {
        let call = self.calls.get();
        self.calls.set(call + 1);
        if call == self.fail_at { return Err(std::io::Error::new(std::io::ErrorKind::Other, "transient failure")); }
        let want = if self.chunk > 0 { self.chunk } else { self.data.iter().position(|b| *b == b'\n').map_or(self.data.len(), |i| i + 1) };
        let n = want.min(buf.len()).min(self.data.len());
        buf[..n].copy_from_slice(&self.data[..n]);
        self.data = &self.data[n..];
        Ok(n)
    }
}

/// A stream handing out at most `chunk` octets per read() call.
struct Drip<'a> { data: &'a [u8], chunk: usize }
impl Read for Drip<'_> {
    fn read(&mut self, buf: &mut [u8]) -> std::io::Result<usize> {
        let n = self.chunk.min(buf.len()).min(self.data.len());
        buf[..n].copy_from_slice(&self.data[..n]);
        self.data = &self.data[n..];
        Ok(n)
    }
}

#[derive(Debug)]
#[allow(dead_code)]
struct Input { text: Shown, octets: usize, read_as: &'static str, iterator: &'static str }

/// The text with non-printable octets escaped (or a description of a huge text), printed as is.
struct Shown(String);
impl std::fmt::Debug for Shown {
    fn fmt(&self, f: &mut std::fmt::Formatter<'_>) -> std::fmt::Result { write!(f, "\"{}\"", self.0) }
}

fn show(text: &[u8], desc: Option<&str>) -> Shown {
    if let Some(d) = desc { return Shown(format!("<{d}>")); }
    if text.len() <= 600 { return Shown(text.escape_ascii().to_string()); }
    Shown(format!("{} ...[{} octets]... {}", text[..200].escape_ascii(), text.len(), text[text.len() - 80..].escape_ascii()))
}

type Violation = (String, String, String); // what, got, want

/// The clauses of C24 about one yielded record.
fn check_record(rr: &ParsedRr) -> Result<(), Violation> {
    RECORDS.fetch_add(1, std::sync::atomic::Ordering::Relaxed);
    let owner = rr.owner.wire_repr();
    if owner.is_empty() || owner.len() > 255 || *owner.last().unwrap() != 0 || wire_ref::ref_uncompressed(owner) != Some(owner.len()) {
        return Err(("yielded record whose owner is not an absolute name".into(), format!("owner wire {owner:?}"), "a well-formed name of <= 255 octets ending in the root label".into()));
    }
    let (t, c): (u16, u16) = (rr.rr_type.into(), rr.class.into());
    if let Some(h) = HIST.get() { *h.lock().unwrap().entry((c, t)).or_insert(0) += 1; }
    if t == 10 || t == 41 || t == 250 {
        return Err(("yielded a record of type NULL, OPT or TSIG".into(), format!("type {t}"), "an error or another type".into()));
    }
    let rdata = rr.rdata.octets();
    if rdata.len() > 65535 {
        return Err(("yielded RDATA longer than 65535 octets".into(), format!("{} octets", rdata.len()), "<= 65535".into()));
    }
    let head = &rdata[..rdata.len().min(40)];
    if rr.rdata.validate(rr.class, rr.rr_type).is_err() {
        return Err(("yielded RDATA that fails Rdata::validate for its class and type".into(),
            format!("class {c} type {t} rdata ({} octets) {head:?}", rdata.len()), "RDATA valid for the class and type".into()));
    }
    if !wire_ref::ref_valid(c, t, rdata) {
        return Err(("yielded RDATA that is not valid for its class and type (RFC 1035 3.3 layout)".into(),
            format!("class {c} type {t} rdata ({} octets) {head:?}", rdata.len()), "RDATA valid for the class and type".into()));
    }
    Ok(())
}

/// Drains an iterator of parser items; `rec` extracts the record (if any) of an Ok item.
fn drain<T, E>(mut it: impl Iterator<Item = Result<T, E>>, rec: impl Fn(&T) -> Option<&ParsedRr>) -> Result<(), Violation> {
    for n in 0.. {
        if n >= ITEM_CAP {
            return Err(("parser does not terminate".into(), format!("{ITEM_CAP} items and still going"), "end of iteration".into()));
        }
        match it.next() {
            None => return Ok(()),
            Some(Ok(item)) => if let Some(rr) = rec(&item) { check_record(rr)? },
            Some(Err(_)) => {
                ERRORS.fetch_add(1, std::sync::atomic::Ordering::Relaxed);
                for k in 1..=4 {
                    match it.next() {
                        None => {}
                        Some(Ok(_)) => return Err(("parser yielded a line after its first error".into(), format!("Some(Ok(..)) from call {k} after the error"), "None".into())),
                        Some(Err(_)) => return Err(("parser yielded another error after its first error".into(), format!("Some(Err(..)) from call {k} after the error"), "None".into())),
                    }
                }
                return Ok(());
            }
        }
    }
    unreachable!()
}

static CASES: std::sync::atomic::AtomicU64 = std::sync::atomic::AtomicU64::new(0);
/// With BND_ZF_STATS set: how many records of each (class, type) were yielded (universe sanity).
static HIST: std::sync::OnceLock<std::sync::Mutex<std::collections::BTreeMap<(u16, u16), u64>>> = std::sync::OnceLock::new();
static RECORDS: std::sync::atomic::AtomicU64 = std::sync::atomic::AtomicU64::new(0);
static ERRORS: std::sync::atomic::AtomicU64 = std::sync::atomic::AtomicU64::new(0);

fn run_desc(text: &[u8], desc: Option<&str>) {
    for (read_as, chunk) in [("whole slice", usize::MAX), ("1 octet per read()", 1), ("7 octets per read()", 7)] {
        for iterator in ["Parser", "Parser::records_only"] {
            let r = catch_unwind(AssertUnwindSafe(|| {
                let p = Parser::new(Drip { data: text, chunk });
                if iterator == "Parser" {
                    drain(p, |line| match &line.content { LineContent::Record(rr) => Some(rr), LineContent::Include(_) => None })
                } else {
                    drain(p.records_only(), |line| Some(&line.record))
                }
            }));
            let input = || Input { text: show(text, desc), octets: text.len(), read_as, iterator };
            match r {
                Err(_) => fail("[C24] zone-file parser panicked", &input(), &"panic", &"records, then at most one error, then the end"),
                Ok(Err((what, got, want))) => fail(&format!("[C24] {what}"), &input(), &got, &want),
                Ok(Ok(())) => {}
            }
            CASES.fetch_add(1, std::sync::atomic::Ordering::Relaxed);
        }
    }
}
fn run(text: &[u8]) { run_desc(text, None) }

// ------------------------------------------------------------------------------ universe (A)

const CLASSES: [&str; 9] = ["IN", "CH", "HS", "in", "CLASS1", "CLASS3", "CLASS65280", "CLASS0", "CLASS255"];

const TYPES: [&str; 62] = [
    "A", "NS", "MD", "MF", "CNAME", "SOA", "MB", "MG", "MR", "NULL", "WKS", "PTR", "HINFO", "MINFO", "MX", "TXT",
    "AAAA", "SRV", "OPT", "TSIG",
    "a", "ns", "soa", "txt", "wks", "null", "Null", "opt", "Opt", "tsig", "tSIG", "type10", "Type41", "type250",
    "TYPE0", "TYPE1", "TYPE2", "TYPE5", "TYPE6", "TYPE10", "TYPE11", "TYPE12", "TYPE13", "TYPE14", "TYPE15", "TYPE16",
    "TYPE28", "TYPE33", "TYPE41", "TYPE250", "TYPE251", "TYPE255", "TYPE65280", "TYPE65535",
    "TYPE65536", "TYPE", "TYPE-1", "TYPE+10", "TYPE010", "TYPE00041", "TYPE0250", "ANY",
];

const RDATAS: &[&str] = &[
    // presentation forms
    "", "1.2.3.4", "1.2.3", "1.2.3.256", "1.2.3.4 5", "::1", "2001:db8::1", "1::2::3", "::ffff:1.2.3.4",
    "ns.example.", "ns", "@", ".", "ns.example. extra", "a\\.b.\\065\\000.example.", "a..example.", "\\256.example.",
    "ns.example. 12", "ns.example. 8", "ns 177777", "ns.example. 200000", ". 0",
    "ns.example. admin.example. 1 2 3 4 5", "ns admin 1 2 3 4 5", "ns admin 1 2 3 4", "ns admin 1 2 3 4 4294967296",
    "ns admin ( 1 2 3 4 5 )", "ns admin (\n 1 ; serial\n 2 3 4 5\n )", "ns admin 1 2 3 4 5 6", ". . 0 0 0 0 0",
    "10 mail.example.", "10 mail", "65535 .", "65536 mail.example.", "10", "-1 mail.example.",
    "\"hello\"", "hello", "\"a\" \"b\" c", "\"\"", "\"\\065\\066\" x\\\"y", "\"unterminated", "\"two\nlines\"", "\"a\"\"b\"", "a\\", "\"a\\25\"",
    "\"cpu\" \"os\"", "cpu os", "cpu", "cpu os extra", "a.example. b.example.", "a b",
    "0 0 53 target.example.", "1 2 3 .", "0 0 65536 target.example.", "0 0 53", "0 0 53 t extra",
    "1.2.3.4 TCP 25 80", "1.2.3.4 udp", "1.2.3.4 6 65535", "1.2.3.4 256 1", "1.2.3.4 TCP 65536", "1.2.3.4", "1.2.3.4 17 0 0 7",
    "( 1.2.3.4 )", "(1.2.3.4)", "1.2.3.4 ; comment", "( 1.2.3.4", "1.2.3.4 )", "((1.2.3.4))",
    // RFC 3597 generic forms
    "\\#", "\\# 0", "\\# 0 ", "\\# 0 00", "\\# 00", "\\# ( 0 )", "\\# 0 ; empty", "\\#0", "\\ # 0", "\\# x", "\\# -1", "\\# +0", "\\# 65536", "\\# 65535 00",
    "\\# 1 00", "\\# 1 0", "\\# 1 0g", "\\# 1 00 00", "\\# 2 00 00", "\\# 2 0000", "\\# 1 0000", "\\# 2 00", "\\# 1 c0", "\\# 2 c000",
    "\\# 2 0161", "\\# 3 016100", "\\# 3 016101", "\\# 4 01610000", "\\# 2 4000", "\\# 65 40", "\\# 3 010203", "\\# 4 01020304", "\\# 4 010203", "\\# 3 01020304", "\\# 5 0102030405",
    "\\# 4 0102030G", "\\# 4 0x020304", "\\# 4 (01020304)", "\\# 4 ( 01020304 )", "\\# 4 01020304 ; c", "\\# 4 0102 0304", "\\# 04 01020304", "\\# 4 01020304 05",
    "\\# 16 00000000000000000000000000000001", "\\# 15 000000000000000000000000000001", "\\# 17 0000000000000000000000000000000100",
    "\\# 22 0000000000000000000000000000000000000000ffff", "\\# 21 000000000000000000000000000000000000000000", "\\# 23 0000000000000000000000000000000000000000000000",
    "\\# 24 016100016200000000010000000200000003000000040000", "\\# 20 0000000000000000000000000000000000000000",
    "\\# 3 000a00", "\\# 2 000a", "\\# 4 000a0161", "\\# 6 000a01610000", "\\# 5 000a016100",
    "\\# 2 0141", "\\# 2 0541", "\\# 3 014100", "\\# 3 014101", "\\# 4 01410142", "\\# 256 ff", "\\# 1 ff",
    "\\# 4 01610162", "\\# 3 016101", "\\# 5 0161016200", "\\# 2 0000 ", "\\# 6 016100016200", "\\# 5 0161000162",
    "\\# 7 00000000000000", "\\# 6 000000000000", "\\# 8 0000000000000000", "\\# 9 000000000000016100",
    "\\# 3 000001", "\\# 5 0161000001", "\\# 4 01610000", "\\# 6 016100000100",
    "\\# 5 0102030406", "\\# 6 010203040680", "\\# 4 01020306",
    "\\# 11 0000290200000000000000", "\\# 4 00010000", "\\# 5 0001000100",
];

fn universe_a() {
    let mut text = Vec::new();
    for class in CLASSES {
        for ty in TYPES {
            for rd in RDATAS {
                text.clear();
                text.extend_from_slice(format!("$ORIGIN example.\n$TTL 60\nh {class} {ty} {rd}\nh2 IN A 1.2.3.4\n").as_bytes());
                run(&text);
                text.clear();
                text.extend_from_slice(format!("h.example. 60 {class} {ty} {rd}").as_bytes());
                run(&text);
            }
        }
    }
}

// ------------------------------------------------------------------------------ universe (B)

fn universe_b() {
    let owners = ["a.example.", "@", "rel", "rel.sub", ".", "", "\\065.example.", "a\\.b", "*.example.", "*", "a..b.", "\\", "\\1", "\\999.", "a\\ b.", "\"q\"."];
    let preambles = ["", "$ORIGIN example.\n", "$ORIGIN example.\n$TTL 300\n", "x.example. 5 IN A 1.2.3.4\n", "$TTL 300\n", "$ORIGIN rel\n", "$ORIGIN example\n",
        "$ORIGIN\n", "$TTL\n", "$TTL x\n", "$TTL 4294967296\n", "$TTL 4294967295\n", "$TTL 2147483648\n", "$ORIGIN .\n", "$origin EXAMPLE.\n$ttl 1\n", "$ORIGIN example. extra\n",
        "$TTL 1 2\n", "$INCLUDE f\n", "$INCLUDE \"f g\" example.\n", "$INCLUDE f rel\n", "$INCLUDE\n", "$UNKNOWN\n", "$\n", "$ORIGIN a.\n$ORIGIN b\n$ORIGIN c\n",
        "x.example. 5 CH A ch. 1\n", "x.example. 5 CLASS65280 TYPE65280 \\# 0\n", "( $ORIGIN example. )\n", "$ORIGIN ( example.\n)\n"];
    let ttl_class = ["3600 IN", "IN 3600", "IN", "3600", "", "CH", "CH 5", "5 CH", "CLASS65280", "3600 3600", "IN IN", "IN 3600 IN", "4294967295 IN", "4294967296 IN", "2147483648 IN", "-1 IN", "1h IN", "0 IN", "IN 0", "+5 IN"];
    let records = ["A 1.2.3.4", "A ch. 7", "NS ns", "TXT \"t\"", "A \\# 0", "NS \\# 2 0161", "TYPE65280 \\# 1 00", "NULL \\# 0", "TYPE41 \\# 0", "SOA @ @ 1 2 3 4 5", "MX 1 @"];
    for pre in preambles {
        for owner in owners {
            for tc in ttl_class {
                for rec in records {
                    run(format!("{pre}{owner} {tc} {rec}\n {rec}\n").as_bytes());
                }
            }
        }
    }
}

// ------------------------------------------------------------------------------ universe (C)

fn rep(s: &str, n: usize) -> String { s.repeat(n) }

/// A TXT record of `full` quoted 255-octet strings and then one string of `last` octets:
/// 256 * full + 1 + last octets of RDATA.
fn txt_text(full: usize, last: Option<usize>, multi_line: bool, quoted: bool) -> Vec<u8> {
    let sep = if multi_line { "\n" } else { " " };
    let q = if quoted { "\"" } else { "" };
    let mut z = String::from("big.example. 3600 IN TXT ");
    if multi_line { z.push_str("(\n"); }
    for _ in 0..full { z.push_str(q); z.push_str(&rep("x", 255)); z.push_str(q); z.push_str(sep); }
    if let Some(l) = last { z.push_str("\""); z.push_str(&rep("y", l)); z.push_str("\""); z.push_str(sep); }
    if multi_line { z.push_str(")"); }
    z.push_str("\nnext.example. 1 IN A 1.2.3.4\n");
    z.into_bytes()
}

fn universe_c() {
    // TXT RDATA of exactly 65535 / 65536 / 65537 (and neighbours) octets
    for (full, last) in [(255, Some(253)), (255, Some(254)), (255, Some(255)), (256, None), (256, Some(0)), (256, Some(1)), (257, None), (254, Some(255)), (300, None)] {
        for multi_line in [true, false] {
            for quoted in [true, false] {
                let total = 256 * full + last.map_or(0, |l| 1 + l);
                run_desc(&txt_text(full, last, multi_line, quoted),
                    Some(&format!("big.example. 3600 IN TXT of {full} x 255-octet strings + {last:?} octets ({total} octets of RDATA), multi_line={multi_line} quoted={quoted}; then an A record")));
            }
        }
    }
    for n in [65534usize, 65535, 65536, 65537] {
        run_desc(format!("e. 1 IN TXT{}\nn. 1 IN A 1.2.3.4\n", rep(" \"\"", n)).as_bytes(), Some(&format!("e. 1 IN TXT with {n} empty quoted strings; then an A record")));
        run_desc(format!("e. 1 IN TXT{}", rep(" \\000", n / 2)).as_bytes(), Some(&format!("e. 1 IN TXT with {} one-octet strings, no final newline", n / 2)));
        // 32767/32768 two-octet... and one-octet strings filling 2 octets each up to the boundary
        run_desc(format!("e. 1 IN TXT{} \"\"", rep(" a", (n - 1) / 2)).as_bytes(), Some(&format!("e. 1 IN TXT with {} one-octet strings and an empty one", (n - 1) / 2)));
    }
    // generic form around the RDATA length limit
    for ty in ["TYPE65280", "TXT", "A", "NS", "TYPE16", "WKS", "HINFO"] {
        for (len, digits) in [(65535usize, 65535usize), (65535, 65534), (65535, 65536), (65536, 65536), (65534, 65534), (65537, 65537), (0, 65535)] {
            for byte in ["00", "01", "ff"] {
                run_desc(format!("g. 1 IN {ty} \\# {len} {}\nn. 1 IN A 1.2.3.4\n", rep(byte, digits)).as_bytes(),
                    Some(&format!("g. 1 IN {ty} \\# {len} followed by {digits} x \"{byte}\"; then an A record")));
            }
        }
    }
    // a valid TXT of 65535 octets in generic form: 255 x (ff + 255 octets) + fe + 254 octets
    let mut hex = String::new();
    for _ in 0..255 { hex.push_str("ff"); hex.push_str(&rep("41", 255)); }
    hex.push_str("fe"); hex.push_str(&rep("42", 254));
    run_desc(format!("g. 1 IN TXT \\# 65535 {hex}\n").as_bytes(), Some("g. 1 IN TXT \\# 65535 <255 full strings + one of 254 octets>"));
    run_desc(format!("g. 1 IN TXT \\# 65535 {hex}00\n").as_bytes(), Some("g. 1 IN TXT \\# 65535 <65536 octets of hex>"));
    // fields around the reader's per-field limit (65536) in every position
    for n in [65535usize, 65536, 65537, 70000] {
        let x = rep("x", n);
        let d = rep("0", n - 1) + "1";
        let texts = [
            format!("{x}. 1 IN A 1.2.3.4\n"), format!("{x}\n"), x.clone(), format!("a. {d} IN A 1.2.3.4\n"), format!("a. {x} IN A 1.2.3.4\n"),
            format!("a. 1 {x} A 1.2.3.4\n"), format!("a. 1 IN {x} 1.2.3.4\n"), format!("a. 1 IN TYPE{d} \\# 0\n"), format!("a. 1 CLASS{d} A \\# 0\n"),
            format!("a. 1 IN A {x}\n"), format!("a. 1 IN A {d}.2.3.4\n"), format!("a. 1 IN AAAA {x}\n"), format!("a. 1 IN NS {x}\n"), format!("a. 1 IN MX {d} m.\n"),
            format!("a. 1 IN MX 1 {x}\n"), format!("a. 1 IN TXT {x}\n"), format!("a. 1 IN TXT \"{x}\"\n"), format!("a. 1 IN TXT \"{x}"), format!("a. 1 IN A \\# {d} 00\n"),
            format!("a. 1 IN A \\# {x}\n"), format!("a. 1 IN A \\# 4 {x}\n"), format!("a. 1 IN SOA a. b. {d} 2 3 4 5\n"), format!("a. 1 IN SRV 1 2 {d} t.\n"),
            format!("a. 1 IN WKS 1.2.3.4 {d} 1\n"), format!("a. 1 IN WKS 1.2.3.4 {x} 1\n"), format!("a. 1 CH A ch. {d}\n"), format!("a. 1 CH A ch. {}\n", rep("7", n)),
            format!("$TTL {d}\n"), format!("$ORIGIN {x}.\n"), format!("$INCLUDE {x}\n"), format!("$INCLUDE \"{x}\"\n"), format!("$INCLUDE \"{x}"), format!("${x}\n"),
            format!("a. 1 IN A 1.2.3.4 ;{x}\n"), format!(";{x}"), format!("{}a. 1 IN A 1.2.3.4\n", rep(" ", n)), format!("{}a. 1 IN A 1.2.3.4\n", rep("\n", n)),
            format!("a. 1 IN A{}1.2.3.4\n", rep(" ", n)), format!("a. 1 IN A ({}1.2.3.4 )\n", rep("\n", n)), format!("a. 1 IN A {}1.2.3.4{}\n", rep("(", n), rep(")", n)),
            format!("a. 1 IN TXT {}\n", rep("\\", n)), format!("a. 1 IN TXT {}\n", rep("\\0", n)), format!("a. 1 IN TXT {}\n", rep("\"", n)),
        ];
        for (i, t) in texts.iter().enumerate() {
            run_desc(t.as_bytes(), Some(&format!("field-limit text #{i} with a run of {n}: {} ... {}", t.as_bytes()[..40.min(t.len())].escape_ascii(), t.as_bytes()[t.len().saturating_sub(24)..].escape_ascii())));
        }
    }
    // WKS port lists around 65535 entries
    for n in [65534usize, 65535, 65536, 65537] {
        run_desc(format!("w. 1 IN WKS 1.2.3.4 TCP{}\n", rep(" 0", n)).as_bytes(), Some(&format!("w. 1 IN WKS 1.2.3.4 TCP with {n} ports \"0\"")));
        run_desc(format!("w. 1 IN WKS 1.2.3.4 TCP{} 65535\n", rep(" 9", n - 1)).as_bytes(), Some(&format!("w. 1 IN WKS 1.2.3.4 TCP with {n} ports, the last 65535")));
    }
    // character strings of 254..257 octets; labels of 62..65; names around 255 octets
    for n in [254usize, 255, 256, 257, 300] {
        for body in [rep("s", n), rep("\\115", n), rep("\\s", n), rep("s", n - 1) + "\\\""] {
            run(format!("c. 1 IN TXT \"{body}\" \"tail\"\n").as_bytes());
            run(format!("c. 1 IN TXT {body} tail\n").as_bytes());
            run(format!("c. 1 IN HINFO {body} \"{body}\"\n").as_bytes());
            run(format!("c. 1 IN HINFO \"{body}\"\n").as_bytes());
        }
    }
    for n in [62usize, 63, 64, 65] {
        for l in [rep("l", n), rep("\\108", n), rep("\\.", n)] {
            run(format!("{l}.example. 1 IN NS {l}.example.\n").as_bytes());
            run(format!("$ORIGIN example.\n{l} 1 IN MX 1 {l}\n").as_bytes());
            run(format!("$ORIGIN {l}\n").as_bytes());
        }
    }
    let l63 = rep("a", 63);
    for last in [58usize, 59, 60, 61, 62, 63] {
        // 3 x 64 + (1 + last) + 1 octets of wire form: 255 when last = 61
        let name = format!("{l63}.{l63}.{l63}.{}", rep("b", last));
        for t in [format!("{name}. 1 IN NS {name}.\n"), format!("$ORIGIN {name}.\n@ 1 IN NS @\n"), format!("$ORIGIN {l63}.{}.\n{l63}.{l63} 1 IN NS {l63}.{l63}\n", rep("b", last)),
            format!("$ORIGIN {l63}.{}.\nx 1 IN SOA {l63}.{l63} {l63}.{l63} 1 2 3 4 5\n", rep("b", last)), format!("$ORIGIN {l63}.{l63}.\n$INCLUDE f {l63}.{}\n$ORIGIN {l63}.{}\n@ 1 IN CNAME @\n", rep("b", last), rep("b", last)),
            format!("x. 1 CH A {name}. 1\n"), format!("x. 1 IN MINFO {name}. {name}.\n"), format!("x. 1 IN SRV 1 2 3 {name}.\n"),
            format!("{}. 1 IN NS {}\n", rep("a.", 126 + last - 60), rep("a.", 126 + last - 60))] {
            run(t.as_bytes());
        }
    }
}

// ------------------------------------------------------------------------------ universe (D)

const BASES: [&str; 4] = [
    "$ORIGIN quandary.test.\n$TTL 86400\n@   IN SOA ns1 admin (\n    123     ; SERIAL\n    3600    ; REFRESH\n    900     ; RETRY\n    86400   ; EXPIRE\n    3600 )  ; MINIMUM\n    IN NS ns1\nns1 IN A 127.0.0.1\n    IN AAAA ::1\n",
    "a.example. 3600 IN A \\# 4 01020304\nb.example. IN 60 TYPE65280 \\# 3 abcdef\n CLASS65280 TYPE1 \\# 0\nc.example. 5 CH A ch.example. 0123\n TXT \"q\\\"uo;ted\" un\\032quoted \\# ( \"multi\"\n \"line\" ) ; comment\nd.example. MX \\# 3 000a00\n",
    "$TTL 5\n$ORIGIN Example.\n@ IN NS ns\nwww 10 IN CNAME @\nmail IN MX 10 mail\n HINFO \"PDP-11\" UNIX\n MINFO r e\n_s._tcp SRV 0 1 443 www\nw WKS 10.0.0.1 TCP 25 80\n$INCLUDE \"other file\" sub\n$ORIGIN sub\np PTR \\# 5 0161016200\ne\\.f\\046g 7 TXT \\# 3 026869\n",
    "a.\tIN\t1\tA\t1.2.3.4\r\n\tAAAA\t::\r\n; c\r\n\r\nb. TYPE99 \\# 1 ff\r\n. 0 HS TXT (\r\n\ta ) \r\n. SOA . . 0 0 0 0 0",
];
const MUT_ALPHABET: [u8; 18] = [b'(', b')', b'"', b'\\', b';', b'\n', b'\r', b' ', b'\t', b'$', b'@', b'.', b'#', 0x00, 0xff, b'0', b'9', b'a'];

fn universe_d() {
    for base in BASES {
        let b = base.as_bytes();
        run(b);
        for i in 0..b.len() { run(&b[..i]); }
        for i in 0..b.len() {
            let mut t = b.to_vec();
            t.remove(i);
            run(&t);
        }
        for i in 0..b.len() {
            for s in MUT_ALPHABET {
                if b[i] != s {
                    let mut t = b.to_vec();
                    t[i] = s;
                    run(&t);
                }
            }
        }
        for i in 0..=b.len() {
            for s in MUT_ALPHABET {
                let mut t = b.to_vec();
                t.insert(i, s);
                run(&t);
            }
        }
    }
}

// ------------------------------------------------------------------------------ universe (E)

const SMALL_ALPHABET: [u8; 20] = [b'(', b')', b'"', b'\\', b';', b'\n', b'\r', b' ', b'\t', b'$', b'@', b'.', b'#', 0x00, 0xff, 0x80, b'0', b'1', b'a', b'A'];
const TOKENS: [&str; 16] = ["a.", "@", "IN", "A", "1", "1.2.3.4", "\\#", "TXT", "(", ")", "\n", "\"", ";", "$ORIGIN", "NULL", "0"];

fn universe_e() {
    run(b"");
    for a in SMALL_ALPHABET {
        run(&[a]);
        for b in SMALL_ALPHABET {
            run(&[a, b]);
            for c in SMALL_ALPHABET { run(&[a, b, c]); }
        }
    }
    let n = TOKENS.len();
    for len in 1..=4u32 {
        for code in 0..n.pow(len) {
            let (mut c, mut text) = (code, String::new());
            for k in 0..len {
                if k > 0 { text.push(' '); }
                text.push_str(TOKENS[c % n]);
                c /= n;
            }
            run(text.as_bytes());
            // the same soup after a record that sets owner, TTL, class and origin context
            run(format!("$ORIGIN o.\np 1 IN A 1.2.3.4\n{text}\n").as_bytes());
        }
    }
}

// ------------------------------------------------------------------------------ universe (F)

const FLAKY_TEXTS: [&str; 2] = [
    "a.example. 3600 IN A 192.0.2.1\nb.example. 3600 IN A 192.0.2.2\nc.example. 3600 IN TXT \"c\"\n",
    "$ORIGIN example.\n\n; comment\n@ 60 IN NS ns\n\n  MX 10 (\n mail )\nns A 1.2.3.4\n\nmail AAAA ::1",
];

fn universe_f() {
    let texts: Vec<&str> = FLAKY_TEXTS.iter().copied().chain(BASES.iter().copied().take(3)).collect();
    for text in texts {
        let text = text.as_bytes();
        for (read_as, chunk) in [("1 octet per read()", 1usize), ("7 octets per read()", 7), ("one line per read()", 0)] {
            for iterator in ["Parser", "Parser::records_only"] {
                let run_one = |fail_at: usize| -> usize {
                    let calls = std::cell::Cell::new(0);
                    let r = catch_unwind(AssertUnwindSafe(|| {
                        let p = Parser::new(Flaky { data: text, chunk, fail_at, calls: &calls });
                        if iterator == "Parser" {
                            drain(p, |line| match &line.content { LineContent::Record(rr) => Some(rr), LineContent::Include(_) => None })
                        } else {
                            drain(p.records_only(), |line| Some(&line.record))
                        }
                    }));
                    let input = || (Input { text: show(text, None), octets: text.len(), read_as, iterator }, ("read() call failing once with ErrorKind::Other, then continuing", fail_at));
                    match r {
                        Err(_) => fail("[C24] zone-file parser panicked", &input(), &"panic", &"records, then at most one error, then the end"),
                        Ok(Err((what, got, want))) => fail(&format!("[C24] {what}"), &input(), &got, &want),
                        Ok(Ok(())) => {}
                    }
                    CASES.fetch_add(1, std::sync::atomic::Ordering::Relaxed);
                    calls.get()
                };
                let undisturbed = run_one(usize::MAX);
                for k in 0..=undisturbed { run_one(k); }
            }
        }
    }
}

fn main() {
    std::panic::set_hook(Box::new(|_| {}));
    if std::env::var_os("BND_ZF_STATS").is_some() { let _ = HIST.set(Default::default()); }
    universe_a();
    universe_b();
    universe_c();
    universe_d();
    universe_e();
    universe_f();
    if let Some(h) = HIST.get() { println!("note: yielded (class, type) -> count: {:?}", h.lock().unwrap()); }
    let cases = CASES.load(std::sync::atomic::Ordering::Relaxed);
    println!("note: {} records checked, {} runs ended in an error, {} RDATA texts in the pool",
        RECORDS.load(std::sync::atomic::Ordering::Relaxed), ERRORS.load(std::sync::atomic::Ordering::Relaxed), RDATAS.len());
    done(cases, "zone_file::Parser and Parser::records_only, each text read whole / 1 / 7 octets per read(): \
(A) 2 contexts x 9 class tokens x 62 type tokens (20 mnemonics, lower-case, TYPEnnn known/NULL/OPT/TSIG/unknown/malformed) x 153 pooled RDATA texts \
(presentation forms of all supported types + RFC 3597 generic forms incl. `\\# 0`, wrong lengths, malformed-for-type); \
(B) 28 preambles ($ORIGIN/$TTL/$INCLUDE/previous record) x 16 owners x 20 TTL/class orders x 11 records (+ blank-owner continuation); \
(C) TXT RDATA of 65535/65536/65537 octets (+-1, 4 shapes), generic `\\# 65534..65537`, 43 field positions x runs of 65535/65536/65537/70000, WKS with 65534..65537 ports, \
character strings 254..257, labels 62..65, names 252..257 octets; \
(D) 4 multi-record zone texts: every prefix, every 1-byte deletion, every 1-byte substitution and insertion from 18 symbols; \
(E) all byte strings of length <= 3 over 20 symbols, all <= 4-token sequences over 16 tokens (bare and after a context-setting record); \
(F) 5 multi-line zone texts read 1 / 7 octets / one line per read() from a stream whose k-th read() call fails once (ErrorKind::Other) and then continues, every k <= number of read() calls of the undisturbed parse")
}
