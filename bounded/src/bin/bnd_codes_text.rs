//! Bounded (in fact exhaustive) stand-in for the text clauses of C17: for ALL 65536 values of
//! TYPE, CLASS, QTYPE and QCLASS
//!  * Display -> FromStr gives the value back;
//!  * every mnemonic parses in EVERY upper/lower-case spelling to the same value.  Mnemonics are
//!    (a) whatever the crate itself prints for a value instead of the generic form and (b) the
//!    RFC names (RFC 1035 3.2.2-3.2.5, RFC 3596, RFC 2782, RFC 6891, RFC 8945, RFC 1995, RFC 2136)
//!    that the crate accepts in upper case - these must also denote the RFC value.  The crate is
//!    not required to know every RFC name;
//!  * the RFC 3597 forms TYPEnnn (TYPE, QTYPE) and CLASSnnn (CLASS, QCLASS) parse to nnn.
//! Not constrained: which strings are rejected, the case of the TYPE/CLASS prefix, error texts.
//! (Opcode/RCODE conversions: complete Kani harnesses in kani/codes.rs.)
use quandary::class::Class;
use quandary::message::{Qclass, Qtype};
use quandary::rr::Type;
use std::fmt::{Debug, Display};
use std::panic::{catch_unwind, AssertUnwindSafe};
use std::str::FromStr;
use vq_bounded::{done, fail};

const TYPE_NAMES: [(&str, u16); 20] = [
    ("A", 1), ("NS", 2), ("MD", 3), ("MF", 4), ("CNAME", 5), ("SOA", 6), ("MB", 7), ("MG", 8), ("MR", 9), ("NULL", 10),
    ("WKS", 11), ("PTR", 12), ("HINFO", 13), ("MINFO", 14), ("MX", 15), ("TXT", 16), ("AAAA", 28), ("SRV", 33), ("OPT", 41), ("TSIG", 250),
];
const QTYPE_ONLY_NAMES: [(&str, u16); 6] = [("IXFR", 251), ("AXFR", 252), ("MAILB", 253), ("MAILA", 254), ("*", 255), ("ANY", 255)];
const CLASS_NAMES: [(&str, u16); 4] = [("IN", 1), ("CS", 2), ("CH", 3), ("HS", 4)];
const QCLASS_ONLY_NAMES: [(&str, u16); 3] = [("NONE", 254), ("*", 255), ("ANY", 255)];

fn parse<T: FromStr>(kind: &str, text: &str) -> Option<T> {
    match catch_unwind(AssertUnwindSafe(|| text.parse::<T>())) {
        Ok(r) => r.ok(),
        Err(_) => fail(&format!("parsing a {kind} panicked"), &text, &"panic", &"a value or an error"),
    }
}

/// All spellings of `word` with each ASCII letter in upper or lower case.
fn spellings(word: &str) -> Vec<String> {
    let mut out = vec![String::new()];
    for c in word.chars() {
        let (lo, up) = (c.to_ascii_lowercase(), c.to_ascii_uppercase());
        let mut next = Vec::new();
        for s in &out {
            next.push(format!("{s}{lo}"));
            if up != lo { next.push(format!("{s}{up}")); }
        }
        out = next;
    }
    out
}

fn check_kind<T>(kind: &str, generic_prefix: &str, rfc_names: &[(&str, u16)], cases: &mut u64)
where T: From<u16> + Into<u16> + Copy + Display + FromStr + PartialEq + Debug {
    for v in 0..=0xffffu16 {
        let value = T::from(v);
        let text = match catch_unwind(AssertUnwindSafe(|| value.to_string())) {
            Ok(t) => t,
            Err(_) => fail(&format!("rendering a {kind} panicked"), &v, &"panic", &"text"),
        };
        let back: Option<u16> = parse::<T>(kind, &text).map(Into::into);
        if back != Some(v) { fail(&format!("{kind}: Display -> FromStr does not give the value back"), &(v, &text), &back, &Some(v)); }
        *cases += 1;
        let generic = format!("{generic_prefix}{v}");
        let back: Option<u16> = parse::<T>(kind, &generic).map(Into::into);
        if back != Some(v) { fail(&format!("{kind}: the RFC 3597 form does not parse to its value"), &generic, &back, &Some(v)); }
        *cases += 1;
        if text != generic {
            // a mnemonic of the crate's own: every spelling parses to the value
            for s in spellings(&text) {
                let got: Option<u16> = parse::<T>(kind, &s).map(Into::into);
                if got != Some(v) { fail(&format!("{kind}: a mnemonic does not parse case-insensitively"), &s, &got, &Some(v)); }
                *cases += 1;
            }
        }
    }
    for (name, v) in rfc_names {
        if let Some(got) = parse::<T>(kind, name).map(Into::<u16>::into) {
            if got != *v { fail(&format!("{kind}: an RFC mnemonic parses to a different value"), name, &got, v); }
            for s in spellings(name) {
                let got: Option<u16> = parse::<T>(kind, &s).map(Into::into);
                if got != Some(*v) { fail(&format!("{kind}: a mnemonic does not parse case-insensitively"), &s, &got, &Some(*v)); }
                *cases += 1;
            }
        }
    }
}

fn main() {
    let mut cases = 0u64;
    check_kind::<Type>("TYPE", "TYPE", &TYPE_NAMES, &mut cases);
    check_kind::<Class>("CLASS", "CLASS", &CLASS_NAMES, &mut cases);
    let qtypes: Vec<(&str, u16)> = TYPE_NAMES.iter().chain(QTYPE_ONLY_NAMES.iter()).copied().collect();
    check_kind::<Qtype>("QTYPE", "TYPE", &qtypes, &mut cases);
    let qclasses: Vec<(&str, u16)> = CLASS_NAMES.iter().chain(QCLASS_ONLY_NAMES.iter()).copied().collect();
    check_kind::<Qclass>("QCLASS", "CLASS", &qclasses, &mut cases);
    done(cases, "exhaustive: all 65536 values of TYPE, CLASS, QTYPE, QCLASS (Display->FromStr, TYPEnnn/CLASSnnn); all 2^n case spellings of every mnemonic the crate prints or accepts (20 type, 6 qtype, 4 class, 3 qclass RFC names)")
}
