//! Bounded stand-in for C29 (worker pools run every accepted task and shut down cleanly):
//! sleep-/gate-sequenced scenarios on the PUBLIC API of the real `quandary::thread`
//! (ThreadGroup / ThreadPool).  Only statements of the property text are asserted:
//!   * a task accepted by a pool (submit / submit_or_spawn returned Ok) has run exactly once when
//!     `ThreadGroup::await_shutdown` returns (and never runs a second time),
//!   * a submit CALLED after shut_down() has RETURNED is rejected, and a rejected task never runs,
//!   * await_shutdown does not return while a thread of the group is provably still inside its
//!     task (the task waits on a gate that only this program opens),
//!   * no deadlock: every call that must make progress returns within WATCHDOG.
//! Timing is never asserted.  When an instance does not reach its intended intermediate state
//! within its margin it is counted as skipped (its property checks are still made, they hold in
//! every state).
use quandary::thread::{Error, ThreadGroup, ThreadPool};
use std::sync::atomic::{AtomicBool, AtomicU64, AtomicUsize, Ordering::SeqCst};
use std::sync::{mpsc, Arc, Condvar, Mutex};
use std::thread;
use std::time::{Duration, Instant};
use vq_bounded::{done, fail};

/// A call that the property obliges to return is reported as a deadlock after this long.
const WATCHDOG: Duration = Duration::from_secs(60);
/// Margin for reaching an intermediate state (a task has started, a thread is about to call
/// submit); the instance is skipped when it is exceeded.
const SETUP: Duration = Duration::from_secs(5);
/// Margin after which a call is regarded as "blocked" / "has not returned".
const SETTLE: Duration = Duration::from_millis(80);
/// How long a rejected task is given to (wrongly) run before the final check.
const GRACE: Duration = Duration::from_millis(150);

// ---------------------------------------------------------------------------------- watchdog

static GUARDS: Mutex<Vec<(u64, Instant, String, String)>> = Mutex::new(Vec::new());
static NEXT_GUARD: AtomicU64 = AtomicU64::new(0);

/// Runs `f`, which the property obliges to return; the watchdog thread reports a deadlock if
/// it has not returned after WATCHDOG.
fn guarded<T>(what: &str, input: &str, f: impl FnOnce() -> T) -> T {
    let id = NEXT_GUARD.fetch_add(1, SeqCst);
    GUARDS.lock().unwrap().push((id, Instant::now() + WATCHDOG, what.to_owned(), input.to_owned()));
    let r = f();
    GUARDS.lock().unwrap().retain(|g| g.0 != id);
    r
}

fn start_watchdog() {
    thread::spawn(|| loop {
        thread::sleep(Duration::from_millis(100));
        let now = Instant::now();
        let guards = GUARDS.lock().unwrap();
        if let Some(g) = guards.iter().find(|g| g.1 <= now) {
            fail(
                &format!("[C29] deadlock: {} has not returned after {:?}", g.2, WATCHDOG),
                &g.3,
                &"still blocked",
                &"returns (no interleaving deadlocks)",
            );
        }
    });
}

/// Receives a value that the property obliges to arrive.
fn expect<T>(rx: &mpsc::Receiver<T>, what: &str, input: &str) -> T {
    match rx.recv_timeout(WATCHDOG) {
        Ok(v) => v,
        Err(_) => fail(
            &format!("[C29] deadlock: {} has not returned after {:?}", what, WATCHDOG),
            &input,
            &"still blocked",
            &"returns (no interleaving deadlocks)",
        ),
    }
}

// ---------------------------------------------------------------------------------- helpers

#[derive(Clone)]
struct Gate(Arc<(Mutex<bool>, Condvar)>);

impl Gate {
    fn new() -> Self {
        Gate(Arc::new((Mutex::new(false), Condvar::new())))
    }
    fn open(&self) {
        *self.0 .0.lock().unwrap() = true;
        self.0 .1.notify_all();
    }
    fn wait(&self) {
        let g = self.0 .0.lock().unwrap();
        let _g = self.0 .1.wait_while(g, |open| !*open).unwrap();
    }
}

#[derive(Default)]
struct Cell {
    runs: AtomicUsize,
    finished: AtomicBool,
}

#[derive(Debug, Clone, PartialEq)]
enum Res {
    Accepted,
    Rejected,
    Io(String),
}

fn res(r: Result<(), Error>) -> Res {
    match r {
        Ok(()) => Res::Accepted,
        Err(Error::ShuttingDown) => Res::Rejected,
        Err(Error::Io(e)) => Res::Io(e.to_string()),
    }
}

/// A task that counts its run, signals that it has started, waits for its gate, and records
/// "finished" right before returning.
fn gated_task(cell: &Arc<Cell>, gate: &Gate, started: mpsc::Sender<()>) -> impl FnOnce() + Send + 'static {
    let (cell, gate) = (cell.clone(), gate.clone());
    move || {
        cell.runs.fetch_add(1, SeqCst);
        let _ = started.send(());
        gate.wait();
        cell.finished.store(true, SeqCst);
    }
}

fn quick_task(cell: &Arc<Cell>) -> impl FnOnce() + Send + 'static {
    let cell = cell.clone();
    move || {
        cell.runs.fetch_add(1, SeqCst);
        cell.finished.store(true, SeqCst);
    }
}

#[derive(Default)]
struct Stats {
    cases: u64,
    ran: u64,
    skipped: u64,
    /// (instance, task, number of runs it must have at the very end)
    finals: Vec<(String, Arc<Cell>, usize)>,
}

impl Stats {
    /// `accepted` task: must have run exactly once now (await_shutdown has returned).
    fn check_accepted(&mut self, input: &str, which: &str, cell: &Arc<Cell>) {
        self.cases += 1;
        let n = cell.runs.load(SeqCst);
        if n != 1 {
            fail(
                &format!("[C29] {which} was accepted (Ok) but had run {n} times when await_shutdown returned"),
                &input,
                &n,
                &1usize,
            );
        }
        self.finals.push((format!("{input}; task: {which} (accepted)"), cell.clone(), 1));
    }
    fn note_rejected(&mut self, input: &str, which: &str, cell: &Arc<Cell>) {
        self.cases += 1;
        self.finals.push((format!("{input}; task: {which} (rejected with ShuttingDown)"), cell.clone(), 0));
    }
    fn by_result(&mut self, input: &str, which: &str, r: &Res, cell: &Arc<Cell>) {
        match r {
            Res::Accepted => self.check_accepted(input, which, cell),
            Res::Rejected => self.note_rejected(input, which, cell),
            Res::Io(_) => {}
        }
    }
    fn final_checks(&mut self) {
        thread::sleep(GRACE);
        for (input, cell, want) in &self.finals {
            self.cases += 1;
            let n = cell.runs.load(SeqCst);
            if n != *want {
                fail("[C29] number of runs of a task at the end (accepted: exactly once; rejected: never)", input, &n, want);
            }
        }
    }
}

#[derive(Debug, Clone, Copy, PartialEq)]
enum Mode {
    /// ThreadGroup::shut_down
    Group,
    /// ThreadPool::shut_down begins the shutdown, ThreadGroup::shut_down follows later
    PoolThenGroup,
}

fn begin_shutdown(mode: Mode, group: &Arc<ThreadGroup>, pool: &Arc<ThreadPool>, input: &str) {
    match mode {
        Mode::Group => guarded("ThreadGroup::shut_down()", input, || group.shut_down()),
        Mode::PoolThenGroup => guarded("ThreadPool::shut_down()", input, || pool.shut_down()),
    }
}

/// Abandons an instance: lets everything run out without waiting for it.
fn abandon(st: &mut Stats, group: &Arc<ThreadGroup>, gates: &[Gate]) {
    st.skipped += 1;
    for g in gates {
        g.open();
    }
    let group = group.clone();
    thread::spawn(move || group.shut_down());
}

#[derive(Debug, Clone, Copy, PartialEq)]
enum Aux {
    None,
    NonLingering,
    Lingering,
}

/// Occupies all `p` permanent workers (and an auxiliary worker if asked for) with gated tasks.
/// Returns None if that state was not reached within the margin.
fn occupy(
    group: &Arc<ThreadGroup>,
    pool: &Arc<ThreadPool>,
    p: usize,
    aux: Aux,
    input: &str,
) -> Result<(Vec<Gate>, Vec<Arc<Cell>>), Vec<Gate>> {
    let _ = group;
    let mut gates = Vec::new();
    let mut cells = Vec::new();
    let n = p + if aux == Aux::None { 0 } else { 1 };
    for i in 0..n {
        let (gate, cell) = (Gate::new(), Arc::new(Cell::default()));
        let (tx, rx) = mpsc::channel();
        let task = gated_task(&cell, &gate, tx);
        gates.push(gate);
        let r = if i < p {
            // a permanent worker exists that is not yet occupied: submit must return
            guarded("ThreadPool::submit() with an unoccupied permanent worker", input, || res(pool.submit(task)))
        } else {
            guarded("ThreadPool::submit_or_spawn()", input, || res(pool.submit_or_spawn(task)))
        };
        if r != Res::Accepted || rx.recv_timeout(SETUP).is_err() {
            return Err(gates);
        }
        cells.push(cell);
    }
    Ok((gates, cells))
}

fn linger_of(aux: Aux) -> Duration {
    if aux == Aux::Lingering { Duration::from_millis(40) } else { Duration::ZERO }
}

// ------------------------------------------------------------------------------ S1

/// S1: all workers busy -> a thread blocks in submit() -> shutdown begins -> a worker finishes.
fn s1(st: &mut Stats, p: usize, aux: Aux, mode: Mode, release_all_at_once: bool) {
    let input = format!(
        "S1 submit() blocked across shutdown: pool(permanent_workers={p}, linger_timeout={:?}), every permanent worker \
         busy with a gated task, busy auxiliary worker: {aux:?}; a thread calls submit() and blocks; shutdown begins by \
         {mode:?}; then {} released; then all gates released; await_shutdown",
        linger_of(aux),
        if release_all_at_once { "all gates are" } else { "the gate of the first busy worker is" }
    );
    let group = ThreadGroup::new();
    let pool = match group.start_pool(Some("s1".to_owned()), p, linger_of(aux)) {
        Ok(pool) => pool,
        Err(_) => return st.skipped += 1,
    };
    let (gates, cells) = match occupy(&group, &pool, p, aux, &input) {
        Ok(x) => x,
        Err(gates) => return abandon(st, &group, &gates),
    };

    let calling = Arc::new(AtomicBool::new(false));
    let cell = Arc::new(Cell::default());
    let (rtx, rrx) = mpsc::channel();
    {
        let (pool, calling, task) = (pool.clone(), calling.clone(), quick_task(&cell));
        thread::spawn(move || {
            calling.store(true, SeqCst);
            let r = res(pool.submit(task));
            let _ = rtx.send(r);
        });
    }
    let t0 = Instant::now();
    while !calling.load(SeqCst) {
        if t0.elapsed() > SETUP {
            return abandon(st, &group, &gates);
        }
        thread::sleep(Duration::from_millis(1));
    }
    thread::sleep(SETTLE);
    let mut result = rrx.try_recv().ok();
    let reached = result.is_none(); // the submitter is (as far as can be observed) blocked

    begin_shutdown(mode, &group, &pool, &input);
    if release_all_at_once {
        gates.iter().for_each(Gate::open);
    } else if let Some(g) = gates.first() {
        g.open();
    }
    if result.is_none() {
        result = rrx.recv_timeout(Duration::from_millis(300)).ok();
    }
    gates.iter().for_each(Gate::open);
    if mode == Mode::PoolThenGroup {
        guarded("ThreadGroup::shut_down()", &input, || group.shut_down());
    }
    guarded("ThreadGroup::await_shutdown() (all tasks have been released)", &input, || group.await_shutdown());
    let runs = cell.runs.load(SeqCst);
    for (i, c) in cells.iter().enumerate() {
        st.check_accepted(&input, &format!("gated task {i} (submitted before shutdown)"), c);
    }
    let result = match result {
        Some(r) => r,
        None => expect(&rrx, "submit() that was blocked when shutdown began (await_shutdown has returned)", &input),
    };
    st.cases += 1;
    match &result {
        Res::Accepted if runs != 1 => fail(
            "[C29] a submit() that was blocked while shutdown began returned Ok, but its task had not run exactly once \
             when await_shutdown returned",
            &input,
            &format!("submit() -> Ok, runs of the task at return of await_shutdown = {runs}"),
            &"Err(ShuttingDown), or Ok with runs = 1",
        ),
        r => st.by_result(&input, "task of the blocked submit()", r, &cell),
    }
    if reached { st.ran += 1 } else { st.skipped += 1 }
}

// ------------------------------------------------------------------------------ S2

/// S2a: p+3 gated tasks through submit_or_spawn, released in a permuted order, half of them only
/// after shutdown has begun.
fn s2_gated(st: &mut Stats, p: usize, linger: Duration, order: usize, mode: Mode) {
    let n = p + 3;
    let input = format!(
        "S2 accepted tasks run exactly once: pool(permanent_workers={p}, linger_timeout={linger:?}), {n} gated tasks \
         through submit_or_spawn, released in permutation #{order}, the first half before {mode:?} shutdown and the rest after"
    );
    let group = ThreadGroup::new();
    let pool = match group.start_pool(Some("s2".to_owned()), p, linger) {
        Ok(pool) => pool,
        Err(_) => return st.skipped += 1,
    };
    let mut gates = Vec::new();
    let mut cells = Vec::new();
    for _ in 0..n {
        let (gate, cell) = (Gate::new(), Arc::new(Cell::default()));
        let (tx, _rx) = mpsc::channel();
        let task = gated_task(&cell, &gate, tx);
        gates.push(gate);
        let r = guarded("ThreadPool::submit_or_spawn()", &input, || res(pool.submit_or_spawn(task)));
        if r != Res::Accepted {
            return abandon(st, &group, &gates);
        }
        cells.push(cell);
    }
    let mut perm: Vec<usize> = (0..n).collect();
    match order % 3 {
        0 => perm.reverse(),
        1 => perm.rotate_left(n / 2),
        _ => perm.sort_by_key(|i| (i % 2, n - i)),
    }
    for &i in &perm[..n / 2] {
        gates[i].open();
    }
    begin_shutdown(mode, &group, &pool, &input);
    for &i in &perm[n / 2..] {
        gates[i].open();
    }
    if mode == Mode::PoolThenGroup {
        guarded("ThreadGroup::shut_down()", &input, || group.shut_down());
    }
    guarded("ThreadGroup::await_shutdown() (all tasks have been released)", &input, || group.await_shutdown());
    for (i, c) in cells.iter().enumerate() {
        st.check_accepted(&input, &format!("gated task {i}"), c);
    }
    st.ran += 1;
}

/// S2b: `subs` threads push `k` short tasks each through the blocking submit() (more tasks than
/// workers); shutdown either after all of them returned or concurrently.
fn s2_submitters(st: &mut Stats, p: usize, subs: usize, k: usize, concurrent: Option<Duration>) {
    let input = format!(
        "S2 accepted tasks run exactly once: pool(permanent_workers={p}, linger_timeout=0), {subs} threads x {k} short \
         tasks through submit(); ThreadGroup::shut_down {}",
        match concurrent {
            None => "after every submit() has returned".to_owned(),
            Some(d) => format!("concurrently, {d:?} after the submitters were started (a submitter stops at its first Err)"),
        }
    );
    let group = ThreadGroup::new();
    let pool = match group.start_pool(Some("s2".to_owned()), p, Duration::ZERO) {
        Ok(pool) => pool,
        Err(_) => return st.skipped += 1,
    };
    let (tx, rx) = mpsc::channel();
    for s in 0..subs {
        let (pool, tx) = (pool.clone(), tx.clone());
        thread::spawn(move || {
            let mut out = Vec::new();
            for j in 0..k {
                let cell = Arc::new(Cell::default());
                let c = cell.clone();
                let r = res(pool.submit(move || {
                    if (s + j) % 3 == 0 {
                        thread::yield_now();
                    }
                    c.runs.fetch_add(1, SeqCst);
                }));
                let stop = r != Res::Accepted;
                out.push((format!("task {j} of submitter {s}"), r, cell));
                if stop {
                    break;
                }
            }
            let _ = tx.send(out);
        });
    }
    let mut results = Vec::new();
    if let Some(d) = concurrent {
        thread::sleep(d);
        guarded("ThreadGroup::shut_down()", &input, || group.shut_down());
    }
    // Workers exist and tasks are finite (or shutdown has begun): every submit() must return.
    for _ in 0..subs {
        results.extend(expect(&rx, "submit() of short tasks to a pool with permanent workers", &input));
    }
    if concurrent.is_none() {
        guarded("ThreadGroup::shut_down()", &input, || group.shut_down());
    }
    guarded("ThreadGroup::await_shutdown()", &input, || group.await_shutdown());
    for (which, r, cell) in &results {
        st.by_result(&input, which, r, cell);
    }
    st.ran += 1;
}

// ------------------------------------------------------------------------------ S3

/// S3: submit / submit_or_spawn called after shut_down() has returned are rejected and never run.
fn s3(st: &mut Stats, p: usize, linger: Duration, mode: Mode, warm: bool) {
    let input = format!(
        "S3 submission after shutdown: pool(permanent_workers={p}, linger_timeout={linger:?}){}; {mode:?} shut_down() \
         returns; then submit() and submit_or_spawn() are called",
        if warm { ", one task completed on an auxiliary worker before" } else { "" }
    );
    let group = ThreadGroup::new();
    let pool = match group.start_pool(Some("s3".to_owned()), p, linger) {
        Ok(pool) => pool,
        Err(_) => return st.skipped += 1,
    };
    let warm_cell = Arc::new(Cell::default());
    let mut warm_res = Res::Rejected;
    if warm {
        // occupy nothing: with p = 0 (or workers not yet waiting) this starts an auxiliary worker
        warm_res = guarded("ThreadPool::submit_or_spawn()", &input, || res(pool.submit_or_spawn(quick_task(&warm_cell))));
        if warm_res != Res::Accepted {
            return abandon(st, &group, &[]);
        }
    }
    begin_shutdown(mode, &group, &pool, &input);
    let (c1, c2) = (Arc::new(Cell::default()), Arc::new(Cell::default()));
    let r1 = guarded("ThreadPool::submit() called after shut_down() returned", &input, || res(pool.submit(quick_task(&c1))));
    let r2 = guarded("ThreadPool::submit_or_spawn() called after shut_down() returned", &input, || {
        res(pool.submit_or_spawn(quick_task(&c2)))
    });
    for (name, r) in [("submit()", &r1), ("submit_or_spawn()", &r2)] {
        st.cases += 1;
        if *r == Res::Accepted {
            fail(
                &format!("[C29] {name} called after shut_down() had returned was accepted"),
                &input,
                &"Ok(())",
                &"Err(ShuttingDown)",
            );
        }
    }
    if mode == Mode::PoolThenGroup {
        guarded("ThreadGroup::shut_down()", &input, || group.shut_down());
    }
    guarded("ThreadGroup::await_shutdown()", &input, || group.await_shutdown());
    if warm {
        st.by_result(&input, "task submitted before shutdown", &warm_res, &warm_cell);
    }
    st.by_result(&input, "task of submit() after shutdown", &r1, &c1);
    st.by_result(&input, "task of submit_or_spawn() after shutdown", &r2, &c2);
    st.ran += 1;
}

// ------------------------------------------------------------------------------ S4

#[derive(Debug, Clone, Copy, PartialEq)]
enum Holder {
    Oneshot,
    Respawnable,
    Permanent1,
    Permanent2,
    AuxNonLingering,
    AuxLingering,
}

/// S4: a thread of the group is inside a gated task when shutdown begins: await_shutdown must not
/// return before the gate is opened, and must return afterwards.
fn s4(st: &mut Stats, holder: Holder) {
    let input = format!(
        "S4 await_shutdown waits for every thread: a gated task runs on {holder:?}; it has started; \
         ThreadGroup::shut_down(); await_shutdown() is called while the gate is still closed; then the gate is opened"
    );
    let group = ThreadGroup::new();
    let (gate, cell) = (Gate::new(), Arc::new(Cell::default()));
    let (tx, rx) = mpsc::channel();
    let started = match holder {
        Holder::Oneshot => res(group.start_oneshot(Some("s4".to_owned()), gated_task(&cell, &gate, tx))),
        Holder::Respawnable => {
            let (cell, gate, tx) = (cell.clone(), gate.clone(), Mutex::new(tx));
            res(group.start_respawnable(Some("s4".to_owned()), move || {
                cell.runs.fetch_add(1, SeqCst);
                let _ = tx.lock().unwrap().send(());
                gate.wait();
                cell.finished.store(true, SeqCst);
            }))
        }
        _ => {
            let (p, linger) = match holder {
                Holder::Permanent1 => (1, Duration::ZERO),
                Holder::Permanent2 => (2, Duration::ZERO),
                Holder::AuxNonLingering => (0, Duration::ZERO),
                _ => (0, Duration::from_millis(40)),
            };
            match group.start_pool(Some("s4".to_owned()), p, linger) {
                Err(_) => return st.skipped += 1,
                Ok(pool) => {
                    let task = gated_task(&cell, &gate, tx);
                    if p > 0 {
                        guarded("ThreadPool::submit() with an unoccupied permanent worker", &input, || res(pool.submit(task)))
                    } else {
                        guarded("ThreadPool::submit_or_spawn()", &input, || res(pool.submit_or_spawn(task)))
                    }
                }
            }
        }
    };
    if started != Res::Accepted || rx.recv_timeout(SETUP).is_err() {
        return abandon(st, &group, &[gate]);
    }
    guarded("ThreadGroup::shut_down()", &input, || group.shut_down());
    let (atx, arx) = mpsc::channel();
    {
        let group = group.clone();
        thread::spawn(move || {
            group.await_shutdown();
            let _ = atx.send(());
        });
    }
    // The task has started and cannot pass its gate before we open it: its thread is alive.
    st.cases += 1;
    if arx.recv_timeout(SETTLE).is_ok() {
        fail(
            "[C29] await_shutdown returned while a thread of the group was still inside its task (gate not yet opened)",
            &input,
            &format!("await_shutdown returned; task finished = {}", cell.finished.load(SeqCst)),
            &"await_shutdown blocks until the task's thread has exited",
        );
    }
    gate.open();
    expect(&arx, "ThreadGroup::await_shutdown() (the only running task has been released)", &input);
    st.cases += 1;
    if !cell.finished.load(SeqCst) {
        fail(
            "[C29] await_shutdown returned before the released task had finished (its thread cannot have exited)",
            &input,
            &"finished = false",
            &"finished = true",
        );
    }
    if holder != Holder::Respawnable {
        st.check_accepted(&input, "the gated task", &cell);
    }
    st.ran += 1;
}

// ------------------------------------------------------------------------------ S5

/// S5: a task is handed to a lingering auxiliary worker at about the moment its linger timeout
/// expires (`delta_us` relative to the end of its previous task + linger timeout).  Nothing about
/// the timing is asserted.  Returns whether task1 was accepted before shutdown was started
/// (Some(true): the worker was still counted as available; Some(false): submit() blocked or was
/// rejected; None: instance skipped) - used only to steer the sweep.
fn s5(st: &mut Stats, linger: Duration, delta_us: i64, spawn_variant: bool) -> Option<bool> {
    let input = format!(
        "S5 hand-over at linger timeout: pool(permanent_workers=0, linger_timeout={linger:?}); submit_or_spawn(task0) \
         starts an auxiliary worker that lingers after task0; {}(task1) is called {delta_us} us relative to \
         (end of task0 + linger_timeout); shortly after: ThreadGroup::shut_down(); await_shutdown()",
        if spawn_variant { "submit_or_spawn" } else { "submit" }
    );
    let group = ThreadGroup::new();
    let pool = match group.start_pool(Some("s5".to_owned()), 0, linger) {
        Ok(pool) => pool,
        Err(_) => {
            st.skipped += 1;
            return None;
        }
    };
    // The submitter of task1 is started first; it is told when task0 ended.
    let c1 = Arc::new(Cell::default());
    let (rtx, rrx) = mpsc::channel();
    let (ttx, trx) = mpsc::channel::<Instant>();
    {
        let (pool, task) = (pool.clone(), quick_task(&c1));
        thread::spawn(move || {
            let Ok(end0) = trx.recv() else { return };
            let base = end0 + linger;
            let target = if delta_us >= 0 {
                base + Duration::from_micros(delta_us as u64)
            } else {
                base.checked_sub(Duration::from_micros((-delta_us) as u64)).unwrap_or(base)
            };
            if let Some(d) = target.checked_duration_since(Instant::now()) {
                if d > Duration::from_millis(2) {
                    thread::sleep(d - Duration::from_millis(2));
                }
            }
            while Instant::now() < target {
                std::hint::spin_loop();
            }
            let r = if spawn_variant { res(pool.submit_or_spawn(task)) } else { res(pool.submit(task)) };
            let _ = rtx.send(r);
        });
    }
    let c0 = Arc::new(Cell::default());
    let (etx, erx) = mpsc::channel();
    let r0 = {
        let c0 = c0.clone();
        guarded("ThreadPool::submit_or_spawn()", &input, || {
            res(pool.submit_or_spawn(move || {
                c0.runs.fetch_add(1, SeqCst);
                let now = Instant::now();
                let _ = ttx.send(now);
                let _ = etx.send(());
            }))
        })
    };
    if r0 != Res::Accepted || erx.recv_timeout(SETUP).is_err() {
        abandon(st, &group, &[]);
        return None;
    }
    // submit() may legitimately block (the worker is gone, there are no permanent workers):
    // shutdown is started regardless and must then release it.
    let mut result = rrx.recv_timeout(linger + Duration::from_millis(8)).ok();
    let before_shutdown = result == Some(Res::Accepted);
    guarded("ThreadGroup::shut_down()", &input, || group.shut_down());
    guarded("ThreadGroup::await_shutdown()", &input, || group.await_shutdown());
    let runs = c1.runs.load(SeqCst);
    st.check_accepted(&input, "task0", &c0);
    if result.is_none() {
        result = Some(expect(&rrx, "submit() (shutdown has completed)", &input));
    }
    let result = result.unwrap();
    st.cases += 1;
    if result == Res::Accepted && runs != 1 {
        fail(
            "[C29] a task handed to the pool around the linger timeout of its auxiliary worker was accepted but had not \
             run exactly once when await_shutdown returned",
            &input,
            &format!("Ok, runs of task1 at return of await_shutdown = {runs}"),
            &"runs = 1",
        );
    }
    st.by_result(&input, "task1", &result, &c1);
    st.ran += 1;
    Some(before_shutdown)
}

// ------------------------------------------------------------------------------ S6

/// S6: threads keep calling submit_or_spawn on two pools without permanent workers while the
/// group, which has many sibling pools, is shut down.
fn s6(st: &mut Stats, npools: usize, linger: Duration, delay: Duration) {
    let input = format!(
        "S6 shutdown concurrent with submit_or_spawn: group with {npools} pools(permanent_workers=0, \
         linger_timeout={linger:?}); two threads loop on submit_or_spawn(short task) on the middle and the last pool \
         until the first Err; ThreadGroup::shut_down() {delay:?} after they were started; await_shutdown()"
    );
    let group = ThreadGroup::new();
    let mut pools = Vec::with_capacity(npools);
    for _ in 0..npools {
        match group.start_pool(Some("s6".to_owned()), 0, linger) {
            Ok(pool) => pools.push(pool),
            Err(_) => return abandon(st, &group, &[]),
        }
    }
    let (tx, rx) = mpsc::channel();
    let go = Gate::new();
    for (s, idx) in [npools / 2, npools - 1].into_iter().enumerate() {
        let (pool, tx, go) = (pools[idx].clone(), tx.clone(), go.clone());
        thread::spawn(move || {
            let mut out = Vec::new();
            go.wait();
            let t = Instant::now();
            for j in 0..4000 {
                if t.elapsed() > Duration::from_millis(100) {
                    break; // safety net only: shut_down comes after about 1 ms
                }
                let cell = Arc::new(Cell::default());
                let r = res(pool.submit_or_spawn(quick_task(&cell)));
                let stop = r != Res::Accepted;
                out.push((format!("task {j} of submitter {s}"), r, cell));
                if stop {
                    break;
                }
            }
            let _ = tx.send(out);
        });
    }
    go.open();
    thread::sleep(delay);
    guarded("ThreadGroup::shut_down() (concurrent with submit_or_spawn)", &input, || group.shut_down());
    let mut results = Vec::new();
    for _ in 0..2 {
        results.extend(expect(&rx, "submit_or_spawn() (shut_down has returned)", &input));
    }
    guarded("ThreadGroup::await_shutdown()", &input, || group.await_shutdown());
    for (which, r, cell) in &results {
        st.by_result(&input, which, r, cell);
    }
    st.ran += 1;
}

// ------------------------------------------------------------------------------ main

fn main() {
    start_watchdog();
    let t0 = Instant::now();
    let mut st = Stats::default();
    let modes = [Mode::Group, Mode::PoolThenGroup];

    // S1: 1 worker first (the shapes in which a stranded task cannot be picked up by anyone).
    for rep in 0..2 {
        for p in [1usize, 0, 2] {
            for aux in [Aux::None, Aux::NonLingering, Aux::Lingering] {
                s1(&mut st, p, aux, modes[(rep + p) % 2], rep == 1 && p == 2);
            }
        }
    }
    // S4
    for _rep in 0..2 {
        for h in [
            Holder::Permanent1,
            Holder::Permanent2,
            Holder::AuxNonLingering,
            Holder::AuxLingering,
            Holder::Oneshot,
            Holder::Respawnable,
        ] {
            s4(&mut st, h);
        }
    }
    // S3
    for p in 0..=2usize {
        for (i, linger) in [Duration::ZERO, Duration::from_millis(30)].into_iter().enumerate() {
            for warm in [false, true] {
                s3(&mut st, p, linger, modes[(p + i + warm as usize) % 2], warm);
            }
        }
    }
    // S2
    for p in 0..=2usize {
        for (i, linger) in [Duration::ZERO, Duration::from_millis(30)].into_iter().enumerate() {
            for order in 0..3 {
                s2_gated(&mut st, p, linger, order, modes[(p + i + order) % 2]);
            }
        }
    }
    for p in 1..=2usize {
        for subs in [1usize, 2, 4] {
            s2_submitters(&mut st, p, subs, 6, None);
            for d in [0u64, 50, 200, 1000] {
                s2_submitters(&mut st, p, subs, 40, Some(Duration::from_micros(d)));
            }
        }
    }
    // S6
    for rep in 0..6u64 {
        let linger = if rep % 2 == 0 { Duration::ZERO } else { Duration::from_millis(20) };
        s6(&mut st, 1500, linger, Duration::from_micros(300 + 150 * rep));
    }
    // S5: coarse sweep of the hand-over instant with submit() (accepted <=> the lingering worker
    // was still counted as available), then a fine sweep across the observed transition.
    let linger = Duration::from_millis(8);
    let debug = std::env::var_os("BND_TP_DEBUG").is_some();
    // `lo`: the last delta of the all-accepted prefix of the coarse sweep.
    let mut lo = None;
    let mut prefix = true;
    for delta in (-200..=1000i64).step_by(50) {
        let r = s5(&mut st, linger, delta, false);
        if debug {
            eprintln!("S5 coarse {delta} us -> {r:?}");
        }
        match r {
            Some(true) if prefix => lo = Some(delta),
            Some(false) => prefix = false,
            _ => {}
        }
    }
    let lo = lo.unwrap_or(0);
    let (from, to) = (lo - 60, lo + 360);
    const FINE: i64 = 120;
    for i in 0..FINE {
        let delta = from + (to - from) * i / (FINE - 1);
        let r = s5(&mut st, linger, delta, i % 4 == 3);
        if debug {
            eprintln!("S5 fine {delta} us (spawn variant: {}) -> {r:?}", i % 4 == 3);
        }
    }

    st.final_checks();
    let bound = format!(
        "sleep/gate-sequenced scenarios on fresh groups: S1 blocked submit across shutdown (0-2 permanent workers x \
         no/non-lingering/lingering busy auxiliary worker x 2 reps, group or pool-then-group shutdown), S2 accepted tasks \
         run exactly once (p+3 gated tasks via submit_or_spawn in 3 release orders x 0-2 workers x linger 0/30ms; 1/2/4 \
         submitter threads x 6 or 40 tasks via submit on 1-2 workers, shutdown after or concurrent at 0/50/200/1000us), \
         S3 submit/submit_or_spawn after shut_down returned (0-2 workers x linger 0/30ms x cold/warm), S4 await_shutdown \
         vs a gated task on 6 kinds of thread x 2 reps, S5 hand-over at linger timeout 8ms: coarse sweep -200..1000us step 50us then 120 instances over [-60us,+360us] around the last delta at which the worker was still available, \
         S6 submit_or_spawn loops vs ThreadGroup::shut_down over 1500 pools x 6; watchdog {}s; margins settle {}ms / \
         setup {}s; scenario instances run: {}, skipped (intended intermediate state not reached in its margin): {}; \
         elapsed {} ms",
        WATCHDOG.as_secs(),
        SETTLE.as_millis(),
        SETUP.as_secs(),
        st.ran,
        st.skipped,
        t0.elapsed().as_millis()
    );
    done(st.cases, &bound)
}
