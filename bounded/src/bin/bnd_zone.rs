//! Bounded stand-in for C06 (zone lookups follow RFC 1034 §4.3.2 / RFC 4592): every zone that is a
//! subset of a universe of 15 records (apex SOA/NS; a node with A (2 RDATA), AAAA, TYPE257 and a
//! child; a wildcard with A and CNAME and a record below it (wildcard as empty non-terminal); a
//! delegation with glue below it and a second, occluded NS set deeper on the same path; a CNAME
//! owner; owners spelled in mixed case) is built in the real `HashMapTreeZone`, and every lookup
//! (single type x 8 types, lookup_addrs, lookup_all) of 29 names (existing, empty non-terminal,
//! wildcard-covered, below cuts, non-existent, mixed case, outside the zone) with both
//! `search_below_cuts` values, checked and — for names in the zone — unchecked, is compared with the
//! reference resolver of zone_ref.rs (written from the RFCs).  Iteration, soa() and ns() are compared too.
#[path = "../zone_ref.rs"]
mod zone_ref;
use quandary::db::zone::GluePolicy;
use quandary::db::HashMapTreeZone;
use std::panic::{catch_unwind, AssertUnwindSafe};
use vq_bounded::{done, fail};
use zone_ref::*;

const SOA_RD: &[u8] = b"\x02ns\x02ap\x02ex\x00\x01h\x02ap\x02ex\x00\x00\x00\x00\x01\x00\x00\x00\x02\x00\x00\x00\x03\x00\x00\x00\x04\x00\x00\x00\x05";
const fn rec(owner: &'static str, rtype: u16, ttl: u32, rdata: &'static [u8]) -> Rec { Rec { owner, rtype, class: IN, ttl, rdata } }

const UNIVERSE: [Rec; 15] = [
    rec("ap.ex.", SOA, 300, SOA_RD),
    rec("Ap.Ex.", NS, 300, b"\x02ns\x02ap\x02ex\x00"),
    rec("a.ap.ex.", A, 60, &[10, 0, 0, 1]),
    rec("A.AP.EX.", AAAA, 61, &[0x20, 1, 0, 0, 0, 0, 0, 0, 0, 0, 0, 0, 0, 0, 0, 1]),
    rec("a.ap.ex.", T257, 62, b"\x00\x05issue;"),
    rec("B.a.ap.ex.", TXT, 63, b"\x02hi"),
    rec("*.a.ap.ex.", A, 64, &[10, 0, 0, 2]),
    rec("*.A.ap.ex.", CNAME, 65, b"\x01c\x02ap\x02ex\x00"),
    rec("d.ap.ex.", NS, 66, b"\x02ns\x01d\x02ap\x02ex\x00"),
    rec("g.D.ap.ex.", A, 67, &[10, 0, 0, 3]),
    rec("h.g.d.ap.ex.", NS, 68, b"\x02ns\x01h\x01g\x01d\x02ap\x02ex\x00"),
    rec("H.g.d.ap.ex.", A, 69, &[10, 0, 0, 4]),
    rec("c.ap.ex.", CNAME, 70, b"\x01a\x02ap\x02ex\x00"),
    rec("A.ap.ex.", A, 60, &[10, 0, 0, 9]),
    rec("z.*.a.ap.ex.", TXT, 71, b"\x01z"),
];

const QUERIES: [&str; 29] = [
    "ap.ex.", "AP.eX.", "a.ap.ex.", "A.ap.EX.", "b.a.ap.ex.", "*.a.ap.ex.", "x.a.ap.ex.", "X.A.Ap.ex.", "y.x.a.ap.ex.",
    "x.b.a.ap.ex.", "d.ap.ex.", "g.d.ap.ex.", "h.g.d.ap.ex.", "H.G.D.ap.Ex.", "k.h.g.d.ap.ex.", "x.d.ap.ex.", "x.g.d.ap.ex.",
    "c.ap.ex.", "x.c.ap.ex.", "n.ap.ex.", "*.ap.ex.", "z.*.a.ap.ex.", "z.x.a.ap.ex.",
    // outside the zone (checked lookups only)
    ".", "ex.", "xp.ex.", "a.xp.ex.", "ap.ex.zz.", "a.ap.xe.",
];
const TYPES: [u16; 8] = [A, AAAA, NS, CNAME, SOA, TXT, T257, MX];

fn run(apex: &'static str, subset: u32, names: &[QName]) -> u64 {
    let mut z = HashMapTreeZone::new(apex.parse().unwrap(), class_of(IN), GluePolicy::Narrow);
    let mut m = Model::new(apex, IN);
    let recs: Vec<&Rec> = (0..UNIVERSE.len()).filter(|i| subset >> i & 1 == 1).map(|i| &UNIVERSE[i]).collect();
    let input = (apex, &recs);
    let r = catch_unwind(AssertUnwindSafe(|| {
        for r in &recs {
            let (got, want) = (real_add(&mut z, r), m.add(r));
            if got != want { fail("add: accepted/rejected differs from the reference", &(&input, "at", r), &got, &want); }
        }
        let n = match compare_lookups(&z, &m, names, &TYPES, true) {
            Ok(n) => n,
            Err((what, got, want)) => fail(&what, &input, &got, &want),
        };
        if let Err((what, got, want)) = compare_iteration(&z, &m) { fail(&what, &input, &got, &want); }
        n
    }));
    match r {
        Ok(n) => n,
        Err(_) => fail("panic inside the zone store", &input, &"panic", &"no panic"),
    }
}

fn main() {
    let names = qnames(&QUERIES);
    let mut cases = 0u64;
    for subset in 0u32..(1 << UNIVERSE.len()) {
        cases += run("ap.ex.", subset, &names);
        // the same zones with the apex spelled in mixed case, for the subsets of at most 3 records
        if subset.count_ones() <= 3 { cases += run("Ap.EX.", subset, &names); }
    }
    done(cases, "all 2^15 subsets of a 15-record universe (plus the <=3-record subsets under a mixed-case apex) x 29 query names x 8 types + addrs + all x search_below_cuts x checked/unchecked");
}
