//! Bounded stand-in for C03, C08, C09, C07, C01, C02 (and the unknown-key clause of C10): structured
//! enumeration of requests driven through the real `Server::handle_message` over both transports,
//! an exactly-sized and an oversized response buffer and nine servers (catalog empty / not yet
//! loaded / failed to load / one loaded zone in a HashMapTreeCatalog and in a SingleZoneCatalog /
//! nested entries in three classes with entry-less intermediate nodes / zones with malformed RDATA
//! and without SOA / rate limiting that never limits / that drops or truncates almost every response;
//! EDNS payload sizes 512, 1232, 4096, 65535; with and without TSIG keys).  Every
//! response is decoded completely by the independent decoder of srv_ref.rs / wire_ref.rs and
//! compared with the reference walk `srv_ref::expectation` (first problem in message order).
//!
//! Tiers: A headers (all opcodes x QR x RD x stray flag bits x QDCOUNT 0/1/2 x 17 question
//! variants x 5 additional menus x trailing octet); B records (answer/authority layouts x all
//! sequences of <= 2 additional records over a 32-item menu and <= 3 over an 8-item menu x count
//! tweaks x trailing octet x opcode QUERY/UPDATE, with and without question); C every prefix of
//! the tier-B messages with <= 1 additional record (all layouts) or 2 (no answer/authority);
//! D TSIG error records around the size limit (key and algorithm names up to 255 octets, with and
//! without EDNS of 7 sizes); E zone selection (24 names x 12 QTYPEs x 7 QCLASSes x 7 opcodes over
//! the nested catalog); F malformed zones (no panic only).
#[path = "../wire_ref.rs"]
mod wire_ref;
#[path = "../srv_ref.rs"]
mod srv_ref;
use quandary::class::Class;
use quandary::db::catalog::Entry;
use quandary::db::zone::GluePolicy;
use quandary::db::{HashMapTreeCatalog, HashMapTreeZone, SingleZoneCatalog};
use quandary::message::tsig::Algorithm;
use quandary::name::Name;
use quandary::rr::{Rdata, Ttl, Type};
use quandary::server::{ReceivedInfo, Response, RrlParams, Server, Transport, TsigKeyMap};
use srv_ref::*;
use std::panic::{catch_unwind, AssertUnwindSafe};
use std::sync::Arc;
use vq_bounded::{done, fail};
use wire_ref::{ref_labels, T_OPT, T_TSIG};

type Zone = HashMapTreeZone;
type Labels = Vec<Vec<u8>>;

// ------------------------------------------------------------------------------ servers and their models

#[derive(Clone, Debug)]
enum State { NotLoaded, Failed, Loaded(Vec<Labels>) }
#[derive(Clone, Debug)]
struct CatEntry { class: u16, name: Labels, state: State }

struct Srv {
    what: &'static str,
    payload: u16,
    keys: Vec<Key>,
    cat: Vec<CatEntry>,
    /// zones hold malformed data: only "no panic" is checked for queries that reach them
    weird: bool,
    /// rate limiting that drops / truncates responses: only C01, C02 and the TC rules of C04 are checked
    lossy: bool,
    call: Box<dyn Fn(&[u8], ReceivedInfo, &mut [u8]) -> Response>,
}

fn labels(text: &str) -> Labels { let mut l = ref_labels(&lower(&name(text))); l.pop(); l }
fn pname(text: &str) -> Box<Name> { text.parse().unwrap() }

/// (owner, type, rdata) records of class IN / `class`, TTL 30.
fn zone(apex: &str, class: u16, recs: &[(&str, u16, Vec<u8>)]) -> (Zone, Vec<Labels>) {
    let mut z = Zone::new(pname(apex), Class::from(class), GluePolicy::Narrow);
    let mut owners = vec![labels(apex)];
    for (o, t, rd) in recs {
        let rdata: &Rdata = rd.as_slice().try_into().unwrap();
        z.add(&pname(o), Type::from(*t), Class::from(class), Ttl::from(30), rdata).unwrap();
        owners.push(labels(o));
    }
    (z, owners)
}
fn soa(apex: &str) -> Vec<u8> {
    let mut r = name(&format!("ns.{apex}"));
    r.extend(name(&format!("h.{apex}")));
    r.extend([0, 0, 0, 1, 0, 0, 0, 2, 0, 0, 0, 3, 0, 0, 0, 4, 0, 0, 0, 5]);
    r
}
fn good_zone(apex: &str, extra: &[&str]) -> (Zone, Vec<Labels>) {
    let mut recs = vec![(apex.to_string(), 6u16, soa(apex)), (apex.to_string(), 2, name(&format!("ns.{apex}"))), (format!("ns.{apex}"), 1, vec![10, 0, 0, 53])];
    for e in extra { recs.push((e.to_string(), 1, vec![10, 0, 0, 1])); }
    let r: Vec<(&str, u16, Vec<u8>)> = recs.iter().map(|(o, t, r)| (o.as_str(), *t, r.clone())).collect();
    zone(apex, 1, &r)
}

enum Ent { NotLoaded(&'static str, u16), Failed(&'static str, u16), Loaded((Zone, Vec<Labels>), &'static str, u16) }

fn finish<C: quandary::db::Catalog + 'static>(what: &'static str, cat: C, model: Vec<CatEntry>, payload: u16, keys: Vec<Key>, weird: bool) -> Srv {
    let mut s = Server::new(Arc::new(cat));
    s.set_edns_udp_payload_size(payload).unwrap();
    // rate limiting: so generous that nothing is ever limited / so tight that almost everything is
    let lossy = what.contains("RRL 1/s");
    if what.contains("RRL") {
        let mut p = if lossy { RrlParams::new(1, 1, 1, 1).unwrap() } else { RrlParams::new(100_000_000, 100_000_000, 100_000_000, 10).unwrap() };
        p.set_slip(2);
        s.set_rrl_params(Some(p));
    }
    let mut map = TsigKeyMap::new();
    for k in &keys {
        let n: Box<Name> = Name::try_from_uncompressed_all(&k.name).unwrap();
        map.insert(n, (match k.alg { Alg::Sha1 => Algorithm::HmacSha1, Alg::Sha256 => Algorithm::HmacSha256 }, k.secret.clone().into_boxed_slice()));
    }
    s.set_tsig_keys(Arc::new(map));
    Srv { what, payload, keys, cat: model, weird, lossy, call: Box::new(move |req, info, buf| s.handle_message(req, info, buf)) }
}
fn entry(e: Ent) -> (Entry<Zone, ()>, CatEntry) {
    match e {
        Ent::NotLoaded(n, c) => (Entry::NotYetLoaded(pname(n), Class::from(c), ()), CatEntry { class: c, name: labels(n), state: State::NotLoaded }),
        Ent::Failed(n, c) => (Entry::FailedToLoad(pname(n), Class::from(c), ()), CatEntry { class: c, name: labels(n), state: State::Failed }),
        Ent::Loaded((z, owners), n, c) => (Entry::Loaded(Arc::new(z), ()), CatEntry { class: c, name: labels(n), state: State::Loaded(owners) }),
    }
}
fn tree_server(what: &'static str, ents: Vec<Ent>, payload: u16, keys: Vec<Key>, weird: bool) -> Srv {
    let mut cat: HashMapTreeCatalog<Zone, ()> = HashMapTreeCatalog::new();
    let mut model = vec![];
    for e in ents { let (r, m) = entry(e); cat.insert(r); model.push(m); }
    finish(what, cat, model, payload, keys, weird)
}
fn single_server(what: &'static str, e: Ent, payload: u16, keys: Vec<Key>) -> Srv {
    let (r, m) = entry(e);
    finish(what, SingleZoneCatalog::new(r), vec![m], payload, keys, false)
}

fn known_keys() -> Vec<Key> {
    vec![Key { name: name("known."), alg: Alg::Sha256, secret: b"0123456789abcdef0123456789abcdef".to_vec() }]
}

fn weird_zone() -> (Zone, Vec<Labels>) {
    // RDATA that does not have the format of its type; no SOA at all in the second zone below
    zone("wz.", 1, &[
        ("wz.", 6, vec![1, 2, 3]), ("wz.", 2, vec![0x45, 1]), ("a.wz.", 1, vec![1]), ("a.wz.", 28, vec![1, 2, 3]),
        ("m.wz.", 15, vec![0]), ("m2.wz.", 15, vec![0, 1, 0xc0, 0x0c]), ("s.wz.", 33, vec![0, 1, 2]), ("c.wz.", 5, vec![]),
        ("c2.wz.", 5, vec![0x3f, b'x']), ("c3.wz.", 5, vec![1, b'a', 2, b'w', b'z', 0, 9, 9]), ("d.wz.", 2, vec![7, 7]), ("d2.wz.", 2, vec![]),
        ("t.wz.", 16, vec![200, 1]), ("*.w.wz.", 5, vec![0xc0]), ("o.wz.", 41, vec![0, 1]), ("g.wz.", 250, vec![1]),
    ])
}
fn nosoa_zone() -> (Zone, Vec<Labels>) {
    zone("ns.", 1, &[("a.ns.", 1, vec![10, 0, 0, 1]), ("c.ns.", 5, name("n.ns.")), ("d.ns.", 2, name("x.d.ns.")), ("ns.", 2, name("a.ns."))])
}

fn servers() -> Vec<Srv> {
    vec![
        tree_server("empty HashMapTreeCatalog, payload 1232, no keys", vec![], 1232, vec![], false),
        tree_server("ex. IN not yet loaded, payload 512, key known./sha256", vec![Ent::NotLoaded("ex.", 1)], 512, known_keys(), false),
        single_server("SingleZoneCatalog ex. IN failed to load, payload 4096, no keys", Ent::Failed("ex.", 1), 4096, vec![]),
        tree_server("ex. IN loaded (SOA, NS, ns A, a A), payload 1232, key known./sha256", vec![Ent::Loaded(good_zone("ex.", &["a.ex."]), "ex.", 1)], 1232, known_keys(), false),
        single_server("SingleZoneCatalog ex. IN loaded, payload 65535, no keys", Ent::Loaded(good_zone("ex.", &["a.ex."]), "ex.", 1), 65535, vec![]),
        tree_server("nested: test. IN loaded, x.quandary.test. IN not yet loaded, l.y.deep.test. IN loaded, ch.test. CH failed, a.b.c. CH not yet loaded, . HS not yet loaded; payload 1232",
            vec![Ent::Loaded(good_zone("test.", &["a.quandary.test.", "a.test."]), "test.", 1), Ent::NotLoaded("x.quandary.test.", 1),
                 Ent::Loaded(good_zone("l.y.deep.test.", &["k.l.y.deep.test."]), "l.y.deep.test.", 1), Ent::Failed("ch.test.", 3), Ent::NotLoaded("a.b.c.", 3), Ent::NotLoaded(".", 4)],
            1232, vec![], false),
        tree_server("zones with malformed RDATA (wz.) and without SOA (ns.), payload 1232", vec![Ent::Loaded(weird_zone(), "wz.", 1), Ent::Loaded(nosoa_zone(), "ns.", 1)], 1232, known_keys(), true),
        tree_server("ex. IN loaded, payload 1232, RRL 10^8/s (never limiting)", vec![Ent::Loaded(good_zone("ex.", &["a.ex."]), "ex.", 1)], 1232, vec![], false),
        tree_server("ex. IN loaded, payload 1232, RRL 1/s slip 2 (responses dropped or truncated)", vec![Ent::Loaded(good_zone("ex.", &["a.ex."]), "ex.", 1)], 1232, known_keys(), false),
    ]
}

/// C07: the entry of the QCLASS whose name is the longest suffix of the QNAME decides.
fn lookup(cat: &[CatEntry], qname: &[u8], qclass: u16) -> (u16, Option<u16>) {
    let mut l = ref_labels(&lower(qname));
    l.pop();
    let best = cat.iter().filter(|e| e.class == qclass && l.ends_with(&e.name)).max_by_key(|e| e.name.len());
    match best {
        None => (REFUSED, None),
        Some(CatEntry { state: State::Loaded(owners), .. }) => (0, Some(if owners.iter().any(|o| o.ends_with(&l)) { 0 } else { NXDOMAIN })),
        Some(_) => (SERVFAIL, None),
    }
}

// ------------------------------------------------------------------------------ driving

struct Driver { srvs: Vec<Srv>, big: Vec<u8>, now: u64, cases: u64, calls: u64 }

impl Driver {
    /// `only`: restrict to these servers (indices); `both_bufs`: also the oversized buffer.
    fn run(&mut self, req: &[u8], only: &[usize], desc: &dyn Fn() -> String) {
        self.cases += 1;
        for &si in only {
            let s = &self.srvs[si];
            let mut cx = Ctx { tcp: false, payload: s.payload, keys: &s.keys, now: self.now };
            let e = expectation(req, &cx);
            for tcp in [false, true] {
                cx.tcp = tcp;
                let exact = if tcp { 65535 } else { s.payload as usize };
                for buf_len in [exact, exact + 4465] {
                    self.calls += 1;
                    let buf = &mut self.big[..buf_len];
                    let info = ReceivedInfo::new("192.0.2.1".parse().unwrap(), if tcp { Transport::Tcp } else { Transport::Udp });
                    let input = |buf_len: usize| format!("{} | request {} | server: {} | {} | response buffer {buf_len}", desc(), hex(req), s.what, if tcp { "TCP" } else { "UDP" });
                    let r = catch_unwind(AssertUnwindSafe(|| match (s.call)(req, info, buf) { Response::Single(n) => Some(n), Response::None => None }));
                    let n = match r { Ok(n) => n, Err(_) => fail("[C01] Server::handle_message panicked", &input(buf_len), &"panic", &"a response or no response") };
                    if let Some(n) = n { if n > buf_len || n < 12 { fail("[C02] response length outside the buffer / shorter than a header", &input(buf_len), &n, &"12..=buffer"); } }
                    let resp = n.map(|n| &self.big[..n]);
                    if s.lossy {
                        if let Some(resp) = resp {
                            let d = match decode(resp) { Ok(d) => d, Err(why) => fail("[C02] the response does not decode", &input(buf_len), &format!("{why}: {}", hex(resp)), &"a well-formed message") };
                            if d.tc() && (tcp || d.data_counts() != [0, 0, 0]) { fail("[C04] TC over TCP or with records", &input(buf_len), &(tcp, d.data_counts()), &"UDP, no records"); }
                        }
                        continue;
                    }
                    // malformed zones: garbage in, garbage out - only the walk-level verdicts are checked
                    let q_reaches_weird = s.weird && e.stage == Stage::Lookup;
                    if q_reaches_weird { continue; }
                    let d = match check_response(req, resp, &e, &cx) { Ok(d) => d, Err((what, got, want)) => fail(&what, &input(buf_len), &got, &want) };
                    if let (Some(d), Stage::Lookup) = (d, &e.stage) {
                        let q = &e.q.as_ref().unwrap().0;
                        let (rcode, in_zone) = lookup(&s.cat, &q.qname, q.qclass);
                        let counts = d.data_counts();
                        match in_zone {
                            None => {
                                if d.ext_rcode() != rcode { fail("[C07] RCODE by catalog entry (no entry: REFUSED, not loaded / failed: SERVFAIL)", &input(buf_len), &d.ext_rcode(), &rcode); }
                                if counts != [0, 0, 0] || d.aa() { fail("[C07] REFUSED/SERVFAIL response with records or AA", &input(buf_len), &(counts, d.aa()), &([0, 0, 0], false)); }
                            }
                            Some(rc) => if d.ext_rcode() != rc {
                                fail("[C07] the query must be answered from the loaded zone that is the longest suffix of the QNAME (NOERROR if the name exists there, else NXDOMAIN)", &input(buf_len), &d.ext_rcode(), &rc);
                            },
                        }
                    }
                }
            }
        }
    }
}

// ------------------------------------------------------------------------------ menus

type Item = (&'static str, Box<dyn Fn(usize) -> Vec<u8>>);
fn fixed(what: &'static str, bytes: Vec<u8>) -> Item { (what, Box::new(move |_| bytes.clone())) }

const NOW: u64 = 1_790_000_000;
fn tsig(key: &[u8], alg: &[u8], class: u16, ttl: u32) -> Vec<u8> {
    rr(key, T_TSIG, class, ttl, &tsig_rdata(alg, NOW, 300, &[0x5a; 32], 0x1234, 0, &[]))
}

fn additional_menu() -> Vec<Item> {
    let opt = |class: u16, ttl: u32, rdata: &[u8]| rr(&[0], T_OPT, class, ttl, rdata);
    let sha256 = name("hmac-sha256.");
    vec![
        fixed("A", rr(&name("a.ex."), 1, 1, 5, &[10, 0, 0, 1])),
        fixed("A owned by a pointer to the QNAME", rr(&[0xc0, 0x0c], 1, 1, 5, &[10, 0, 0, 1])),
        fixed("A owned by a forward pointer", rr(&[0xc0, 0xff], 1, 1, 5, &[10, 0, 0, 1])),
        fixed("TXT with malformed RDATA", rr(&name("t.ex."), 16, 1, 0, &[5, 1, 2])),
        fixed("A with RDLENGTH 11 and 4 octets", rr_len(&name("a.ex."), 1, 1, 5, 11, &[10, 0, 0, 1])),
        fixed("record cut inside its fixed fields", { let mut r = name("a.ex."); r.extend([0, 1, 0, 1, 0]); r }),
        fixed("OPT 1232", opt(1232, 0, &[])),
        fixed("OPT size 0", opt(0, 0, &[])),
        fixed("OPT size 600", opt(600, 0, &[])),
        fixed("OPT size 65535", opt(65535, 0, &[])),
        fixed("OPT version 1", opt(1232, 0x0001_0000, &[])),
        fixed("OPT version 1, ext-rcode 0x80", opt(1232, 0x8001_0000, &[])),
        fixed("OPT version 0, ext-rcode 0x80", opt(1232, 0x8000_0000, &[])),
        fixed("OPT DO", opt(1232, 0x0000_8000, &[])),
        fixed("OPT version 255", opt(700, 0x00ff_ffff, &[])),
        fixed("OPT owner a.", rr(&name("a."), T_OPT, 1232, 0, &[])),
        fixed("OPT owner a., version 1", rr(&name("a."), T_OPT, 1232, 0x0001_0000, &[])),
        fixed("OPT with one option", opt(1232, 0, &[0, 10, 0, 8, 1, 2, 3, 4, 5, 6, 7, 8])),
        fixed("OPT RDLENGTH 3", opt(1232, 0, &[0, 10, 0])),
        fixed("OPT option overrunning its RDATA", opt(1232, 0, &[0, 10, 0, 9, 1, 2])),
        fixed("OPT RDLENGTH 3, version 1", opt(1232, 0x0001_0000, &[0, 10, 0])),
        fixed("OPT RDLENGTH 9 without RDATA", rr_len(&[0], T_OPT, 1232, 0, 9, &[])),
        ("OPT owned by a pointer to itself", Box::new(|pos| rr(&[0xc0 | (pos >> 8) as u8, pos as u8], T_OPT, 1232, 0, &[]))),
        fixed("OPT owned by a forward pointer", rr(&[0xc3, 0xff], T_OPT, 1232, 0, &[])),
        fixed("TSIG unknown key", tsig(&name("nokey."), &sha256, 255, 0)),
        fixed("TSIG known key name, unknown algorithm", tsig(&name("known."), &name("hmac-md5.sig-alg.reg.int."), 255, 0)),
        fixed("TSIG class IN", tsig(&name("nokey."), &sha256, 1, 0)),
        fixed("TSIG TTL 5", tsig(&name("nokey."), &sha256, 255, 5)),
        fixed("TSIG TTL 0x80000000", tsig(&name("nokey."), &sha256, 255, 0x8000_0000)),
        fixed("TSIG with MAC size overrunning its RDATA", { let mut rd = sha256.clone(); rd.extend([0, 0, 0, 0, 0, 1, 1, 44, 0, 40, 1, 2, 3]); rr(&name("nokey."), T_TSIG, 255, 0, &rd) }),
        fixed("TSIG known key name, other algorithm (hmac-sha1)", tsig(&name("known."), &name("hmac-sha1."), 255, 0)),
        fixed("TSIG owned by a pointer to the QNAME", tsig(&[0xc0, 0x0c], &sha256, 255, 0)),
        // versions whose low bits are zero (appended so that the SMALL_MENU indices stay put)
        fixed("OPT version 16", opt(1232, 0x0010_0000, &[])),
        fixed("OPT version 0x80", opt(1232, 0x0080_0000, &[])),
        fixed("OPT version 0xf0, DO", opt(1232, 0x00f0_8000, &[])),
    ]
}
const SMALL_MENU: [usize; 8] = [0, 4, 6, 10, 15, 18, 24, 26];

fn question_menu() -> Vec<(&'static str, Vec<u8>)> {
    let q = |n: &str, t: u16, c: u16| question(&name(n), t, c);
    vec![
        ("a.ex. A IN", q("a.ex.", 1, 1)),
        ("A.eX. A IN", q("A.eX.", 1, 1)),
        ("n.ex. A IN", q("n.ex.", 1, 1)),
        ("a.ex. IXFR", q("a.ex.", 251, 1)),
        ("a.ex. AXFR", q("a.ex.", 252, 1)),
        ("a.ex. MAILB", q("a.ex.", 253, 1)),
        ("a.ex. MAILA", q("a.ex.", 254, 1)),
        ("a.ex. ANY", q("a.ex.", 255, 1)),
        ("a.ex. A class ANY", q("a.ex.", 1, 255)),
        ("a.ex. A class CH", q("a.ex.", 1, 3)),
        ("QNAME a + pointer into the header (offset 4)", question(&[1, b'a', 0xc0, 4], 1, 1)),
        ("QNAME pointer to itself", question(&[0xc0, 0x0c], 1, 1)),
        ("QNAME without end", vec![1, b'a', 2, b'e', b'x']),
        ("question cut inside QCLASS", { let mut v = q("a.ex.", 1, 1); v.pop(); v }),
        ("QNAME with label type 0x40", question(&[0x41, b'a', 0], 1, 1)),
        ("root SOA", q(".", 6, 1)),
        ("255-octet QNAME", question(&long_name(255, b'q'), 1, 1)),
        ("256-octet QNAME", { let mut n = vec![]; for l in [63usize, 63, 63, 62] { n.push(l as u8); n.extend(std::iter::repeat(b'q').take(l)); } n.push(0); question(&n, 1, 1) }),
    ]
}

fn main() {
    std::panic::set_hook(Box::new(|i| eprintln!("panic inside the crate under test: {i}")));
    let now = std::time::SystemTime::now().duration_since(std::time::UNIX_EPOCH).unwrap().as_secs();
    let mut d = Driver { srvs: servers(), big: vec![0u8; 65535 + 4465], now, cases: 0, calls: 0 };
    let menu = additional_menu();
    let questions = question_menu();
    let general = [0usize, 1, 2, 3, 4, 7];
    let with_lossy = [0usize, 1, 2, 3, 4, 7, 8];
    let all = [0usize, 1, 2, 3, 4, 5, 6, 7];

    // ---- tier A: headers
    for opcode in 0u8..16 { for qr in [0u8, 0x80] { for low in [0u8, 1, 7] { for b3 in [0u8, 0xff, 0x70] {
        let b2 = qr | opcode << 3 | low;
        // (QDCOUNT, question octets present)
        let mut qvars: Vec<(u16, Vec<u8>, String)> = vec![(0, vec![], "no question".into()), (0, questions[0].1.clone(), "QDCOUNT 0 but a question present".into())];
        for (w, q) in &questions {
            qvars.push((1, q.clone(), w.to_string()));
            qvars.push((2, [q.clone(), questions[0].1.clone()].concat(), format!("QDCOUNT 2: {w} + a.ex. A IN")));
        }
        for (qd, qbytes, qwhat) in &qvars { for ar in [None, Some(6usize), Some(10), Some(24), Some(0)] { for trailing in [false, true] {
            let mut m = header(0xbeef, b2, b3, *qd, 0, 0, ar.is_some() as u16);
            m.extend_from_slice(qbytes);
            if let Some(i) = ar { let r = (menu[i].1)(m.len()); m.extend(r); }
            if trailing { m.push(0); }
            d.run(&m, &with_lossy, &|| format!("tier A: opcode {opcode}, header octets {b2:#04x} {b3:#04x}, {qwhat}, additional {:?}, trailing {trailing}", ar.map(|i| menu[i].0)));
        }}}
    }}}}

    // ---- tier B: records; the built messages with their descriptions are kept for tier C
    let layouts: [(&[usize], &[usize]); 9] = [(&[], &[]), (&[0], &[]), (&[], &[0]), (&[0], &[0]), (&[6], &[]), (&[], &[6]), (&[24], &[]), (&[], &[24]), (&[0, 24], &[])];
    let mut seqs: Vec<Vec<usize>> = vec![vec![]];
    for i in 0..menu.len() { seqs.push(vec![i]); }
    for i in 0..menu.len() { for j in 0..menu.len() { seqs.push(vec![i, j]); } }
    for i in SMALL_MENU { for j in SMALL_MENU { for k in SMALL_MENU { seqs.push(vec![i, j, k]); } } }
    let mut bases: Vec<(Vec<u8>, String)> = vec![];
    for (li, (an, ns)) in layouts.iter().enumerate() { for seq in &seqs {
        if seq.len() == 3 && li > 3 { continue; }
        for (opcode, qi) in [(0u8, Some(0usize)), (0, None), (5, Some(0)), (0, Some(7))] {
            if (opcode, qi) != (0, Some(0)) && seq.len() == 3 { continue; }
            let mut body = qi.map_or(vec![], |i| questions[i].1.clone());
            for i in an.iter().chain(ns.iter()).chain(seq.iter()) { let r = (menu[*i].1)(12 + body.len()); body.extend(r); }
            let (an, ns, ar) = (an.len() as u16, ns.len() as u16, seq.len() as u16);
            let what = |tw: &str| format!("tier B/C: opcode {opcode}, question {:?}, answer {:?}, authority {:?}, additional {:?}, counts {tw}",
                qi.map(|i| questions[i].0), layouts[li].0.iter().map(|i| menu[*i].0).collect::<Vec<_>>(), layouts[li].1.iter().map(|i| menu[*i].0).collect::<Vec<_>>(), seq.iter().map(|i| menu[*i].0).collect::<Vec<_>>());
            for (tw, c) in [("exact", (an, ns, ar)), ("ARCOUNT+1", (an, ns, ar + 1)), ("ARCOUNT-1", (an, ns, ar.wrapping_sub(1))), ("ANCOUNT+1", (an + 1, ns, ar)), ("ARCOUNT 65535", (an, ns, 65535))] {
                if tw != "exact" && (seq.len() == 3 || (opcode, qi) != (0, Some(0))) { continue; }
                if (tw == "ARCOUNT-1" && ar == 0) || (tw == "ARCOUNT 65535" && seq.len() != 1) { continue; }
                for trailing in [false, true] {
                    if trailing && tw != "exact" { continue; }
                    let mut m = header(0x0102, opcode << 3 | 1, 0, qi.is_some() as u16, c.0, c.1, c.2);
                    m.extend_from_slice(&body);
                    if trailing { m.push(0xff); }
                    d.run(&m, &general, &|| format!("{}, trailing {trailing}", what(tw)));
                    if tw == "exact" && !trailing && (opcode, qi) == (0, Some(0)) && (seq.len() <= 1 || (seq.len() == 2 && li == 0)) { bases.push((m, what(tw))); }
                }
            }
        }
    }}

    // ---- tier C: every prefix
    for (m, what) in &bases {
        for cut in 0..m.len() {
            d.run(&m[..cut], &[0, 3, 8], &|| format!("tier C: first {cut} octets of [{what}]"));
        }
    }

    // ---- tier D: TSIG error records around the size limit
    let sha256 = name("hmac-sha256.");
    let ednss: [Option<u16>; 7] = [None, Some(0), Some(512), Some(513), Some(700), Some(1232), Some(4096)];
    for qname in [name("a.ex."), long_name(100, b'q')] { for edns in ednss { for len in 3..=255usize {
        for (key, alg) in [(long_name(255, b'k'), long_name(len, b'a')), (long_name(200, b'k'), long_name(len, b'a')), (long_name(len, b'k'), sha256.clone())] {
            let mut m = header(0xbeef, 0, 0, 1, 0, 0, 1 + edns.is_some() as u16);
            m.extend(question(&qname, 1, 1));
            if let Some(size) = edns { m.extend(rr(&[0], T_OPT, size, 0, &[])); }
            m.extend(tsig(&key, &alg, 255, 0));
            d.run(&m, &[0, 1, 4], &|| format!("tier D: QNAME of {} octets, EDNS {edns:?}, TSIG with key name of {} and algorithm name of {} octets", qname.len(), key.len(), alg.len()));
        }
    }}}

    // ---- tier E: zone selection
    let qnames = ["test.", "quandary.test.", "x.quandary.test.", "z.quandary.test.", "a.z.quandary.test.", "a.x.quandary.test.", "X.Quandary.TEST.", "a.Quandary.test.", "deep.test.",
        "y.deep.test.", "l.y.deep.test.", "k.l.y.deep.test.", "m.y.deep.test.", "n.m.y.deep.test.", "ch.test.", "a.ch.test.", "c.", "b.c.", "a.b.c.", "x.a.b.c.", ".", "other.", "est.", "xtest."];
    for qn in qnames { for qtype in [1u16, 2, 6, 255, 251, 252, 253, 254, 0, 65535, 41, 250] { for qclass in [1u16, 3, 4, 255, 254, 0, 2] { for opcode in [0u8, 1, 2, 4, 5, 6, 15] {
        let mut m = header(7, opcode << 3, 0, 1, 0, 0, 0);
        m.extend(question(&name(qn), qtype, qclass));
        d.run(&m, &all, &|| format!("tier E: opcode {opcode}, {qn} QTYPE {qtype} QCLASS {qclass}"));
    }}}}

    // ---- tier F: zones with malformed RDATA / without SOA (no panic; walk-level verdicts)
    for qn in ["wz.", "a.wz.", "m.wz.", "m2.wz.", "s.wz.", "c.wz.", "c2.wz.", "c3.wz.", "d.wz.", "x.d.wz.", "d2.wz.", "x.d2.wz.", "t.wz.", "x.w.wz.", "o.wz.", "g.wz.", "n.wz.",
               "ns.", "a.ns.", "c.ns.", "d.ns.", "x.d.ns.", "n.ns."] {
        for qtype in [1u16, 2, 5, 6, 15, 16, 28, 33, 41, 250, 255] { for edns in [None, Some(512u16), Some(4096)] {
            let mut m = header(9, 1, 0, 1, 0, 0, edns.is_some() as u16);
            m.extend(question(&name(qn), qtype, 1));
            if let Some(size) = edns { m.extend(rr(&[0], T_OPT, size, 0, &[])); }
            d.run(&m, &[6], &|| format!("tier F: {qn} QTYPE {qtype} EDNS {edns:?}"));
        }}
    }

    println!("calls={}", d.calls);
    done(d.cases, "tier A 16 opcodes x QR x 3 flag sets x 3 fourth-octet values x (2 + 18 x 2) question variants x 5 additional menus x trailing 0/1; \
tier B 9 answer/authority layouts x (1 + 32 + 32^2 + 8^3) additional sequences x 4 opcode/question variants x 5 count tweaks x trailing 0/1 (pruned as coded); \
tier C every prefix of the tier-B QUERY messages with <= 1 additional record (9 layouts) or 2 (no answer/authority); \
tier D key/algorithm names of 3..255 octets x 7 EDNS settings x 2 QNAMEs; tier E 24 names x 12 QTYPEs x 7 QCLASSes x 7 opcodes; tier F 23 names x 11 QTYPEs x 3 EDNS settings on malformed zones; \
each over UDP and TCP, exact and oversized response buffer, up to 9 servers");
}
