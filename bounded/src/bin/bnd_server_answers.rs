//! Bounded stand-in for C05, C04, C02: catalogs of small zones served by the real
//! `Server::handle_message`, every response decoded by the independent decoder and compared - RCODE,
//! AA and the answer / authority / additional sections as multisets of (owner lower-cased, type,
//! class, TTL, decompressed RDATA) - with a reference resolver written from RFC 1034 4.3.2, RFC 4592,
//! RFC 6604, RFC 2308 3 and the property text over the flat record list of zone_ref.rs.
//!
//! Zones: 64 variants (6 toggles) of ap.ex. (apex SOA/NS/MX, A/AAAA/TXT/SRV/TYPE257 records, an empty
//! non-terminal, wildcards with data, a wildcard that exists only as an empty non-terminal, wildcard
//! CNAME, a CNAME chain c1..c9, loops, CNAMEs to a missing name / NODATA / outside the zone / wildcard /
//! below a delegation, a delegation whose name servers are below the cut, the cut itself, in the parent
//! zone, below a sibling cut and outside, a second occluded cut below the first, AAAA-only name-server /
//! MX / SRV targets, CNAME / MX targets spelled in another letter case, a two-record TYPE257 RRset), alone and in a
//! catalog with a child zone two labels below an entry-less node, a child zone at the delegation and a
//! class-CH zone; a zone bg. with RRsets and referrals that overflow 512 / 1232 octets, CNAME loops and
//! truncated answers whose RDATA names share labels with the TSIG key name (every query to bg. is also
//! sent signed with the key key.dept.bg.).  Queries: every
//! owner name, a child of it and extra names (mixed case) x 10 QTYPEs x {no EDNS, EDNS 1232, EDNS 4096}
//! x {TCP, UDP exact buffer, UDP oversized buffer}.
//! Responses beyond the reach of a compression pointer [C02][C13]: a zone hg. whose RRset big.hg. MX has
//! ~1024 records, so that the TCP response exceeds 16384 octets; the last exchange names share suffixes
//! (a^L.uniq.zzz. / b.uniq.zzz., in-zone a^L.uniq.hg. / b.uniq.hg., a^L.mid.uniq.zzz. / b.uniq.zzz. / c.b.uniq.zzz.)
//! and the number of plain records (1020..=1022) and L (18..=30 / 1..=24 / 1, 9) are swept so that each label of the first of them comes to lie
//! on either side of offset 16384.  Every response must decode, every compression pointer must point
//! strictly backwards to the first octet of a label of an earlier name (srv_ref::pointer_check, applied
//! to every other response of this stand-in, too), and the answer section must be the RRset.
//! C04: UDP length <= limit; TC => no records; TCP never TC; the TCP response fits => UDP identical;
//! otherwise a UDP response with TC clear has the same answer/authority, a sub-multiset of the
//! additional records and all in-bailiwick glue.  Optional/open points are accepted both ways:
//! additional addresses for ANY answers, for targets below a zone cut or synthesized from a wildcard.
#[path = "../wire_ref.rs"]
mod wire_ref;
#[path = "../srv_ref.rs"]
mod srv_ref;
#[path = "../zone_ref.rs"]
mod zone_ref;
use quandary::db::catalog::Entry;
use quandary::db::zone::GluePolicy;
use quandary::db::{HashMapTreeCatalog, HashMapTreeZone, SingleZoneCatalog};
use quandary::message::tsig::Algorithm;
use quandary::name::Name;
use quandary::server::{ReceivedInfo, Response, Server, Transport, TsigKeyMap};
use srv_ref::{sign_request, Alg, Key, decode, hex, header, lower, name, pointer_check, question, rr, DMsg, DRr, NXDOMAIN, REFUSED, SERVFAIL};
use std::panic::{catch_unwind, AssertUnwindSafe};
use std::sync::Arc;
use vq_bounded::{done, fail};
use wire_ref::{ref_uncompressed, T_OPT, T_TSIG};
use zone_ref::{class_of, labels_of_str, real_add, Base, Labels, Model, Rec, A, AAAA, CNAME, MX, NS, SOA, TXT};

const SRV: u16 = 33;
const ANYQ: u16 = 255;
/// (owner wire lower-cased, type, class, ttl, rdata)
type RR = (Vec<u8>, u16, u16, u32, Vec<u8>);

// ------------------------------------------------------------------------------ zones

struct ZoneDef { apex: &'static str, class: u16, recs: Vec<Rec> }
impl ZoneDef {
    fn new(apex: &'static str, class: u16) -> Self { ZoneDef { apex, class, recs: vec![] } }
    fn add(&mut self, owner: &str, rtype: u16, ttl: u32, rdata: Vec<u8>) {
        self.recs.push(Rec { owner: Box::leak(owner.to_string().into_boxed_str()), rtype, class: self.class, ttl, rdata: Box::leak(rdata.into_boxed_slice()) });
    }
    fn build(&self) -> (HashMapTreeZone, Model) {
        let mut z = HashMapTreeZone::new(self.apex.parse().unwrap(), class_of(self.class), GluePolicy::Narrow);
        let mut m = Model::new(self.apex, self.class);
        for r in &self.recs {
            let (got, want) = (real_add(&mut z, r), m.add(r));
            if !got || !want { fail("set-up: a record of the scenario was rejected", r, &got, &want); }
        }
        (z, m)
    }
}
fn v4(n: u8) -> Vec<u8> { vec![10, 0, 0, n] }
fn v6(n: u8) -> Vec<u8> { let mut a = vec![0x20, 1, 0xd, 0xb8, 0, 0, 0, 0, 0, 0, 0, 0, 0, 0, 0, 0]; a[15] = n; a }
fn mx(p: u16, n: &str) -> Vec<u8> { let mut r = p.to_be_bytes().to_vec(); r.extend(name(n)); r }
fn srv(port: u16, n: &str) -> Vec<u8> { let mut r = vec![0, 0, 0, 0]; r.extend(port.to_be_bytes()); r.extend(name(n)); r }
fn txt(s: &[u8]) -> Vec<u8> { let mut r = vec![s.len() as u8]; r.extend_from_slice(s); r }
fn soa(apex: &str, minimum: u32) -> Vec<u8> {
    let mut r = name(&format!("ns.{apex}"));
    r.extend(name(&format!("host.{apex}")));
    for v in [1u32, 7200, 600, 86400, minimum] { r.extend(v.to_be_bytes()); }
    r
}

fn main_zone(t: u32) -> ZoneDef {
    let on = |i: u32| t >> i & 1 == 1;
    let mut z = ZoneDef::new("ap.ex.", 1);
    // t4: SOA TTL below / above its MINIMUM field
    if on(4) { z.add("ap.ex.", SOA, 3, soa("ap.ex.", 60)); } else { z.add("Ap.Ex.", SOA, 300, soa("ap.ex.", 5)); }
    z.add("ap.ex.", NS, 300, name("ns.ap.ex."));
    z.add("ap.ex.", NS, 300, name("ns2.ap.ex."));
    z.add("ns.ap.ex.", A, 100, v4(53));
    z.add("ns.ap.ex.", AAAA, 101, v6(53));
    z.add("ns2.ap.ex.", AAAA, 102, v6(54));
    z.add("ap.ex.", MX, 200, mx(10, "mail.ap.ex."));
    z.add("ap.ex.", MX, 200, mx(20, "v6only.ap.ex."));
    z.add("ap.ex.", MX, 200, mx(30, "out.other."));
    z.add("ap.ex.", MX, 200, mx(40, "nx.ap.ex."));
    z.add("ap.ex.", MX, 200, mx(50, "alias.ap.ex."));
    z.add("mail.ap.ex.", A, 110, v4(25));
    z.add("Mail.ap.ex.", AAAA, 111, v6(25));
    z.add("v6only.ap.ex.", AAAA, 112, v6(26));
    // t1: a.ap.ex. with or without A records
    if on(1) { z.add("a.ap.ex.", A, 60, v4(1)); z.add("A.ap.ex.", A, 60, v4(2)); }
    z.add("a.ap.ex.", AAAA, 61, v6(1));
    z.add("a.ap.ex.", TXT, 62, txt(b"hello"));
    z.add("a.ap.ex.", 257, 63, b"\x00\x05issue;".to_vec());
    z.add("a.ap.ex.", 257, 63, b"\x00\x05issuewild;".to_vec());
    z.add("b.a.ap.ex.", TXT, 64, txt(b"b"));
    z.add("x.ent.ap.ex.", A, 65, v4(3));
    z.add("_s._tcp.ap.ex.", SRV, 66, srv(80, "a.ap.ex."));
    z.add("_s._tcp.ap.ex.", SRV, 66, srv(81, "v6only.ap.ex."));
    z.add("*.w.ap.ex.", A, 67, v4(7));
    z.add("*.w.ap.ex.", MX, 68, mx(10, "mail.ap.ex."));
    z.add("z.*.e.ap.ex.", TXT, 69, txt(b"below a wildcard"));
    // t2: the wildcard *.e.ap.ex. with data of its own, or only as an empty non-terminal
    if on(2) { z.add("*.e.ap.ex.", TXT, 70, txt(b"w")); }
    z.add("*.wc.ap.ex.", CNAME, 71, name("a.ap.ex."));
    z.add("alias.ap.ex.", CNAME, 72, name("a.ap.ex."));
    for i in 1..=8 { z.add(&format!("c{i}.ap.ex."), CNAME, 73, name(&format!("c{}.ap.ex.", i + 1))); }
    // t5: the ninth link ends at a.ap.ex. or closes a loop
    z.add("c9.ap.ex.", CNAME, 73, name(if on(5) { "c3.ap.ex." } else { "a.ap.ex." }));
    z.add("l1.ap.ex.", CNAME, 74, name("l2.ap.ex."));
    z.add("l2.ap.ex.", CNAME, 74, name("l1.ap.ex."));
    z.add("self.ap.ex.", CNAME, 74, name("self.ap.ex."));
    z.add("tl.ap.ex.", CNAME, 74, name("l1.ap.ex."));
    z.add("cnx.ap.ex.", CNAME, 75, name("nx.ap.ex."));
    z.add("cout.ap.ex.", CNAME, 75, name("out.other."));
    z.add("cw.ap.ex.", CNAME, 75, name("x.w.ap.ex."));
    z.add("cwe.ap.ex.", CNAME, 75, name("q.e.ap.ex."));
    z.add("cdel.ap.ex.", CNAME, 75, name("www.d.ap.ex."));
    z.add("cent.ap.ex.", CNAME, 75, name("ent.ap.ex."));
    z.add("csub.ap.ex.", CNAME, 75, name("k.sub.deep.ap.ex."));
    // names in RDATA spelled in another letter case than the owner names / the apex
    z.add("cmix.ap.ex.", CNAME, 75, name("A.Ap.EX."));
    z.add("mxmix.ap.ex.", MX, 76, mx(1, "Mail.AP.ex."));
    z.add("d.ap.ex.", NS, 80, name("ns.d.ap.ex."));
    z.add("d.ap.ex.", NS, 80, name("d.ap.ex."));
    z.add("D.ap.ex.", NS, 80, name("ns.ap.ex."));
    z.add("d.ap.ex.", NS, 80, name("ns.sib.ap.ex."));
    z.add("d.ap.ex.", NS, 80, name("out.other."));
    z.add("d.ap.ex.", NS, 80, name("nsx.ap.ex."));
    // t3: glue below the cut present or missing
    if on(3) { z.add("ns.d.ap.ex.", A, 81, v4(81)); z.add("ns.d.ap.ex.", AAAA, 82, v6(81)); }
    z.add("d.ap.ex.", A, 83, v4(83));
    z.add("d.ap.ex.", AAAA, 84, v6(83));
    z.add("occ.d.ap.ex.", TXT, 85, txt(b"occluded"));
    z.add("sub.d.ap.ex.", NS, 85, name("ns.sub.d.ap.ex."));           // a second, occluded cut below the first
    z.add("ns.sub.d.ap.ex.", A, 85, v4(85));
    z.add("sib.ap.ex.", NS, 86, name("ns.sib.ap.ex."));
    z.add("ns.sib.ap.ex.", A, 87, v4(87));
    z.add("v6.ap.ex.", NS, 88, name("ns.v6.ap.ex."));
    z.add("ns.v6.ap.ex.", AAAA, 89, v6(89));
    // t0: a wildcard directly below the apex
    if on(0) { z.add("*.ap.ex.", A, 90, v4(90)); z.add("*.ap.ex.", MX, 91, mx(5, "a.ap.ex.")); }
    z
}
fn child_zone(apex: &'static str) -> ZoneDef {
    let mut z = ZoneDef::new(apex, 1);
    z.add(apex, SOA, 50, soa(apex, 40));
    z.add(apex, NS, 50, name(&format!("ns.{apex}")));
    z.add(&format!("ns.{apex}"), A, 51, v4(200));
    z.add(&format!("k.{apex}"), A, 52, v4(201));
    z.add(&format!("www.{apex}"), TXT, 53, txt(b"child"));
    z
}
fn ch_zone() -> ZoneDef {
    let mut z = ZoneDef::new("ap.ex.", 3);
    z.add("ap.ex.", SOA, 30, soa("ap.ex.", 20));
    z.add("ap.ex.", NS, 30, name("ns.ap.ex."));
    z.add("a.ap.ex.", TXT, 31, txt(b"chaos"));
    z
}
fn big_zone() -> ZoneDef {
    let mut z = ZoneDef::new("bg.", 1);
    z.add("bg.", SOA, 300, soa("bg.", 300));
    z.add("bg.", NS, 300, name("ns.bg."));
    z.add("ns.bg.", A, 300, v4(1));
    for i in 0..3u8 { z.add("txt3.bg.", TXT, 10, txt(&vec![b'a' + i; 250])); }
    for i in 0..9u8 { z.add("txt9.bg.", TXT, 10, txt(&vec![b'a' + i; 250])); }
    z.add("mx.bg.", MX, 20, mx(10, "mail.bg."));
    z.add("mx.bg.", MX, 20, mx(20, "mail2.bg."));
    for i in 0..40u8 { z.add("mail.bg.", A, 21, v4(i)); }
    for i in 0..30u8 { z.add("mail2.bg.", AAAA, 22, v6(i)); }
    z.add("mail2.bg.", A, 23, v4(99));
    // referral whose in-bailiwick glue (the name server named like the delegated zone) overflows 512 octets
    z.add("child.bg.", NS, 30, name("child.bg."));
    z.add("child.bg.", NS, 30, name("ns1.child.bg."));
    z.add("ns1.child.bg.", A, 31, v4(1));
    for i in 0..29u8 { z.add("child.bg.", A, 32, v4(i)); }
    // referral whose optional sibling/parent-zone addresses overflow, the glue fits
    z.add("del2.bg.", NS, 33, name("ns.del2.bg."));
    z.add("del2.bg.", NS, 33, name("mail.bg."));
    z.add("ns.del2.bg.", A, 34, v4(2));
    // referral whose glue below the cut overflows
    z.add("del3.bg.", NS, 35, name("ns.del3.bg."));
    for i in 0..20u8 { z.add("ns.del3.bg.", A, 36, v4(i)); z.add("ns.del3.bg.", AAAA, 37, v6(i)); }
    // several referral sizes around the limit: delegation sN.bg. with N glue addresses at the cut itself and one below
    for n in 24..=31u8 {
        let cut = format!("s{n}.bg.");
        z.add(&cut, NS, 38, name(&cut));
        z.add(&cut, NS, 38, name(&format!("n.{cut}")));
        z.add(&format!("n.{cut}"), A, 39, v4(1));
        for i in 0..n { z.add(&cut, A, 40, v4(i)); }
    }
    // answers that are started (a name in RDATA is written) and then dropped: loop, truncation
    z.add("www.bg.", CNAME, 44, name("big.dept.bg."));
    z.add("big.dept.bg.", CNAME, 44, name("www.bg."));
    z.add("w2.bg.", CNAME, 45, name("big2.dept.bg."));
    for i in 0..9u8 { z.add("big2.dept.bg.", TXT, 46, txt(&vec![b'A' + i; 250])); }
    z.add("w3.bg.", MX, 47, mx(1, "big3.dept.bg."));
    for i in 0..9u8 { z.add("w3.bg.", TXT, 47, txt(&vec![b'A' + i; 250])); }
    // long owner names
    let long = format!("{}.{}.{}.bg.", "l".repeat(63), "m".repeat(63), "n".repeat(63));
    z.add(&long, MX, 41, mx(1, &format!("x.{long}")));
    z.add(&format!("x.{long}"), A, 42, v4(1));
    z.add(&format!("x.{long}"), AAAA, 42, v6(1));
    z.add(&format!("c.{long}"), CNAME, 43, name(&format!("x.{long}")));
    z
}

/// The zone hg.: big.hg. MX with `plain` records whose exchange is big.hg. itself (16 octets each in a
/// response to big.hg. MX), then records whose exchanges share suffixes; `l` = length of the first label
/// of the first of them.
fn huge_zone(plain: u16, l: usize, kind: usize) -> ZoneDef {
    let mut z = ZoneDef::new("hg.", 1);
    z.add("hg.", SOA, 300, soa("hg.", 300));
    z.add("hg.", NS, 300, name("ns.hg."));
    z.add("ns.hg.", A, 300, v4(1));
    for i in 0..plain { z.add("big.hg.", MX, 77, mx(i, "big.hg.")); }
    let a = "a".repeat(l);
    let tail: Vec<String> = match kind {
        0 => vec![format!("{a}.uniq.zzz."), "b.uniq.zzz.".into()],
        1 => vec![format!("{a}.uniq.hg."), "b.uniq.hg.".into(), "B.UNIQ.hg.".into()],
        _ => vec![format!("{a}.mid.uniq.zzz."), "b.uniq.zzz.".into(), "c.b.uniq.zzz.".into(), format!("{a}.mid.uniq.zzz.")],
    };
    for (i, t) in tail.iter().enumerate() { z.add("big.hg.", MX, 77, mx(plain + i as u16, t)); }
    z
}

// ------------------------------------------------------------------------------ the reference resolver

fn wire_of(l: &Labels) -> Vec<u8> {
    let mut w = vec![];
    for x in l { w.push(x.len() as u8); w.extend_from_slice(x.as_bytes()); }
    w.push(0);
    w
}
fn labels_of_wire(w: &[u8]) -> Labels {
    let mut l = wire_ref::ref_labels(&lower(w));
    l.pop();
    l.into_iter().map(|x| String::from_utf8(x).unwrap()).collect()
}

#[derive(Debug, Default)]
struct Want {
    rcode: u16, aa: bool, servfail: bool,
    an: Vec<RR>, ns: Vec<RR>,
    /// additional records every complete response has / may have in addition
    ar_must: Vec<RR>, ar_may: Vec<RR>,
    /// in-bailiwick glue of a referral: never optional
    glue: Vec<RR>,
}

fn rrset_rrs(m: &Model, node: &Labels, owner: &Labels, t: u16) -> Vec<RR> {
    m.rrset(node, t).map_or(vec![], |(ttl, rds)| rds.into_iter().map(|rd| (wire_of(owner), t, m.class, ttl, rd)).collect())
}
/// The addresses of `target` as found in zone `m`: (records, found without wildcard synthesis).
fn addresses(m: &Model, target: &Labels, below_cuts: bool) -> (Vec<RR>, bool) {
    if !m.in_zone(target) { return (vec![], true); }
    match m.resolve(target, below_cuts) {
        Base::Node(n, sos) => {
            let mut v = rrset_rrs(m, &n, target, A);
            if m.class == 1 { v.extend(rrset_rrs(m, &n, target, AAAA)); }
            (v, sos.is_none())
        }
        _ => (vec![], true),
    }
}
fn target_of(t: u16, rdata: &[u8]) -> Option<Labels> {
    let at = match t { NS => 0, MX => 2, SRV => 6, _ => return None };
    Some(labels_of_wire(&rdata[at..]))
}
fn negative(m: &Model, w: &mut Want) {
    // RFC 2308 3: the SOA with TTL = min(SOA TTL, MINIMUM)
    let (ttl, rds) = m.rrset(&m.apex, SOA).unwrap();
    let rd = &rds[0];
    let minimum = u32::from_be_bytes(rd[rd.len() - 4..].try_into().unwrap());
    w.ns.push((wire_of(&m.apex), SOA, m.class, ttl.min(minimum), rd.clone()));
}
fn additional_for(m: &Model, rrs: &[RR], w: &mut Want, optional_only: bool) {
    for r in rrs {
        let Some(target) = target_of(r.1, &r.4) else { continue };
        let (plain, exact) = addresses(m, &target, false);
        if exact && !optional_only { w.ar_must.extend(plain.clone()); }
        w.ar_may.extend(plain.clone());
        if plain.is_empty() { w.ar_may.extend(addresses(m, &target, true).0); }   // below a cut: open
    }
}

/// RFC 1034 4.3.2 inside the zone `m` chosen for the QNAME.
fn resolve(m: &Model, qname: &Labels, qtype: u16) -> Want {
    let mut w = Want { aa: true, ..Default::default() };
    let mut owner = qname.clone();
    let mut seen = vec![owner.clone()];
    let mut links = 0;
    loop {
        match m.resolve(&owner, false) {
            Base::WrongZone => break,                                   // a CNAME led out of the zone: not chased
            Base::NxDomain => { w.rcode = NXDOMAIN; negative(m, &mut w); break; }
            Base::Referral(cut) => {
                w.aa = links > 0;                                       // RFC 6604 2.1: AA describes the first owner name
                let ns = rrset_rrs(m, &cut, &cut, NS);
                for r in &ns {
                    let target = target_of(NS, &r.4).unwrap();
                    let (addrs, exact) = addresses(m, &target, true);
                    if target.ends_with(&cut) { w.glue.extend(addrs.clone()); }
                    if exact { w.ar_must.extend(addrs.clone()); }
                    w.ar_may.extend(addrs);
                }
                w.ns = ns;
                break;
            }
            Base::Node(n, _) => {
                if qtype == ANYQ && links == 0 {
                    for t in m.types_at(&n) { w.an.extend(rrset_rrs(m, &n, &owner, t)); }
                    if w.an.is_empty() { negative(m, &mut w); }
                    let an = w.an.clone();
                    additional_for(m, &an, &mut w, true);
                    break;
                }
                let found = rrset_rrs(m, &n, &owner, qtype);
                if !found.is_empty() {
                    additional_for(m, &found, &mut w, false);
                    w.an.extend(found);
                    break;
                }
                let cname = rrset_rrs(m, &n, &owner, CNAME);
                if cname.is_empty() { negative(m, &mut w); break; }
                links += 1;
                let target = labels_of_wire(&cname[0].4);
                if links > 8 || seen.contains(&target) { w.servfail = true; w.rcode = SERVFAIL; break; }
                w.an.extend(cname);
                seen.push(target.clone());
                owner = target;
            }
        }
    }
    w
}

// ------------------------------------------------------------------------------ catalogs and driving

struct Cat {
    what: String,
    zones: Vec<Model>,
    call: Box<dyn Fn(&[u8], ReceivedInfo, &mut [u8]) -> Response>,
    qnames: Vec<String>,
    /// a configured TSIG key: every query is also sent signed with it
    key: Option<Key>,
}
const PAYLOAD: u16 = 1232;

fn catalog(what: String, defs: Vec<ZoneDef>, single: bool, extra_names: &[&str], key: Option<Key>) -> Cat {
    let mut map = TsigKeyMap::new();
    if let Some(k) = &key { map.insert(Name::try_from_uncompressed_all(&k.name).unwrap(), (Algorithm::HmacSha256, k.secret.clone().into_boxed_slice())); }
    let map = Arc::new(map);
    let mut qnames: Vec<String> = extra_names.iter().map(|s| s.to_string()).collect();
    let mut models = vec![];
    let mut entries = vec![];
    for d in &defs {
        let (z, m) = d.build();
        for r in &d.recs { qnames.push(r.owner.to_string()); qnames.push(format!("x.{}", r.owner)); }
        models.push(m);
        entries.push(Entry::Loaded(Arc::new(z), ()));
    }
    qnames.retain(|q| name(q).len() <= 255 && q.split('.').all(|l| l.len() <= 63));
    qnames.sort();
    qnames.dedup();
    let call: Box<dyn Fn(&[u8], ReceivedInfo, &mut [u8]) -> Response> = if single {
        let s = Server::new(Arc::new(SingleZoneCatalog::new(entries.pop().unwrap())));
        s.set_tsig_keys(map);
        Box::new(move |req, info, buf| s.handle_message(req, info, buf))
    } else {
        let mut c: HashMapTreeCatalog<HashMapTreeZone, ()> = HashMapTreeCatalog::new();
        for e in entries { c.insert(e); }
        let s = Server::new(Arc::new(c));
        s.set_tsig_keys(map);
        Box::new(move |req, info, buf| s.handle_message(req, info, buf))
    };
    Cat { what, zones: models, call, qnames, key }
}

/// Domain names inside RDATA compare case-insensitively (a compression pointer may lead to the QNAME's spelling).
fn canon_rdata(t: u16, rd: &[u8]) -> Vec<u8> {
    let names_end = match t {
        NS | CNAME | 12 => rd.len(),
        SOA => { let a = ref_uncompressed(rd).unwrap_or(0); a + ref_uncompressed(&rd[a..]).unwrap_or(0) }
        _ => 0,
    };
    let from = match t { MX => 2, SRV => 6, _ => 0 };
    let to = if t == MX || t == SRV { rd.len() } else { names_end };
    let mut v = rd.to_vec();
    if from <= to && to <= v.len() { v[from..to].make_ascii_lowercase(); }
    v
}
fn section(d: &DMsg, s: usize) -> Vec<RR> {
    let mut v: Vec<RR> = d.secs[s].iter().filter(|r| r.rtype != T_OPT && r.rtype != T_TSIG).map(|r: &DRr| (lower(&r.owner), r.rtype, r.class, r.ttl, canon_rdata(r.rtype, &r.rdata))).collect();
    v.sort();
    v
}
fn sorted(v: Vec<RR>) -> Vec<RR> { let mut v = canon(&v); v.sort(); v }
fn canon(v: &[RR]) -> Vec<RR> { v.iter().map(|r| (r.0.clone(), r.1, r.2, r.3, canon_rdata(r.1, &r.4))).collect() }
/// multiset inclusion
fn included(small: &[RR], big: &[RR]) -> bool {
    let mut rest = big.to_vec();
    small.iter().all(|r| rest.iter().position(|x| x == r).map(|p| { rest.swap_remove(p); }).is_some())
}
fn show(v: &[RR]) -> Vec<String> { v.iter().map(|r| format!("{} {} {} {} {}", String::from_utf8_lossy(&r.0.iter().map(|b| if *b < 32 { b'.' } else { *b }).collect::<Vec<u8>>()), r.1, r.2, r.3, if r.4.len() > 24 { format!("{}..({})", hex(&r.4[..24]), r.4.len()) } else { hex(&r.4) })).collect() }

fn main() {
    std::panic::set_hook(Box::new(|i| eprintln!("panic inside the crate under test: {i}")));
    let extra = ["ap.ex.", "AP.eX.", "nx.ap.ex.", "x.nx.ap.ex.", "X.W.Ap.Ex.", "y.x.w.ap.ex.", "q.e.ap.ex.", "e.ap.ex.", "Q.E.ap.ex.", "z.q.e.ap.ex.", "x.wc.ap.ex.", "www.d.ap.ex.", "WWW.D.AP.EX.", "ent.ap.ex.",
        "_tcp.ap.ex.", "deep.ap.ex.", "sub.deep.ap.ex.", "k.sub.deep.ap.ex.", "z.deep.ap.ex.", "a.z.deep.ap.ex.", "n.sub.deep.ap.ex.", "ex.", ".", "other.", "x.ap.ex.zz.", "bg.", "nx.bg.", "www.child.bg.", "www.del2.bg.", "www.del3.bg."];
    let mut cats = vec![];
    for t in 0..64u32 {
        if t % 2 == 0 {
            cats.push(catalog(format!("SingleZoneCatalog: ap.ex. variant {t:#08b}"), vec![main_zone(t)], true, &extra, None));
        } else {
            cats.push(catalog(format!("HashMapTreeCatalog: ap.ex. variant {t:#08b}, sub.deep.ap.ex., d.ap.ex., ap.ex. class CH"),
                vec![main_zone(t), child_zone("sub.deep.ap.ex."), child_zone("d.ap.ex."), ch_zone()], false, &extra, None));
        }
    }
    let big_extra: Vec<String> = (24..=31).map(|n| format!("www.s{n}.bg.")).collect();
    let mut be_: Vec<&str> = extra.to_vec();
    be_.extend(big_extra.iter().map(|s| s.as_str()));
    cats.push(catalog("HashMapTreeCatalog: bg. (large RRsets and referrals)".into(), vec![big_zone()], false, &be_,
        Some(Key { name: name("key.dept.bg."), alg: Alg::Sha256, secret: b"0123456789abcdef0123456789abcdef".to_vec() })));

    let mut cases = 0u64;
    let now = std::time::SystemTime::now().duration_since(std::time::UNIX_EPOCH).unwrap().as_secs();
    let mut big = vec![0u8; 70000];
    let (mut tcp_buf, mut udp_buf) = (vec![], vec![]);
    for c in &cats {
        for qn in &c.qnames { for qclass in [1u16, 3] { for qtype in [A, NS, CNAME, SOA, MX, TXT, AAAA, SRV, ANYQ, 257] { for edns in [None, Some(1232u16), Some(4096), Some(600)] { for signed in [false, true] {
            if signed && c.key.is_none() { continue; }
            if qclass == 3 && (c.zones.len() < 4 || edns.is_some() || !qn.ends_with("ap.ex.")) { continue; }
            if edns == Some(600) && c.zones.len() != 1 { continue; }
            cases += 1;
            let mut req = header(0x4242, 0, 0, 1, 0, 0, edns.is_some() as u16);
            req.extend(question(&name(qn), qtype, qclass));
            if let Some(size) = edns { req.extend(rr(&[0], T_OPT, size, 0, &[])); }
            if signed {
                let k = c.key.as_ref().unwrap();
                req = sign_request(&req, &k.name, &name("hmac-sha256."), k.alg, &k.secret, now, 300, 0x4242, &|m| m).0;
            }
            let input = |how: &str| format!("{qn} QTYPE {qtype} QCLASS {qclass} EDNS {edns:?} signed {signed} {how} | request {} | catalog: {}", hex(&req), c.what);
            let mut ask = |tcp: bool, buf_len: usize, out: &mut Vec<u8>| -> DMsg {
                let how = format!("{} buffer {buf_len}", if tcp { "TCP" } else { "UDP" });
                let info = ReceivedInfo::new("192.0.2.1".parse().unwrap(), if tcp { Transport::Tcp } else { Transport::Udp });
                let buf = &mut big[..buf_len];
                let r = catch_unwind(AssertUnwindSafe(|| match (c.call)(&req, info, buf) { Response::Single(n) => Some(n), Response::None => None }));
                let n = match r { Ok(Some(n)) => n, Ok(None) => fail("[C05] no response to a well-formed query", &input(&how), &"none", &"a response"), Err(_) => fail("[C05] Server::handle_message panicked", &input(&how), &"panic", &"a response") };
                out.clear();
                out.extend_from_slice(&big[..n]);
                let d = match decode(out) { Ok(d) => d, Err(why) => fail("[C02] the response does not decode", &input(&how), &format!("{why}: {}", hex(out)), &"a well-formed message") };
                if let Err(why) = pointer_check(out) { fail("[C02][C13] a name of the response is not well formed", &input(&how), &format!("{why}: {}", hex(out)), &"every pointer strictly backwards to a label of an earlier name"); }
                d
            };
            // ---- the complete response (TCP) against the reference
            let t = ask(true, 65535, &mut tcp_buf);
            let ql = labels_of_str(qn);
            let zone = c.zones.iter().filter(|m| m.class == qclass && m.in_zone(&ql)).max_by_key(|m| m.apex.len());
            let how = "TCP";
            if t.tc() { fail("[C04] TC set over TCP", &input(how), &"TC", &"TC clear"); }
            let glue = match zone {
                None => {
                    if t.ext_rcode() != REFUSED || t.data_counts() != [0, 0, 0] || t.aa() { fail("[C05] query outside every zone of the catalog", &input(how), &(t.ext_rcode(), t.data_counts(), t.aa()), &(REFUSED, [0, 0, 0], false)); }
                    vec![]
                }
                Some(m) => {
                    let w = resolve(m, &ql, qtype);
                    if t.ext_rcode() != w.rcode { fail("[C05] RCODE", &input(how), &t.ext_rcode(), &(w.rcode, show(&w.an), show(&w.ns))); }
                    if !w.servfail {
                        if t.aa() != w.aa { fail("[C05] AA", &input(how), &t.aa(), &w.aa); }
                        let (an, ns, ar) = (section(&t, 0), section(&t, 1), section(&t, 2));
                        if an != sorted(w.an.clone()) { fail("[C05] answer section (as a multiset)", &input(how), &show(&an), &show(&sorted(w.an.clone()))); }
                        if ns != sorted(w.ns.clone()) { fail("[C05] authority section (as a multiset)", &input(how), &show(&ns), &show(&sorted(w.ns.clone()))); }
                        if !included(&canon(&w.ar_must), &ar) || !included(&ar, &canon(&w.ar_may)) {
                            fail("[C05] additional section: must contain the addresses of the NS/MX/SRV targets (glue for a referral) and nothing else", &input(how), &show(&ar), &("at least", show(&sorted(w.ar_must.clone())), "at most", show(&sorted(w.ar_may.clone()))));
                        }
                    }
                    canon(&w.glue)
                }
            };
            // ---- UDP against the complete response (C04)
            let limit = edns.map_or(512, |s| (s as usize).clamp(512, PAYLOAD as usize));
            for buf_len in [PAYLOAD as usize, 65535, 70000] {
                let u = ask(false, buf_len, &mut udp_buf);
                let how = format!("UDP buffer {buf_len} (limit {limit}; the TCP response has {} octets)", tcp_buf.len());
                if udp_buf.len() > limit { fail("[C04] UDP response longer than the limit", &input(&how), &udp_buf.len(), &limit); }
                // A signed response: the TSIG key name may come out compressed although room for the uncompressed
                // RR was set aside (finding reported in notes/agent_reports/bounded_server.md): within that slack
                // both a truncated and a complete UDP response are accepted.
                let slack = if signed { c.key.as_ref().unwrap().name.len() - 2 } else { 0 };
                if tcp_buf.len() + slack > limit && tcp_buf.len() <= limit && u.tc() {
                    vq_bounded::finding("C04.tsig_reservation_slack",
                        "a TSIG-signed response whose complete (TCP) form fits the UDP limit is truncated over UDP: set_tsig reserves the uncompressed TSIG RR but finish writes the key name compressed",
                        &input(&how));
                    if u.data_counts() != [0, 0, 0] { fail("[C04] TC set but records present", &input(&how), &u.data_counts(), &[0, 0, 0]); }
                } else if tcp_buf.len() <= limit {
                    // (a signed response carries the time of signing: compared by content)
                    let same = if signed { u.b2 == t.b2 && u.b3 == t.b3 && (0..3).all(|s| section(&u, s) == section(&t, s)) && udp_buf.len() == tcp_buf.len() } else { udp_buf == tcp_buf };
                    if !same { fail("[C04] the complete response fits but the UDP response differs from it", &input(&how), &hex(&udp_buf), &hex(&tcp_buf)); }
                } else if u.tc() {
                    if u.data_counts() != [0, 0, 0] { fail("[C04] TC set but records present", &input(&how), &u.data_counts(), &[0, 0, 0]); }
                } else {
                    let same = u.ext_rcode() == t.ext_rcode() && u.aa() == t.aa() && section(&u, 0) == section(&t, 0) && section(&u, 1) == section(&t, 1);
                    if !same { fail("[C04] UDP response with TC clear differs from the complete response in RCODE, AA, answer or authority", &input(&how), &(u.ext_rcode(), u.aa(), show(&section(&u, 0)), show(&section(&u, 1))), &(t.ext_rcode(), t.aa(), show(&section(&t, 0)), show(&section(&t, 1)))); }
                    let ar = section(&u, 2);
                    if !included(&ar, &section(&t, 2)) { fail("[C04] UDP response with TC clear has additional records the complete response lacks", &input(&how), &show(&ar), &show(&section(&t, 2))); }
                    if !included(&glue, &ar) { fail("[C04] in-bailiwick referral glue omitted from a UDP response with TC clear", &input(&how), &show(&ar), &("must include", show(&glue))); }
                }
            }
        }}}}}
    }
    // ---- responses of more than 16384 octets [C02][C13]
    let mut huge = 0u64;
    for kind in 0..3 { for plain in [1020u16, 1021, 1022] { for l in 1..=30usize {
        // the first exchange that shares a suffix starts at offset 16358 / 16374 / 16390: keep the first-label lengths that
        // move its labels across offset 16384 (and a few on either side)
        if (plain == 1020 && l < 18) || (plain == 1021 && l > 24) || (plain == 1022 && l != 1 && l != 9) { continue; }
        let def = huge_zone(plain, l, kind);
        let want: Vec<RR> = sorted(def.recs.iter().filter(|r| r.rtype == MX).map(|r| (name("big.hg."), MX, 1, r.ttl, r.rdata.to_vec())).collect());
        let c = catalog(format!("SingleZoneCatalog: hg. with big.hg. MX = {plain} x big.hg. + exchanges sharing suffixes (kind {kind}, first label of {l} octets)"), vec![def], true, &[], None);
        for edns in [None, Some(4096u16)] {
            cases += 1;
            let mut req = header(0x4343, 0, 0, 1, 0, 0, edns.is_some() as u16);
            req.extend(question(&name("big.hg."), MX, 1));
            if let Some(size) = edns { req.extend(rr(&[0], T_OPT, size, 0, &[])); }
            let input = format!("big.hg. QTYPE MX EDNS {edns:?} over TCP | request {} | catalog: {}", hex(&req), c.what);
            let info = ReceivedInfo::new("192.0.2.1".parse().unwrap(), Transport::Tcp);
            let r = catch_unwind(AssertUnwindSafe(|| match (c.call)(&req, info, &mut big[..65535]) { Response::Single(n) => Some(n), Response::None => None }));
            let n = match r { Ok(Some(n)) => n, Ok(None) => fail("[C05] no response to a well-formed query", &input, &"none", &"a response"), Err(_) => fail("[C05] Server::handle_message panicked", &input, &"panic", &"a response") };
            let out = &big[..n];
            // shown: the last 120 octets (the part beyond offset 16384)
            let shown = |why: &str| format!("{why}; {n} octets, the last 120 from offset {}: {}", n.saturating_sub(120), hex(&out[n.saturating_sub(120)..]));
            let d = match decode(out) { Ok(d) => d, Err(why) => fail("[C02] the response does not decode", &input, &shown(&why), &"a well-formed message") };
            if let Err(why) = pointer_check(out) { fail("[C02][C13] a name of the response is not well formed", &input, &shown(&why), &"every pointer strictly backwards to a label of an earlier name"); }
            if d.tc() { fail("[C04] TC set over TCP", &input, &"TC", &"TC clear"); }
            let an = section(&d, 0);
            if d.ext_rcode() != 0 || an != want {
                let diff: Vec<RR> = an.iter().filter(|r| !want.contains(r)).cloned().collect();
                fail("[C05] answer section (as a multiset) of a response of more than 16384 octets", &input, &(d.ext_rcode(), an.len(), "records not in the RRset", show(&diff), shown("")), &(0, want.len(), "the RRset big.hg. MX"));
            }
            if n > 16384 { huge += 1; }
        }
    }}}
    if huge < 200 { fail("set-up: the responses meant to exceed 16384 octets do not", &huge, &"", &">= 200 of them"); }
    done(cases, "64 variants of the zone ap.ex. (6 toggles; alone in a SingleZoneCatalog / with 2 child zones and a class-CH zone in a HashMapTreeCatalog) and the zone bg. (every query also TSIG-signed with key key.dept.bg.) x every owner name, a child of each and 30-38 extra names x 10 QTYPEs x QCLASS IN (CH where such a zone exists) x EDNS none/1232/4096 (600 for bg.) x TCP + UDP with 3 response-buffer sizes; zone hg.: big.hg. MX over TCP without / with EDNS, RRset = 1020/1021/1022 records with exchange big.hg. + 2-4 exchanges sharing suffixes (3 kinds: out-of-zone, in-zone, three labels deep) whose first label has 18..=30 / 1..=24 / 1, 9 octets, so that the response exceeds 16384 octets and each label of those names lies on either side of offset 16384; every response also walked by the strict pointer check");
}
