//! Bounded stand-in for C13 (name compression only emits valid, permitted pointers): the same
//! enumeration of writer operation sequences as bnd_writer (see ../writer_drv.rs), checking only
//! the pointer clauses: every compression pointer points strictly backwards to the first octet of
//! a label of an earlier name; none inside SRV / Chaosnet A / TSIG / unknown-type RDATA; none in
//! names written while compression was disabled.  The first clause is also the writer side of C02
//! ("every name is well formed"): its counterexamples are tagged [C13] [C02], the others [C13].
#[path = "../writer_drv.rs"]
mod writer_drv;
fn main() { writer_drv::main_with(false, true) }
