//! Bounded stand-in for C20 (the zone store holds exactly the records added to it): every sequence of
//! up to LEN `add` calls over a universe of 20 records — accepted ones (new nodes, nested owners that
//! create empty non-terminals, mixed-case owners and apex, duplicates, case-variant NS RDATA, a type
//! >= 64, a wildcard, a delegation with glue, a CNAME) and rejected ones of each kind (owner above /
//! beside the zone, class mismatch at an existing and at a new deep owner, TTL mismatch for a type < 64
//! and a type >= 64) — on the real `HashMapTreeZone`.  After every step: add's Ok/Err (not the error
//! kind) equals the reference (owner at/below apex, class matches, TTL equals the existing RRset's);
//! iter_by_node yields every node once incl. empty non-terminals with exactly its de-duplicated RRsets;
//! iter_by_rrset yields exactly those RRsets; soa()/ns() are the apex SOA/NS RRsets; and all (checked) lookups
//! of 20 names agree with the reference built from the ACCEPTED records only — so a rejected add
//! changes no lookup and no iteration (no stray empty nodes).
#[path = "../zone_ref.rs"]
mod zone_ref;
use quandary::db::zone::GluePolicy;
use quandary::db::HashMapTreeZone;
use std::panic::{catch_unwind, AssertUnwindSafe};
use vq_bounded::{done, fail};
use zone_ref::*;

const LEN: usize = 4;

const SOA_RD: &[u8] = b"\x02ns\x02ap\x02ex\x00\x01h\x02ap\x02ex\x00\x00\x00\x00\x01\x00\x00\x00\x02\x00\x00\x00\x03\x00\x00\x00\x04\x00\x00\x00\x05";
const fn rec(owner: &'static str, rtype: u16, class: u16, ttl: u32, rdata: &'static [u8]) -> Rec { Rec { owner, rtype, class, ttl, rdata } }

const OPS: [Rec; 20] = [
    rec("ap.ex.", SOA, IN, 300, SOA_RD),
    rec("ap.ex.", NS, IN, 300, b"\x02ns\x02ap\x02ex\x00"),
    rec("AP.ex.", NS, IN, 300, b"\x02NS\x02Ap\x02ex\x00"),          // the same name server in another case: a duplicate
    rec("a.ap.ex.", A, IN, 300, &[10, 0, 0, 1]),
    rec("A.Ap.ex.", A, IN, 300, &[10, 0, 0, 2]),                       // same RRset, owner in another case
    rec("a.ap.ex.", A, IN, 600, &[10, 0, 0, 3]),                       // other TTL
    rec("b.a.ap.ex.", TXT, IN, 300, b"\x02hi"),                        // makes a.ap.ex. an empty non-terminal
    rec("a.ap.ex.", T257, IN, 300, b"\x00\x05issue;"),
    rec("a.ap.ex.", T257, IN, 300, b"\x00\x05issue!"),
    rec("a.ap.ex.", T257, IN, 600, b"\x00\x05issue?"),                 // other TTL, type >= 64
    rec("*.m.ap.ex.", TXT, IN, 300, b"\x01w"),
    rec("n.m.ap.ex.", A, CH, 300, &[1, 2, 3, 4]),                      // class mismatch, owner (and m) possibly new
    rec("q.p.n.m.ap.ex.", TXT, CH, 300, b"\x01q"),                     // class mismatch, deep new owner
    rec("a.ap.ex.", A, CH, 300, &[10, 0, 0, 1]),                       // class mismatch at a (possibly) existing RRset
    rec("ex.", A, IN, 300, &[10, 0, 0, 5]),                            // above the zone
    rec("a.xp.ex.", A, IN, 300, &[10, 0, 0, 6]),                       // beside the zone
    rec("ap.ex.zz.", T257, IN, 300, b"\x00\x05issue;"),                // apex labels, but not as a suffix
    rec("d.ap.ex.", NS, IN, 300, b"\x02ns\x01d\x02ap\x02ex\x00"),
    rec("g.d.ap.ex.", A, IN, 300, &[10, 0, 0, 7]),
    rec("c.ap.ex.", CNAME, IN, 300, b"\x01a\x02ap\x02ex\x00"),
];

const QUERIES: [&str; 20] = [
    "ap.ex.", "a.ap.ex.", "A.AP.EX.", "b.a.ap.ex.", "x.a.ap.ex.", "m.ap.ex.", "*.m.ap.ex.", "n.m.ap.ex.", "p.n.m.ap.ex.",
    "q.p.n.m.ap.ex.", "x.m.ap.ex.", "d.ap.ex.", "g.d.ap.ex.", "x.d.ap.ex.", "c.ap.ex.", "k.ap.ex.",
    // outside the zone (checked lookups only)
    "ex.", "a.xp.ex.", "xp.ex.", "ap.ex.zz.",
];
const TYPES: [u16; 6] = [A, NS, CNAME, SOA, TXT, T257];

fn run(apex: &'static str, seq: &[usize], names: &[QName]) -> u64 {
    let mut z = HashMapTreeZone::new(apex.parse().unwrap(), class_of(IN), GluePolicy::Narrow);
    let mut m = Model::new(apex, IN);
    let ops: Vec<&Rec> = seq.iter().map(|&i| &OPS[i]).collect();
    let input = (apex, "adds in this order", &ops);
    let r = catch_unwind(AssertUnwindSafe(|| {
        for r in &ops {
            let (got, want) = (real_add(&mut z, r), m.add(r));
            if got != want { fail(&format!("add accepted (true) / rejected (false) the record {r:?}"), &input, &got, &want); }
        }
        if let Err((what, got, want)) = compare_iteration(&z, &m) { fail(&format!("{what} after the adds"), &input, &got, &want); }
        match compare_lookups(&z, &m, names, &TYPES, false) {
            Ok(n) => n,
            Err((what, got, want)) => fail(&format!("{what} after the adds (reference = accepted records only)"), &input, &got, &want),
        }
    }));
    match r {
        Ok(n) => n,
        Err(_) => fail("panic inside the zone store", &input, &"panic", &"no panic"),
    }
}

fn main() {
    let names = qnames(&QUERIES);
    let mut cases = 0u64;
    // every sequence of length 0..=LEN exactly once, shortest first; each is run from a fresh zone, so the
    // state after every step of every sequence is observed (as the end of the shorter sequence)
    for len in 0..=LEN {
        let mut seq = vec![0usize; len];
        'odometer: loop {
            cases += 1 + run("ap.ex.", &seq, &names);
            if len <= 2 { cases += run("Ap.EX.", &seq, &names); }
            let mut k = len;
            loop {
                if k == 0 { break 'odometer; }
                k -= 1;
                seq[k] += 1;
                if seq[k] < OPS.len() { break; }
                seq[k] = 0;
            }
        }
    }
    done(cases, "all add sequences of length <= 4 over a 20-record universe (incl. each rejection reason), full iteration + soa/ns + lookups of 20 names x 6 types + addrs + all x search_below_cuts (checked lookups) after each; sequences of length <= 2 also under a mixed-case apex");
}
