//! Bounded stand-in for C20 (the zone store holds exactly the records added to it): every sequence of
//! up to LEN `add` calls over a universe of 20 records — accepted ones (new nodes, nested owners that
//! create empty non-terminals, mixed-case owners and apex, duplicates, case-variant NS RDATA, a type
//! >= 64, a wildcard, a delegation with glue, a CNAME) and rejected ones of each kind (owner above /
//! beside the zone, class mismatch at an existing and at a new deep owner, TTL mismatch for a type < 64
//! and a type >= 64) — on the real `HashMapTreeZone`.  After every step: add's Ok/Err (not the error
//! kind) equals the reference (owner at/below apex, class matches, TTL equals the existing RRset's);
//! iter_by_node yields every node once incl. empty non-terminals with exactly its de-duplicated RRsets;
//! iter_by_rrset yields exactly those RRsets; soa()/ns() are the apex SOA/NS RRsets; and all (checked) lookups
//! of 20 names agree with the reference built from the ACCEPTED records only — so a rejected add
//! changes no lookup and no iteration (no stray empty nodes).
//! Deep zones (iteration only): below the apex a tree of `depth` levels with `k` branches per level, records
//! at a chosen set of leaves (every other node on the way is an empty non-terminal) or additionally at every
//! inner node: every subset of the 8 leaves of (k, depth) = (2, 3) four times, every 29th subset of the 16 leaves of (2, 4) once
//! (the order in which the store walks its hash maps is random per zone), the full trees (2, 3), (2, 4),
//! (2, 5), (3, 3), (4, 2), (3, 4) eight times each, also hanging below a chain s.r.ap.ex. next to a sibling.
#[path = "../zone_ref.rs"]
mod zone_ref;
use quandary::db::zone::GluePolicy;
use quandary::db::HashMapTreeZone;
use std::panic::{catch_unwind, AssertUnwindSafe};
use vq_bounded::{done, fail};
use zone_ref::*;

const LEN: usize = 4;

const SOA_RD: &[u8] = b"\x02ns\x02ap\x02ex\x00\x01h\x02ap\x02ex\x00\x00\x00\x00\x01\x00\x00\x00\x02\x00\x00\x00\x03\x00\x00\x00\x04\x00\x00\x00\x05";
const fn rec(owner: &'static str, rtype: u16, class: u16, ttl: u32, rdata: &'static [u8]) -> Rec { Rec { owner, rtype, class, ttl, rdata } }

const OPS: [Rec; 20] = [
    rec("ap.ex.", SOA, IN, 300, SOA_RD),
    rec("ap.ex.", NS, IN, 300, b"\x02ns\x02ap\x02ex\x00"),
    rec("AP.ex.", NS, IN, 300, b"\x02NS\x02Ap\x02ex\x00"),          // the same name server in another case: a duplicate
    rec("a.ap.ex.", A, IN, 300, &[10, 0, 0, 1]),
    rec("A.Ap.ex.", A, IN, 300, &[10, 0, 0, 2]),                       // same RRset, owner in another case
    rec("a.ap.ex.", A, IN, 600, &[10, 0, 0, 3]),                       // other TTL
    rec("b.a.ap.ex.", TXT, IN, 300, b"\x02hi"),                        // makes a.ap.ex. an empty non-terminal
    rec("a.ap.ex.", T257, IN, 300, b"\x00\x05issue;"),
    rec("a.ap.ex.", T257, IN, 300, b"\x00\x05issue!"),
    rec("a.ap.ex.", T257, IN, 600, b"\x00\x05issue?"),                 // other TTL, type >= 64
    rec("*.m.ap.ex.", TXT, IN, 300, b"\x01w"),
    rec("n.m.ap.ex.", A, CH, 300, &[1, 2, 3, 4]),                      // class mismatch, owner (and m) possibly new
    rec("q.p.n.m.ap.ex.", TXT, CH, 300, b"\x01q"),                     // class mismatch, deep new owner
    rec("a.ap.ex.", A, CH, 300, &[10, 0, 0, 1]),                       // class mismatch at a (possibly) existing RRset
    rec("ex.", A, IN, 300, &[10, 0, 0, 5]),                            // above the zone
    rec("a.xp.ex.", A, IN, 300, &[10, 0, 0, 6]),                       // beside the zone
    rec("ap.ex.zz.", T257, IN, 300, b"\x00\x05issue;"),                // apex labels, but not as a suffix
    rec("d.ap.ex.", NS, IN, 300, b"\x02ns\x01d\x02ap\x02ex\x00"),
    rec("g.d.ap.ex.", A, IN, 300, &[10, 0, 0, 7]),
    rec("c.ap.ex.", CNAME, IN, 300, b"\x01a\x02ap\x02ex\x00"),
];

const QUERIES: [&str; 20] = [
    "ap.ex.", "a.ap.ex.", "A.AP.EX.", "b.a.ap.ex.", "x.a.ap.ex.", "m.ap.ex.", "*.m.ap.ex.", "n.m.ap.ex.", "p.n.m.ap.ex.",
    "q.p.n.m.ap.ex.", "x.m.ap.ex.", "d.ap.ex.", "g.d.ap.ex.", "x.d.ap.ex.", "c.ap.ex.", "k.ap.ex.",
    // outside the zone (checked lookups only)
    "ex.", "a.xp.ex.", "xp.ex.", "ap.ex.zz.",
];
const TYPES: [u16; 6] = [A, NS, CNAME, SOA, TXT, T257];

fn run(apex: &'static str, seq: &[usize], names: &[QName]) -> u64 {
    let mut z = HashMapTreeZone::new(apex.parse().unwrap(), class_of(IN), GluePolicy::Narrow);
    let mut m = Model::new(apex, IN);
    let ops: Vec<&Rec> = seq.iter().map(|&i| &OPS[i]).collect();
    let input = (apex, "adds in this order", &ops);
    let r = catch_unwind(AssertUnwindSafe(|| {
        for r in &ops {
            let (got, want) = (real_add(&mut z, r), m.add(r));
            if got != want { fail(&format!("add accepted (true) / rejected (false) the record {r:?}"), &input, &got, &want); }
        }
        if let Err((what, got, want)) = compare_iteration(&z, &m) { fail(&format!("{what} after the adds"), &input, &got, &want); }
        match compare_lookups(&z, &m, names, &TYPES, false) {
            Ok(n) => n,
            Err((what, got, want)) => fail(&format!("{what} after the adds (reference = accepted records only)"), &input, &got, &want),
        }
    }));
    match r {
        Ok(n) => n,
        Err(_) => fail("panic inside the zone store", &input, &"panic", &"no panic"),
    }
}

/// All leaf names of the full tree with `k` branches at each of `depth` levels below `base` (labels b0, b1, ..).
fn leaves(k: usize, depth: usize, base: &str) -> Vec<&'static str> {
    let mut v = vec![base.to_string()];
    for _ in 0..depth { v = v.iter().flat_map(|n| (0..k).map(move |b| format!("b{b}.{n}"))).collect(); }
    v.into_iter().map(|n| &*Box::leak(n.into_boxed_str())).collect()
}

/// Builds the zone from TXT records at the given owners (plus, with `inner`, at every name between them and
/// `base`) and compares both iterations (and soa()/ns()) with the model.
fn run_deep(what: &str, owners: &[&'static str], base: &'static str, inner: bool) {
    let mut z = HashMapTreeZone::new("ap.ex.".parse().unwrap(), class_of(IN), GluePolicy::Narrow);
    let mut m = Model::new("ap.ex.", IN);
    let mut recs = vec![rec("ap.ex.", SOA, IN, 300, SOA_RD)];
    if base != "ap.ex." { recs.push(rec("sib.r.ap.ex.", A, IN, 300, &[10, 0, 0, 9])); recs.push(rec("z.ap.ex.", A, IN, 300, &[10, 0, 0, 8])); }
    for o in owners {
        recs.push(rec(o, TXT, IN, 300, b"\x04leaf"));
        if inner {
            let mut n: &'static str = o;
            while let Some((_, parent)) = n.split_once('.') {
                if parent.len() <= base.len() { break; }
                recs.push(rec(parent, T257, IN, 300, b"\x00\x05inner"));
                n = parent;
            }
        }
    }
    let input = (what, "TXT records at", owners, "records at the inner nodes", inner);
    let r = catch_unwind(AssertUnwindSafe(|| {
        for r in &recs {
            let (got, want) = (real_add(&mut z, r), m.add(r));
            if !got || !want { fail(&format!("add accepted (true) / rejected (false) the record {r:?}"), &input, &got, &want); }
        }
        if let Err((what, got, want)) = compare_iteration(&z, &m) { fail(&format!("{what} of a deep zone (every node once, incl. empty non-terminals; exactly the RRsets added)"), &input, &got, &want); }
    }));
    if r.is_err() { fail("panic inside the zone store", &input, &"panic", &"no panic"); }
}

fn deep_zones() -> u64 {
    let mut cases = 0u64;
    for (k, depth, repeat) in [(2usize, 3usize, 4usize), (2, 4, 1)] {
        let all = leaves(k, depth, "ap.ex.");
        // depth 3: every subset; depth 4: every 29th of the 65536 subsets (and the full set)
        for subset in (0u32..1 << all.len()).filter(|s| depth == 3 || s % 29 == 0 || *s == 0xffff) {
            let owners: Vec<&'static str> = all.iter().enumerate().filter(|(i, _)| subset >> i & 1 == 1).map(|(_, n)| *n).collect();
            for round in 0..repeat {
                for inner in [false, true] {
                    run_deep(&format!("subset {subset:#b} of the leaves of the tree with {k} branches at each of {depth} levels below ap.ex."), &owners, "ap.ex.", inner);
                    cases += 1;
                }
            }
        }
    }
    for (k, depth) in [(2usize, 3usize), (2, 4), (2, 5), (3, 3), (4, 2), (3, 4)] {
        for base in ["ap.ex.", "s.r.ap.ex."] {
            let all = leaves(k, depth, base);
            for _ in 0..8 {
                for inner in [false, true] {
                    run_deep(&format!("full tree with {k} branches at each of {depth} levels below {base}"), &all, base, inner);
                    cases += 1;
                }
            }
        }
    }
    cases
}

fn main() {
    let names = qnames(&QUERIES);
    let mut cases = deep_zones();
    // every sequence of length 0..=LEN exactly once, shortest first; each is run from a fresh zone, so the
    // state after every step of every sequence is observed (as the end of the shorter sequence)
    for len in 0..=LEN {
        let mut seq = vec![0usize; len];
        'odometer: loop {
            cases += 1 + run("ap.ex.", &seq, &names);
            if len <= 2 { cases += run("Ap.EX.", &seq, &names); }
            let mut k = len;
            loop {
                if k == 0 { break 'odometer; }
                k -= 1;
                seq[k] += 1;
                if seq[k] < OPS.len() { break; }
                seq[k] = 0;
            }
        }
    }
    done(cases, "all add sequences of length <= 4 over a 20-record universe (incl. each rejection reason), full iteration + soa/ns + lookups of 20 names x 6 types + addrs + all x search_below_cuts (checked lookups) after each; sequences of length <= 2 also under a mixed-case apex; deep zones (iteration + soa/ns only): TXT records at every subset of the 8 leaves of the binary tree of depth 3 below the apex (x 4 runs) and at every 29th subset (as a bit set) of the 16 leaves of depth 4 (x 1), with and without records at the inner nodes; full trees (branches, depth) = (2,3) (2,4) (2,5) (3,3) (4,2) (3,4) below the apex and below s.r.ap.ex. (with siblings), x 8 runs each");
}
