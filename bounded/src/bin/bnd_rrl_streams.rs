//! Bounded stand-in for C27 (which responses share a rate-limit stream) and for the clauses of C26
//! that can be observed through the public API: `Server::handle_message` of the real crate with
//! `RrlParams`, a catalog holding one small zone, and ordered PAIRS of requests.
//!
//! Requests (16 kinds): QNAMEs that exist (also in another letter case, another type = NODATA, with
//! EDNS), two names covered by the same wildcard and one covered by another, two non-existent
//! names, a name outside every zone, EDNS version 1 (BADVERS, an RCODE whose header nibble is 0),
//! a header without question (FORMERR), a non-QUERY opcode, TCP.  Sources (8): IPv4 addresses in
//! the same and in different /24, an IPv4-mapped IPv6 address, IPv6 addresses in the same and in
//! different /56, an IPv4-compatible IPv6 address.  Prefix configurations (3): /24+/56 (defaults),
//! /32+/64, /8+/32.
//!
//! C27 (one response per stream and window, slip 0, fresh server per pair): the second response
//! is withheld iff both requests are UDP QUERYs, their sources are of the same family and share the
//! configured prefix (IPv4-mapped counts as IPv4) and the responses have the same category
//! (NOERROR: also the same QNAME ignoring case or the same wildcard source of synthesis; NXDOMAIN;
//! every other RCODE, taken from the response actually sent incl. the extended RCODE bits).
//! C26: slip 0 => a limited response is dropped; slip 1 => it is always sent, truncated (TC set,
//! no answer/authority records, nothing but OPT in the additional section) - also when the request
//! has no question; a burst gets exactly rate*window responses; after an idle period longer than
//! the window a burst again gets exactly rate*window responses (one 2.1 s sleep).
//! Time: buckets refill after whole seconds; unexpected outcomes are re-tried (fresh server) and
//! reported only when they persist; the idle case is judged only when its timing was as planned.
use quandary::class::Class;
use quandary::db::catalog::Entry;
use quandary::db::zone::GluePolicy;
use quandary::db::{HashMapTreeCatalog, HashMapTreeZone};
use quandary::name::Name;
use quandary::rr::{Rdata, Ttl, Type};
use quandary::server::{ReceivedInfo, Response, RrlParams, Server, Transport};
use std::net::IpAddr;
use std::panic::{catch_unwind, AssertUnwindSafe};
use std::sync::Arc;
use std::time::{Duration, Instant};
use vq_bounded::{done, fail};

type Cat = HashMapTreeCatalog<HashMapTreeZone, ()>;

// ------------------------------------------------------------------------------ the zone

fn catalog() -> Arc<Cat> {
    let name = |s: &str| -> Box<Name> { s.parse().unwrap() };
    let apex = name("rl.test.");
    let mut zone = HashMapTreeZone::new(apex.clone(), Class::IN, GluePolicy::Narrow);
    let soa = Rdata::new_soa(&name("ns.rl.test."), &name("h.rl.test."), 1, 3600, 600, 86400, 60);
    zone.add(&apex, Type::SOA, Class::IN, Ttl::from(300), &soa).unwrap();
    let ns = name("ns.rl.test.");
    zone.add(&apex, Type::NS, Class::IN, Ttl::from(300), ns.wire_repr().try_into().unwrap()).unwrap();
    for (owner, last) in [("ns.rl.test.", 53u8), ("a.rl.test.", 1), ("b.rl.test.", 2), ("*.w.rl.test.", 3), ("*.v.rl.test.", 4)] {
        zone.add(&name(owner), Type::A, Class::IN, Ttl::from(300), (&[10u8, 9, 9, last]).try_into().unwrap()).unwrap();
    }
    let mut cat = Cat::new();
    cat.insert(Entry::Loaded(Arc::new(zone), ()));
    Arc::new(cat)
}

// ------------------------------------------------------------------------------ requests

#[derive(Clone, Copy, Debug, PartialEq)]
enum Cat3 { NoError, NxDomain, Error }

/// The stream a response belongs to as far as the request determines it; None = never limited.
#[derive(Clone, Debug)]
struct Req {
    what: &'static str,
    qname: Option<&'static str>,
    qtype: u16,
    opcode: u8,
    edns_version: Option<u8>,
    tcp: bool,
    /// expected category and, for NOERROR, the name the stream is keyed by (lower case)
    category: Cat3,
    stream_name: &'static str,
}

fn requests() -> Vec<Req> {
    let q = |what, qname: &'static str, category, stream_name| Req { what, qname: Some(qname), qtype: 1, opcode: 0, edns_version: None, tcp: false, category, stream_name };
    vec![
        q("a.rl.test. A", "a.rl.test.", Cat3::NoError, "a.rl.test."),
        q("A.RL.TEST. A (other case)", "A.RL.TEST.", Cat3::NoError, "a.rl.test."),
        Req { qtype: 28, ..q("a.rl.test. AAAA (no data)", "a.rl.test.", Cat3::NoError, "a.rl.test.") },
        Req { edns_version: Some(0), ..q("a.rl.test. A with EDNS", "a.rl.test.", Cat3::NoError, "a.rl.test.") },
        q("b.rl.test. A", "b.rl.test.", Cat3::NoError, "b.rl.test."),
        q("x.w.rl.test. A (wildcard *.w)", "x.w.rl.test.", Cat3::NoError, "*.w.rl.test."),
        q("Y.W.rl.test. A (wildcard *.w)", "Y.W.rl.test.", Cat3::NoError, "*.w.rl.test."),
        q("x.v.rl.test. A (wildcard *.v)", "x.v.rl.test.", Cat3::NoError, "*.v.rl.test."),
        q("n1.rl.test. A (no such name)", "n1.rl.test.", Cat3::NxDomain, ""),
        q("n2.rl.test. A (no such name)", "n2.rl.test.", Cat3::NxDomain, ""),
        q("a.other.example. A (not authoritative)", "a.other.example.", Cat3::Error, ""),
        Req { edns_version: Some(1), ..q("a.rl.test. A, EDNS version 1 (BADVERS)", "a.rl.test.", Cat3::Error, "") },
        Req { edns_version: Some(1), ..q("b.rl.test. A, EDNS version 1 (BADVERS)", "b.rl.test.", Cat3::Error, "") },
        Req { what: "header only, QDCOUNT 0 (FORMERR)", qname: None, qtype: 0, opcode: 0, edns_version: None, tcp: false, category: Cat3::Error, stream_name: "" },
        Req { opcode: 2, ..q("a.rl.test. A with opcode STATUS", "a.rl.test.", Cat3::Error, "") },
        Req { tcp: true, ..q("a.rl.test. A over TCP", "a.rl.test.", Cat3::NoError, "a.rl.test.") },
    ]
}

impl Req {
    fn limited_kind(&self) -> bool { !self.tcp && self.opcode == 0 }
    fn wire(&self) -> Vec<u8> {
        let mut m = vec![0x12, 0x34, self.opcode << 3, 0, 0, self.qname.is_some() as u8, 0, 0, 0, 0, 0, self.edns_version.is_some() as u8];
        if let Some(qname) = self.qname {
            let n: Box<Name> = qname.parse().unwrap();
            m.extend_from_slice(n.wire_repr());
            m.extend(self.qtype.to_be_bytes());
            m.extend([0, 1]);
        }
        if let Some(v) = self.edns_version { m.extend([0, 0, 41, 0x04, 0xd0, 0, v, 0, 0, 0, 0]); }
        m
    }
}

const SOURCES: [&str; 8] = ["10.0.0.1", "10.0.0.200", "10.0.1.1", "::ffff:10.0.0.7", "2001:db8::1", "2001:db8:0:ff::1", "2001:db8:0:100::1", "::10.0.0.1"];

/// (is IPv4 after canonicalisation, address bits left-aligned in 128 bits)
fn family_and_bits(source: &str) -> (bool, u128) {
    match source.parse::<IpAddr>().unwrap() {
        IpAddr::V4(a) => (true, (u32::from(a) as u128) << 96),
        IpAddr::V6(a) => {
            let o = a.octets();
            if o[..10] == [0; 10] && o[10] == 0xff && o[11] == 0xff { (true, (u32::from_be_bytes([o[12], o[13], o[14], o[15]]) as u128) << 96) }
            else { (false, u128::from(a)) }
        }
    }
}
fn same_prefix(s1: &str, s2: &str, v4_len: u8, v6_len: u8) -> bool {
    let ((f1, b1), (f2, b2)) = (family_and_bits(s1), family_and_bits(s2));
    let len = if f1 { v4_len } else { v6_len } as u32;
    f1 == f2 && (len == 0 || (b1 ^ b2) >> (128 - len) == 0)
}

// ------------------------------------------------------------------------------ driving the server

struct Answer { tc: bool, rcode: u16, ancount: u16, nscount: u16, arcount: u16 }

struct Driver { cat: Arc<Cat>, buf: Vec<u8> }
impl Driver {
    fn server(&self, rates: (u32, u32, u32, u32), slip: usize, v4_len: u8, v6_len: u8) -> Server<Cat> {
        let mut p = RrlParams::new(rates.0, rates.1, rates.2, rates.3).unwrap();
        p.set_slip(slip);
        p.set_ipv4_prefix_len(v4_len).unwrap();
        p.set_ipv6_prefix_len(v6_len).unwrap();
        p.set_size(7).unwrap();
        let mut s = Server::new(self.cat.clone());
        s.set_rrl_params(Some(p));
        s
    }
    fn send(&mut self, server: &Server<Cat>, req: &Req, source: &str) -> Option<Answer> {
        let msg = req.wire();
        let transport = if req.tcp { Transport::Tcp } else { Transport::Udp };
        let buf = &mut self.buf;
        let r = catch_unwind(AssertUnwindSafe(|| {
            let info = ReceivedInfo::new(source.parse().unwrap(), transport);
            match server.handle_message(&msg, info, buf) { Response::Single(n) => Some(n), Response::None => None }
        }));
        let n = match r { Ok(n) => n?, Err(_) => fail("[C26][C27] Server::handle_message panicked", &(req.what, source), &"panic", &"a response or none") };
        let b = &self.buf[..n];
        let be = |i: usize| u16::from_be_bytes([b[i], b[i + 1]]);
        // extended RCODE: upper 8 bits in the first octet of the TTL of the OPT record, if there is one
        let upper = opt_ttl(b).map_or(0, |ttl| (ttl >> 24) as u16);
        Some(Answer { tc: b[2] & 2 != 0, rcode: upper << 4 | (b[3] & 0xf) as u16, ancount: be(6), nscount: be(8), arcount: be(10) })
    }
}

/// The TTL field of the first OPT record of a message (sections walked with a minimal RFC 1035 4.1 scanner).
fn opt_ttl(b: &[u8]) -> Option<u32> {
    let be = |i: usize| -> Option<usize> { Some((*b.get(i)? as usize) << 8 | *b.get(i + 1)? as usize) };
    let skip_name = |mut pos: usize| -> Option<usize> {
        loop {
            let o = *b.get(pos)? as usize;
            if o >= 0xc0 { return Some(pos + 2); }
            if o == 0 { return Some(pos + 1); }
            pos += 1 + o;
        }
    };
    let mut pos = 12;
    for _ in 0..be(4)? { pos = skip_name(pos)? + 4; }
    for _ in 0..be(6)? + be(8)? + be(10)? {
        pos = skip_name(pos)?;
        if be(pos)? == 41 { return Some((be(pos + 4)? as u32) << 16 | be(pos + 6)? as u32); }
        pos += 10 + be(pos + 8)?;
    }
    None
}

fn category_of(rcode: u16) -> Cat3 { match rcode { 0 => Cat3::NoError, 3 => Cat3::NxDomain, _ => Cat3::Error } }

fn main() {
    let mut d = Driver { cat: catalog(), buf: vec![0u8; 65535] };
    let reqs = requests();
    let mut cases = 0u64;

    // ---- C26 idle case, part 1: fill a stream now, come back after the other checks
    let idle_server = d.server((1, 1, 1, 1), 0, 24, 56);
    let before_fill = Instant::now();
    let first = d.send(&idle_server, &reqs[0], "10.9.9.9").is_some();
    let second = d.send(&idle_server, &reqs[0], "10.9.9.9").is_some();
    // (a second stream with the largest possible rate: rate * idle seconds exceeds 32 bits)
    let big_server = d.server((u32::MAX, u32::MAX, u32::MAX, 1), 0, 24, 56);
    d.send(&big_server, &reqs[0], "10.9.9.9");
    let after_fill = Instant::now();
    if !first { fail("[C26][C27] the first response of a stream was withheld", &reqs[0].what, &"not answered", &"answered"); }
    let idle_usable = !second && after_fill - before_fill < Duration::from_millis(300);

    // ---- C27: pairs
    for (v4_len, v6_len) in [(24u8, 56u8), (32, 64), (8, 32)] {
        for r1 in &reqs { for r2 in &reqs { for s1 in SOURCES { for s2 in SOURCES {
            cases += 1;
            let input = (("first", r1.what, s1), ("second", r2.what, s2), ("prefix lengths", v4_len, v6_len));
            let mut unexpected: Option<bool> = None;          // Some(share) = the outcome contradicted `share` on every attempt
            for _attempt in 0..3 {
                let server = d.server((1, 1, 1, 1), 0, v4_len, v6_len);
                let Some(a1) = d.send(&server, r1, s1) else { fail("[C26][C27] the first response of a fresh server was withheld", &input, &"not answered", &"answered") };
                if category_of(a1.rcode) != r1.category { fail("[C27] set-up: the response has an RCODE of another category than the scenario intends", &input, &a1.rcode, &r1.category); }
                let second_answered = d.send(&server, r2, s2).is_some();
                let share = r1.limited_kind() && r2.limited_kind() && same_prefix(s1, s2, v4_len, v6_len) && r1.category == r2.category
                    && (r1.category != Cat3::NoError || r1.stream_name == r2.stream_name);
                if second_answered != share { unexpected = None; break; }
                unexpected = Some(share);
            }
            match unexpected {
                Some(true) => fail("[C27] two responses of the same stream were both sent (limit: one per window)", &input, &"second answered", &"second withheld"),
                Some(false) => fail("[C27] a response was withheld although the previous one belongs to another stream (or is never limited)", &input, &"second withheld", &"second answered"),
                None => (),
            }
        }}}}
    }

    // ---- C26: slip 1 => always slipped, slip 0 => always dropped; also for requests without a question
    for r in &reqs {
        for s in ["10.0.0.1", "2001:db8::1"] {
            for slip in [0usize, 1] {
                cases += 1;
                let input = (r.what, s, ("slip", slip));
                let mut bad: Option<String> = None;
                for _attempt in 0..3 {
                    let server = d.server((1, 1, 1, 1), slip, 24, 56);
                    let a1 = d.send(&server, r, s);
                    let a2 = d.send(&server, r, s);
                    let a3 = d.send(&server, r, s);
                    bad = match (a1, a2, a3) {
                        (None, _, _) => Some("the first response was withheld".into()),
                        (Some(_), a2, a3) if !r.limited_kind() =>
                            if a2.map_or(true, |a| a.tc) || a3.map_or(true, |a| a.tc) { Some("a response that is never limited (TCP / non-QUERY) was withheld or truncated".into()) } else { None },
                        (Some(_), None, None) if slip == 0 => None,
                        (Some(_), _, _) if slip == 0 => Some("slip 0: a limited response was sent".into()),
                        (Some(_), Some(a2), Some(a3)) => {
                            let opt = r.edns_version.is_some() as u16;
                            if [a2, a3].iter().all(|a| a.tc && a.ancount == 0 && a.nscount == 0 && a.arcount <= opt) { None }
                            else { Some("slip 1: a limited response was sent without TC or with records left in it".into()) }
                        }
                        _ => Some("slip 1: a limited response was dropped instead of slipped".into()),
                    };
                    if bad.is_none() { break; }
                }
                if let Some(b) = bad { fail(&format!("[C26] {b}"), &input, &"see above", &"slip 0: dropped; slip 1: sent with TC and no records (OPT allowed); TCP and non-QUERY untouched"); }
            }
        }
    }

    // ---- C26: a burst gets exactly rate*window responses (per category)
    for (rate, window) in [(1u32, 1u32), (3, 2), (2, 5), (7, 1)] {
        for (ri, other_rates) in [(0usize, (rate, 50, 50, window)), (8, (50, rate, 50, window)), (10, (50, 50, rate, window)), (13, (50, 50, rate, window))] {
            cases += 1;
            let limit = (rate * window) as usize;
            let input = (reqs[ri].what, ("rate", rate), ("window", window));
            let mut got = 0;
            for _attempt in 0..3 {
                let server = d.server(other_rates, 0, 24, 56);
                got = (0..limit + 4).filter(|_| d.send(&server, &reqs[ri], "10.0.0.1").is_some()).count();
                if got == limit { break; }
            }
            if got != limit { fail("[C26] a burst on one stream did not get exactly rate*window responses", &input, &got, &limit); }
        }
    }

    // ---- C26 idle case, part 2: after > window + 1 s of idleness a burst again gets exactly rate*window = 1 response
    let mut idle_checked = false;
    if idle_usable {
        let target = after_fill + Duration::from_millis(2100);
        let now = Instant::now();
        if target > now { std::thread::sleep(target - now); }
        let burst_start = Instant::now();
        let got = (0..5).filter(|_| d.send(&idle_server, &reqs[0], "10.9.9.9").is_some()).count();
        let burst_end = Instant::now();
        cases += 1;
        if d.send(&big_server, &reqs[0], "10.9.9.9").is_none() { fail("[C26] a response far below the limit (rate 2^32-1 per second) was withheld after an idle period", &"fill, idle 2.1 s, one more response", &"withheld", &"answered"); }
        // judged only if the whole burst lies inside [fill + 2 s, fill + 3 s): no further whole second can have passed
        if burst_start >= after_fill + Duration::from_secs(2) && burst_end < before_fill + Duration::from_millis(2900) {
            cases += 1;
            idle_checked = true;
            if got != 1 { fail("[C26] after an idle period of 2.1 s (window 1 s, rate 1) a burst of 5 did not get exactly 1 response", &"fill, idle 2.1 s, burst of 5 on the same stream", &got, &1); }
        }
    }
    done(cases, &format!("16 request kinds x 16 x 8 sources x 8 x 3 prefix configurations (ordered pairs, fresh server each); slip 0/1 x 16 kinds x 2 sources; bursts for 4 rate/window choices x 4 streams; one idle period of 2.1 s (rate 1 and rate 2^32-1){}",
        if idle_checked { "" } else { " - idle case SKIPPED (timing on this machine not as planned)" }))
}
