//! Bounded stand-in for C12 (the message writer serialises exactly what it was given) and the
//! writer clauses of C02 (header counts match the records present, the message ends after the last
//! record, OPT once, TSIG last): see ../writer_drv.rs for the enumeration, the model and the checks.
#[path = "../writer_drv.rs"]
mod writer_drv;
fn main() { writer_drv::main_with(true, false) }
