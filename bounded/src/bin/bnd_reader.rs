//! Bounded stand-in for C15 (message reader): the public API of the real `message::Reader`
//! against the reference message decoder of ../wire_ref.rs (RFC 1035 4.1), on
//!  (1) headers: all 2^16 values of the two flag octets (and a walk over the other ten octets):
//!      every header accessor equals the RFC 1035 4.1.1 field;
//!  (2) structured messages: header + one or two pieces (question or record) from a menu of
//!      owners x types x RDATA shapes x RDLENGTH exact/short/long, each cut at EVERY truncation
//!      point; at every read position reachable through successful operations every operation is
//!      tried: read_question, skip_question, read_rr, skip_rr, peek_rr (+ accessors, owner, skip,
//!      parse), mark/rewind, at_eom, message_to_cursor.
//!  (3) long messages: header, question, a filler record, then a record whose owner starts at
//!      offset T in {255, 256, 257, 511, 512, 513, 768, 1024} and records (NS, CNAME, PTR, MX, SOA,
//!      MINFO, CH A, SRV) whose RDATA names point to T (pointer low octet 0x00 / 0x01 / 0xff);
//!      cut at every length inside the last record.
//! Checked: no panic; an operation that fails leaves the position unchanged; a successful one
//! returns exactly the reference fields (RDATA decompressed) and moves to the reference end;
//! read_rr and peek_rr().parse() agree; skip_*/peek_rr look at the first chunk of the name only
//! (as documented) and agree with read_* on the end position.  Which error is returned is not
//! constrained.  The TTL of a record whose TTL field has the top bit set is only required to be
//! the same for read_rr / PeekRr::ttl / parse (its raw_ttl must be the field).  Refusing an IN SRV
//! record whose target is compressed is tolerated (RFC 2782 forbids compressing it); expanding
//! it wrongly is not.
use quandary::message::reader::{PeekRr, ReadRr, Reader};
use quandary::message::{Opcode, Question, Rcode};
use std::panic::{catch_unwind, AssertUnwindSafe};
use vq_bounded::{done, fail};

#[path = "../wire_ref.rs"]
mod wire_ref;
use wire_ref::*;

// ------------------------------------------------------------------------------ plumbing

#[derive(Clone, Copy, Debug, PartialEq)]
enum Op { ReadQuestion, SkipQuestion, ReadRr, SkipRr, PeekSkip, PeekParse, PeekOwnerParse }
const OPS: [Op; 7] = [Op::ReadQuestion, Op::SkipQuestion, Op::ReadRr, Op::SkipRr, Op::PeekSkip, Op::PeekParse, Op::PeekOwnerParse];

#[derive(Debug)]
#[allow(dead_code)]
struct Input<'a> { message: &'a [u8], ops_before: &'a [Op], position: usize, op: String }

fn total<T>(what: &str, input: &Input, f: impl FnOnce() -> T) -> T {
    match catch_unwind(AssertUnwindSafe(f)) {
        Ok(v) => v,
        Err(_) => fail(&format!("{what} panicked"), input, &"panic", &"a value or an error"),
    }
}

static SUCCEEDED: std::sync::atomic::AtomicU64 = std::sync::atomic::AtomicU64::new(0);

fn pos_of(r: &Reader) -> usize { r.message_to_cursor().len() }

fn peek<'r, 'a>(r: &'r mut Reader<'a>, input: &Input) -> Option<PeekRr<'r, 'a>> {
    total("peek_rr", input, move || { let r = r; r.peek_rr() }).ok()
}

/// What a successful read of a record delivered: owner wire form, type, class, TTL, RDATA octets.
type RrView = (Vec<u8>, u16, u16, u32, Vec<u8>);
fn rr_view(rr: &ReadRr) -> RrView {
    (rr.owner.wire_repr().to_vec(), rr.rr_type.into(), rr.class.into(), rr.ttl.into(), rr.rdata.octets().to_vec())
}
fn q_view(q: &Question) -> (Vec<u8>, u16, u16) { (q.qname.wire_repr().to_vec(), q.qtype.into(), q.qclass.into()) }

/// Does the delivered record equal the reference record (TTL rule: see the module comment)?
fn rr_matches(got: &RrView, want: &RefRr) -> bool {
    let ttl_ok = if want.fixed.raw_ttl < 1 << 31 { got.3 == want.fixed.raw_ttl } else { true };
    got.0 == want.owner && got.1 == want.fixed.rtype && got.2 == want.fixed.class && ttl_ok && got.4 == want.rdata
}

/// The reference record at `pos`, or None where failing is (also) acceptable: `got_ok` says
/// whether the code under test delivered a record.  The only tolerated deviation: an IN SRV
/// record with a compressed target may be refused (RFC 2782).
fn want_rr(msg: &[u8], pos: usize, got_ok: bool) -> Option<RefRr> {
    let want = ref_rr(msg, pos)?;
    let f = &want.fixed;
    let raw = &msg[f.fixed_at + 10..f.end];
    if !got_ok && f.rtype == T_SRV && f.class == IN && !ref_valid(IN, T_SRV, raw) { return None; }
    Some(want)
}

/// Replays `path` (operations known to succeed) on a fresh reader.
fn reader_at<'a>(msg: &'a [u8], path: &[Op]) -> Reader<'a> {
    let mut r = Reader::try_from(msg).unwrap();
    for op in path {
        match op {
            Op::ReadQuestion => { r.read_question().unwrap(); }
            Op::SkipQuestion => r.skip_question().unwrap(),
            Op::ReadRr => { r.read_rr().unwrap(); }
            Op::SkipRr => r.skip_rr().unwrap(),
            Op::PeekSkip => r.peek_rr().unwrap().skip(),
            Op::PeekParse | Op::PeekOwnerParse => { r.peek_rr().unwrap().parse().unwrap(); }
        }
    }
    r
}

/// Checks the accessors of a successful peek against the reference fixed fields.
fn check_peek_fields(p: &mut PeekRr, f: &RefFixed, msg: &[u8], pos: usize, input: &Input) {
    let got = total("PeekRr accessors", input, || (u16::from(p.rr_type()), u16::from(p.class()), p.raw_ttl(), p.rdlength(), p.message_to_rr().to_vec()));
    let want = (f.rtype, f.class, f.raw_ttl, f.rdlength, msg[..pos].to_vec());
    if got != want { fail("PeekRr::{rr_type,class,raw_ttl,rdlength,message_to_rr} differ from the record's fixed fields", input, &got, &want); }
    let ttl: u32 = total("PeekRr::ttl", input, || p.ttl()).into();
    if f.raw_ttl < 1 << 31 && ttl != f.raw_ttl { fail("PeekRr::ttl differs from the TTL field", input, &ttl, &f.raw_ttl); }
}

/// Runs `op` at the position reached by `path`; returns the new position if it succeeded.
fn check_op(msg: &[u8], path: &[Op], pos: usize, op: Op, cases: &mut u64) -> Option<usize> {
    *cases += 1;
    let input = Input { message: msg, ops_before: path, position: pos, op: format!("{op:?}") };
    let mut r = reader_at(msg, path);
    if pos_of(&r) != pos { fail("replaying the same operations reached a different position", &input, &pos_of(&r), &pos); }
    let eom = total("at_eom", &input, || r.at_eom());
    if eom != (pos >= msg.len()) { fail("at_eom differs from position >= length", &input, &eom, &(pos >= msg.len())); }
    if r.message_to_cursor() != &msg[..pos] { fail("message_to_cursor is not the message up to the position", &input, &r.message_to_cursor(), &&msg[..pos]); }
    r.mark();

    // Expected end position (None = the operation must fail) and the check of the delivered value.
    let want_end: Option<usize>;
    let got_end: Option<usize>;
    match op {
        Op::ReadQuestion => {
            let want = ref_question(msg, pos);
            let got = total("read_question", &input, || r.read_question()).ok();
            let (g, w) = (got.as_ref().map(q_view), want.as_ref().map(|q| (q.qname.clone(), q.qtype, q.qclass)));
            if g != w { fail("read_question differs from the reference question (QNAME wire form, QTYPE, QCLASS)", &input, &g, &w); }
            want_end = want.map(|q| q.end);
            got_end = got.map(|_| pos_of(&r));
        }
        Op::SkipQuestion => {
            want_end = ref_skip_question(msg, pos);
            got_end = total("skip_question", &input, || r.skip_question()).ok().map(|()| pos_of(&r));
        }
        Op::ReadRr => {
            let got = total("read_rr", &input, || r.read_rr()).ok().map(|rr| rr_view(&rr));
            let want = want_rr(msg, pos, got.is_some());
            let same = match (&got, &want) { (Some(g), Some(w)) => rr_matches(g, w), (None, None) => true, _ => false };
            if !same { fail("read_rr differs from the reference record (owner, type, class, TTL, decompressed RDATA)", &input, &got, &want); }
            want_end = want.map(|w| w.fixed.end);
            got_end = got.map(|_| pos_of(&r));
        }
        Op::SkipRr => {
            want_end = ref_skip_rr(msg, pos).map(|f| f.end);
            got_end = total("skip_rr", &input, || r.skip_rr()).ok().map(|()| pos_of(&r));
        }
        Op::PeekSkip => {
            let want = ref_skip_rr(msg, pos);
            want_end = want.as_ref().map(|f| f.end);
            match (peek(&mut r, &input), want) {
                (Some(mut p), Some(f)) => {
                    check_peek_fields(&mut p, &f, msg, pos, &input);
                    // owner(): parsed on demand, the same name on every call
                    let want_owner = ref_decode(msg, pos).map(|(o, _)| o);
                    for _ in 0..2 {
                        let got_owner = total("PeekRr::owner", &input, || p.owner().ok().map(|n| n.wire_repr().to_vec()));
                        if got_owner != want_owner { fail("PeekRr::owner differs from the reference owner", &input, &got_owner, &want_owner); }
                    }
                    drop(p);
                    if pos_of(&r) != pos { fail("dropping a PeekRr moved the read position", &input, &pos_of(&r), &pos); }
                    total("peek_rr + skip", &input, || r.peek_rr().unwrap().skip());
                    got_end = Some(pos_of(&r));
                }
                (Some(_), None) => fail("peek_rr succeeded on a record that does not lie inside the message", &input, &"Ok", &"Err"),
                (None, _) => got_end = None,
            }
        }
        Op::PeekParse | Op::PeekOwnerParse => {
            let mut want = ref_rr(msg, pos);
            match peek(&mut r, &input) {
                None => {
                    if want.is_some() { fail("peek_rr failed on a record the reference decodes", &input, &"Err", &want); }
                    got_end = None;
                }
                Some(mut p) => {
                    if ref_skip_rr(msg, pos).is_none() { fail("peek_rr succeeded on a record that does not lie inside the message", &input, &"Ok", &"Err"); }
                    let peek_ttl: u32 = total("PeekRr::ttl", &input, || p.ttl()).into();
                    if op == Op::PeekOwnerParse { let _ = total("PeekRr::owner", &input, || p.owner().is_ok()); }
                    let got = total("PeekRr::parse", &input, || p.parse()).ok().map(|rr| rr_view(&rr));
                    if got.is_none() { want = want_rr(msg, pos, false); }
                    let same = match (&got, &want) { (Some(g), Some(w)) => rr_matches(g, w) && g.3 == peek_ttl, (None, None) => true, _ => false };
                    if !same { fail("peek_rr().parse() differs from the reference record (owner, type, class, TTL, decompressed RDATA)", &input, &got, &want); }
                    // ... and from read_rr on the same record
                    let via_read = total("read_rr", &input, || reader_at(msg, path).read_rr()).ok().map(|rr| rr_view(&rr));
                    if got != via_read { fail("peek_rr().parse() and read_rr disagree", &input, &got, &via_read); }
                    got_end = got.map(|_| pos_of(&r));
                }
            }
            want_end = want.as_ref().map(|w| w.fixed.end);
        }
    }
    if got_end.is_none() && pos_of(&r) != pos {
        fail("a failed operation moved the read position", &input, &pos_of(&r), &pos);
    }
    if got_end != want_end {
        fail("acceptance / end position differs from the reference (None = must fail)", &input, &got_end, &want_end);
    }
    if got_end.is_some() { SUCCEEDED.fetch_add(1, std::sync::atomic::Ordering::Relaxed); }
    // mark/rewind: back to where the mark was set
    total("rewind", &input, || r.rewind());
    if pos_of(&r) != pos { fail("rewind did not return to the marked position", &input, &pos_of(&r), &pos); }
    got_end
}

/// Every operation at every position reachable from the start through successful operations.
fn explore(msg: &[u8], cases: &mut u64) {
    let mut seen: Vec<usize> = vec![12];
    let mut todo: Vec<(usize, Vec<Op>)> = vec![(12, vec![])];
    while let Some((pos, path)) = todo.pop() {
        for op in OPS {
            if let Some(end) = check_op(msg, &path, pos, op, cases) {
                if !seen.contains(&end) {
                    seen.push(end);
                    let mut p = path.clone(); p.push(op);
                    todo.push((end, p));
                }
            }
        }
    }
}

// ------------------------------------------------------------------------------ (1) headers

fn check_header(msg: &[u8], cases: &mut u64) {
    *cases += 1;
    let input = Input { message: msg, ops_before: &[], position: 12, op: "header accessors".into() };
    let r = match total("Reader::try_from", &input, || Reader::try_from(msg)) {
        Ok(r) => r,
        Err(_) => fail("Reader::try_from rejected a message of >= 12 octets", &input, &"Err", &"Ok"),
    };
    let be = |i: usize| u16::from_be_bytes([msg[i], msg[i + 1]]);
    let got = total("header accessors", &input, || (
        r.id(), r.qr(), u8::from(r.opcode()), r.aa(), r.tc(), r.rd(), r.ra(), u8::from(r.rcode()),
        r.qdcount(), r.ancount(), r.nscount(), r.arcount()));
    let want = (be(0), msg[2] & 0x80 != 0, (msg[2] >> 3) & 0xf, msg[2] & 4 != 0, msg[2] & 2 != 0, msg[2] & 1 != 0,
                msg[3] & 0x80 != 0, msg[3] & 0xf, be(4), be(6), be(8), be(10));
    if got != want { fail("header accessors (id qr opcode aa tc rd ra rcode qdcount ancount nscount arcount) differ from RFC 1035 4.1.1", &input, &got, &want); }
    // the typed values are the ones the 4-bit fields denote
    if Opcode::try_from(want.2).ok() != Some(r.opcode()) || Rcode::try_from(want.7).ok() != Some(r.rcode()) {
        fail("opcode()/rcode() are not the values of the 4-bit fields", &input, &(r.opcode(), r.rcode()), &(want.2, want.7));
    }
    if pos_of(&r) != 12 || r.at_eom() != (msg.len() == 12) { fail("a fresh reader is not positioned after the header", &input, &pos_of(&r), &12); }
}

// ------------------------------------------------------------------------------ (2) menu

const HEADER: [u8; 12] = [0x12, 0x34, 0x81, 0x80, 0, 1, 0, 1, 0, 0, 0, 0];   // [4] = 0: "root name" inside the header

fn owners() -> Vec<Vec<u8>> {
    vec![
        vec![0],                    // root
        vec![1, b'a', 0],           // one label
        vec![1, b'b', 0xc0, 12],    // label + pointer to the first name of the message
        vec![0xc0, 4],              // pointer into the header (octet 4 is 0: the root)
        vec![0xc0, 1],              // pointer into the header (octet 1 is 0x34: a label running into the flags)
        vec![0xc0],                 // lone 0xc0 (a cut-off pointer when last, else a pointer using the next octet)
    ]
}

fn pieces() -> (Vec<Vec<u8>>, Vec<usize>) {
    let mut all: Vec<Vec<u8>> = Vec::new();
    let mut small: Vec<usize> = Vec::new();          // indices of the representative sub-menu
    for (i, o) in owners().iter().enumerate() {
        for (qt, qc) in [(1u16, 1u16), (255, 255)] {
            let mut q = o.clone(); q.extend(qt.to_be_bytes()); q.extend(qc.to_be_bytes());
            if qt == 1 && i < 3 { small.push(all.len()); }
            all.push(q);
        }
    }
    // (type, class, RDATA as it stands in the message)
    let rdatas: Vec<(u16, u16, Vec<u8>)> = vec![
        (T_A, IN, vec![1, 2, 3, 4]),
        (T_A, CH, vec![1, b'c', 0, 0, 5]),
        (T_A, 0xfe, vec![7]),                                  // A in an unknown class: opaque
        (T_NS, IN, vec![1, b'n', 0]),
        (T_NS, IN, vec![1, b'n', 0xc0, 12]),
        (T_NS, IN, vec![0xc0, 12]),
        (T_NS, IN, vec![1, b'n', 0, 0]),                       // junk after the name
        (T_MX, IN, vec![0, 10, 1, b'm', 0]),
        (T_MX, IN, vec![0, 10, 0xc0, 12]),
        (T_MX, IN, vec![0, 10]),                               // no exchange at all
        (T_TXT, IN, vec![1, b't', 0]),                         // two strings, the second empty
        (T_TXT, IN, vec![2, b't']),                            // string runs past the RDATA
        (T_TXT, IN, vec![]),
        (T_OPT, 1232, vec![]),
        (T_OPT, 1232, vec![0, 10, 0, 1, 9]),
        (T_OPT, 1232, vec![0, 10, 0, 5, 9]),                   // option runs past the RDATA
        (0xff00, IN, vec![9, 9, 9]),                           // unknown type
    ];
    for (oi, o) in owners().iter().enumerate() {
        for (ri, (t, c, rd)) in rdatas.iter().enumerate() {
            for (ti, ttl) in [3600u32, 0x8000_0001].iter().enumerate() {
                for delta in [0i32, -1, 1] {                   // RDLENGTH exact / one short / one long
                    let rdlength = rd.len() as i32 + delta;
                    if rdlength < 0 || (ti == 1 && (delta != 0 || ri > 4)) { continue; }
                    let mut p = o.clone();
                    p.extend(t.to_be_bytes()); p.extend(c.to_be_bytes()); p.extend(ttl.to_be_bytes());
                    p.extend((rdlength as u16).to_be_bytes()); p.extend(rd);
                    if delta == 0 && ti == 0 && oi < 3 && [0, 4, 8, 10, 14].contains(&ri) { small.push(all.len()); }
                    all.push(p);
                }
            }
        }
    }
    (all, small)
}

fn main() {
    let mut cases = 0u64;
    // (1) headers
    let mut msg = HEADER.to_vec();
    for flags in 0..=0xffffu16 {
        msg[2..4].copy_from_slice(&flags.to_be_bytes());
        check_header(&msg, &mut cases);
    }
    for i in (0..12).filter(|i| *i != 2 && *i != 3) {
        for v in 0..=255u8 {
            let mut m = HEADER.to_vec(); m[i] = v; m.extend([v, 0, 1]);
            check_header(&m, &mut cases);
        }
    }
    for len in 0..12 {
        if Reader::try_from(&HEADER[..len]).is_ok() { fail("Reader::try_from accepted a message shorter than a header", &&HEADER[..len], &"Ok", &"Err"); }
        cases += 1;
    }
    // (2) structured messages, every truncation
    let (all, small) = pieces();
    let run = |parts: &[&Vec<u8>], cases: &mut u64| {
        let mut msg = HEADER.to_vec();
        for p in parts { msg.extend_from_slice(p); }
        for cut in 12..=msg.len() { explore(&msg[..cut], cases); }
        msg.push(0); explore(&msg, cases);                      // one octet after the last piece
    };
    for a in &all { run(&[a], &mut cases); }
    for a in &all { for &b in &small { run(&[a, &all[b]], &mut cases); run(&[&all[b], a], &mut cases); } }
    // (3) long messages: RDATA names pointing to a name at offset T >= 255
    let far_targets = [255usize, 256, 257, 511, 512, 513, 768, 1024];
    let mut far_msgs = 0u64;
    for t in far_targets {
        let ptr = |to: usize| vec![0xc0 | (to >> 8) as u8, to as u8];
        let rr = |owner: &[u8], ty: u16, class: u16, rdata: &[u8]| {
            let mut p = owner.to_vec();
            p.extend(ty.to_be_bytes()); p.extend(class.to_be_bytes()); p.extend(3600u32.to_be_bytes());
            p.extend((rdata.len() as u16).to_be_bytes()); p.extend(rdata);
            p
        };
        let mut head = HEADER.to_vec();
        head.extend([7, b'e', b'x', b'a', b'm', b'p', b'l', b'e', 3, b'c', b'o', b'm', 0, 0, 2, 0, 1]);       // question at 12
        let fill = t - head.len() - 12;                                                              // owner (2) + fixed fields (10)
        head.extend(rr(&ptr(12), 0xff00, IN, &vec![0xab; fill]));                                    // opaque filler record ending at T
        assert_eq!(head.len(), t);
        head.extend(rr(&[vec![3, b's', b'u', b'b'], ptr(12)].concat(), T_A, IN, &[192, 0, 2, 1]));   // owner sub.example.com. at T
        let fixed20: Vec<u8> = (1..=20).collect();
        let (l_ns, l_mail, l_hm) = (vec![3, b'n', b's', b'1'], vec![4, b'm', b'a', b'i', b'l'], vec![2, b'h', b'm']);
        let rdatas: Vec<(u16, u16, Vec<u8>)> = vec![
            (T_NS, IN, ptr(t)), (T_NS, IN, [l_ns.clone(), ptr(t)].concat()), (5, IN, ptr(t)), (12, IN, [l_ns.clone(), ptr(t)].concat()),
            (T_NS, IN, ptr(t + 4)), (T_NS, IN, ptr(t + 1)),                                          // the chunk "-> 12" of the owner / into its label
            (T_MX, IN, [vec![0, 10], ptr(t)].concat()), (T_MX, IN, [vec![0, 10], l_mail.clone(), ptr(t)].concat()),
            (T_SOA, IN, [ptr(t), l_hm.clone(), ptr(12), fixed20.clone()].concat()), (T_SOA, IN, [l_ns.clone(), ptr(12), ptr(t), fixed20.clone()].concat()),
            (T_SOA, IN, [ptr(t), ptr(t), fixed20.clone()].concat()), (T_SOA, IN, [l_ns.clone(), ptr(t), l_hm.clone(), ptr(t), fixed20.clone()].concat()),
            (T_SOA, IN, [ptr(t), vec![0], fixed20.clone()].concat()), (T_SOA, IN, [vec![0], ptr(t), fixed20.clone()].concat()),
            (T_MINFO, IN, [ptr(t), ptr(t)].concat()), (T_MINFO, IN, [l_hm.clone(), ptr(t), vec![1, b'e', 0]].concat()), (T_MINFO, IN, [vec![1, b'r', 0], l_hm.clone(), ptr(t)].concat()),
            (T_A, CH, [ptr(t), vec![0, 5]].concat()), (T_A, CH, [l_ns.clone(), ptr(t), vec![0, 5]].concat()),
            (T_SRV, IN, [vec![0, 1, 0, 2, 0, 53], ptr(t)].concat()), (T_SRV, IN, [vec![0, 1, 0, 2, 0, 53], l_ns.clone(), ptr(t)].concat()),
            (T_SRV, CH, [vec![0, 1, 0, 2, 0, 53], ptr(t)].concat()), (0xff00, IN, ptr(t)),            // opaque: returned as they are
        ];
        for owner in [ptr(12), ptr(t), vec![0]] {
            for (ty, class, rd) in &rdatas {
                let mut msg = head.clone();
                let last = msg.len();
                msg.extend(rr(&owner, *ty, *class, rd));
                explore(&msg, &mut cases);
                if owner.len() == 2 { for cut in last..msg.len() { explore(&msg[..cut], &mut cases); } }
                msg.extend(rr(&ptr(t), T_NS, IN, &ptr(t)));                                          // one more record behind it
                explore(&msg, &mut cases);
                far_msgs += 1;
            }
        }
    }
    done(cases, &format!("headers: all 2^16 flag-octet values + every value of each other header octet; messages: header + 1 piece (menu of {} questions/records: 6 owners x 2 questions, 6 owners x 17 type/class/RDATA shapes x RDLENGTH exact/-1/+1, 2 TTLs) or 2 pieces (any x {} representatives, both orders), cut at every length, every operation at every reachable position; long messages: question + filler record + a record at offset T in {{255,256,257,511,512,513,768,1024}} + one of 23 records (NS CNAME PTR MX SOA MINFO CH-A SRV opaque; RDATA names = pointer / label+pointer to T, both SOA/MINFO positions) x 3 owners, whole / cut at every length of the last record / one more record ({} messages) ({} of the operations succeed)", all.len(), small.len(), far_msgs, SUCCEEDED.load(std::sync::atomic::Ordering::Relaxed)))
}
