//! Bounded stand-in for C21 (zone validation reports exactly the defined semantic issues): every zone
//! made of at most MAX records out of a universe of 19 (one/two apex SOA; apex NS pointing into the
//! zone, below a delegation; name-server A / AAAA; two sibling delegations whose NS point into the
//! child, into the sibling, into the parent and out of the zone; glue for both; an apex MX whose
//! exchanger is covered by a wildcard A, an MX whose exchanger is a plain in-zone name; one/two CNAMEs
//! and other data at the CNAME owner; NS at a wildcard) x classes IN, CH (A only), 65280 (private use: no address
//! types) x both glue policies is loaded into the real `HashMapTreeZone`; the SET of issues returned by
//! `Zone::validate` must equal the reference checker below (written from the property text, the
//! numbered checks of RFC 1035 §5.2 as listed in the module documentation, and the `GluePolicy`
//! documentation), and `is_error` must be false exactly for the MX-address and NS-at-wildcard issues.
//! Two more families, every subset of their universes: NESTED (14 records, apex ap.ex.): a delegation d
//! whose name server lies two labels below it, a second NS RRset at sub.d (occluded when d is delegated,
//! an ordinary delegation otherwise) naming servers below itself, in the sibling delegation e and outside
//! the zone, glue at ns.sub.d / ns.d / ns.e; and WILD_APEX (11 records): a zone whose apex *.ap.ex. is
//! itself a wildcard name (apex NS in and out of the zone, its address, a delegation with glue, a
//! deeper wildcard owning NS) — "NS records at wildcard names" holds for the apex like for any owner.
//! Not constrained: order / multiplicity of the reported issues, occluded MX records (none in the
//! universe), malformed NS/MX RDATA (none), name servers covered by a wildcard that owns NS (none).
//! OCCLUDED NS RRsets (owner strictly below another delegation): neither the property text nor the
//! documentation says whether their name servers are checked at all, nor which "child zone" the narrow
//! policy means for them (the cut their name-server lookup runs into, or their owner).  The address and
//! glue issues that exist under at least one of these readings are ALLOWED for them, never required;
//! everything else (every issue of a non-occluded RRset, NS-at-wildcard) stays exact.
#[path = "../zone_ref.rs"]
mod zone_ref;
use quandary::db::zone::{GluePolicy, ValidationIssue, Zone};
use quandary::db::HashMapTreeZone;
use std::panic::{catch_unwind, AssertUnwindSafe};
use vq_bounded::{done, fail};
use zone_ref::*;

const MAX: u32 = 7;

const SOA1: &[u8] = b"\x02ns\x02ap\x02ex\x00\x01h\x02ap\x02ex\x00\x00\x00\x00\x01\x00\x00\x00\x02\x00\x00\x00\x03\x00\x00\x00\x04\x00\x00\x00\x05";
const SOA2: &[u8] = b"\x02ns\x02ap\x02ex\x00\x01h\x02ap\x02ex\x00\x00\x00\x00\x09\x00\x00\x00\x02\x00\x00\x00\x03\x00\x00\x00\x04\x00\x00\x00\x05";
const fn rec(owner: &'static str, rtype: u16, rdata: &'static [u8]) -> Rec { Rec { owner, rtype, class: 0, ttl: 300, rdata } }

const UNIVERSE: [Rec; 19] = [
    rec("ap.ex.", SOA, SOA1),
    rec("ap.ex.", SOA, SOA2),
    rec("ap.ex.", NS, b"\x02NS\x02ap\x02ex\x00"),               // in the zone (other letter case than its owner)
    rec("ap.ex.", NS, b"\x02ns\x01d\x02ap\x02ex\x00"),          // below the delegation d (when d is delegated)
    rec("ns.ap.ex.", A, &[10, 0, 0, 1]),
    rec("ns.ap.ex.", AAAA, &[0x20, 1, 0, 0, 0, 0, 0, 0, 0, 0, 0, 0, 0, 0, 0, 1]),
    rec("d.ap.ex.", NS, b"\x02ns\x01d\x02ap\x02ex\x00"),        // name server inside the child zone
    rec("d.ap.ex.", NS, b"\x02ns\x01E\x02ap\x02ex\x00"),        // name server inside the sibling child zone e
    rec("d.ap.ex.", NS, b"\x02ns\x02ap\x02ex\x00"),             // name server in the parent zone itself
    rec("ns.d.ap.ex.", A, &[10, 0, 0, 2]),                      // glue
    rec("e.ap.ex.", NS, b"\x02ns\x03out\x00"),                  // name server outside the zone
    rec("ns.e.ap.ex.", A, &[10, 0, 0, 3]),                      // glue (or plain data when e is not delegated)
    rec("ap.ex.", MX, b"\x00\x0a\x02mx\x01v\x02ap\x02ex\x00"),  // exchanger covered by *.v (if present)
    rec("*.v.ap.ex.", A, &[10, 0, 0, 4]),
    rec("v.ap.ex.", MX, b"\x00\x14\x02NS\x02AP\x02ex\x00"),     // exchanger = ns.ap.ex.
    rec("c.ap.ex.", CNAME, b"\x01x\x02ap\x02ex\x00"),
    rec("c.ap.ex.", CNAME, b"\x01y\x02ap\x02ex\x00"),
    rec("c.ap.ex.", TXT, b"\x02hi"),
    rec("*.w.ap.ex.", NS, b"\x02ns\x03out\x00"),
];

/// Nested / occluded delegations.  With "d NS" present sub.d.ap.ex. lies below the cut d; without, sub.d is the cut.
const NESTED: [Rec; 14] = [
    rec("ap.ex.", SOA, SOA1),
    rec("ap.ex.", NS, b"\x02ns\x02ap\x02ex\x00"),
    rec("ns.ap.ex.", A, &[10, 0, 0, 1]),
    rec("d.ap.ex.", NS, b"\x02ns\x03sub\x01d\x02ap\x02ex\x00"),     // name server two labels below the delegation
    rec("d.ap.ex.", NS, b"\x02ns\x02ap\x02ex\x00"),                  // name server in the parent zone itself
    rec("d.ap.ex.", NS, b"\x02ns\x01d\x02ap\x02ex\x00"),
    rec("sub.d.ap.ex.", NS, b"\x02NS\x03sub\x01D\x02ap\x02ex\x00"),   // name server below this (possibly occluded) owner
    rec("sub.d.ap.ex.", NS, b"\x02ns\x01e\x02ap\x02ex\x00"),         // ... inside the sibling delegation e
    rec("sub.d.ap.ex.", NS, b"\x02ns\x03out\x00"),                   // ... outside the zone
    rec("ns.sub.d.ap.ex.", A, &[10, 0, 0, 5]),                        // glue below both cuts
    rec("ns.d.ap.ex.", A, &[10, 0, 0, 2]),
    rec("e.ap.ex.", NS, b"\x02ns\x03sub\x01d\x02ap\x02ex\x00"),     // sibling delegation served from below d / sub.d
    rec("e.ap.ex.", NS, b"\x02ns\x01e\x02ap\x02ex\x00"),
    rec("ns.e.ap.ex.", A, &[10, 0, 0, 3]),
];

/// A zone whose apex is the wildcard name *.ap.ex.
const WILD_APEX: [Rec; 11] = [
    rec("*.ap.ex.", SOA, SOA1),
    rec("*.ap.ex.", SOA, SOA2),
    rec("*.ap.ex.", NS, b"\x02ns\x03out\x00"),                        // outside the zone
    rec("*.ap.ex.", NS, b"\x02NS\x01*\x02ap\x02ex\x00"),              // in the zone
    rec("*.ap.ex.", NS, b"\x02ns\x02ap\x02ex\x00"),                   // beside the zone (ap.ex. is not in *.ap.ex.)
    rec("ns.*.ap.ex.", A, &[10, 0, 0, 1]),
    rec("ns.*.ap.ex.", AAAA, &[0x20, 1, 0, 0, 0, 0, 0, 0, 0, 0, 0, 0, 0, 0, 0, 1]),
    rec("d.*.ap.ex.", NS, b"\x02ns\x01d\x01*\x02ap\x02ex\x00"),
    rec("ns.d.*.ap.ex.", A, &[10, 0, 0, 2]),
    rec("*.w.*.ap.ex.", NS, b"\x02ns\x03out\x00"),                     // a wildcard below the wildcard apex
    rec("*.ap.ex.", TXT, b"\x02hi"),
];

// ------------------------------------------------------------------------------------- reference

#[derive(Clone, Debug, PartialEq, Eq, PartialOrd, Ord)]
enum Issue {
    MissingApexSoa, TooManyApexSoas, MissingApexNs,
    MissingNsAddress(Labels), MissingMxAddress(Labels), MissingGlue(Labels),
    DuplicateCname(Labels), OtherRecordsAtCname(Labels), NsAtWildcard(Labels),
}

/// The name in an uncompressed wire-format name (all RDATA of the universe is well formed).
fn wire_name(mut w: &[u8]) -> Labels {
    let mut l = vec![];
    while w[0] != 0 {
        let n = w[0] as usize;
        l.push(String::from_utf8_lossy(&w[1..1 + n]).to_ascii_lowercase());
        w = &w[1 + n..];
    }
    l
}

/// Address types exist in IN (A, AAAA) and CH (A) only.
fn has_addr(m: &Model, node: &[String]) -> bool {
    m.rrset(node, A).is_some() || (m.class == IN && m.rrset(node, AAAA).is_some())
}

/// The zone is authoritative for `target` (in the zone, not below a delegation) and resolving it,
/// wildcards included, finds no address.
fn in_zone_without_address(m: &Model, target: &[String]) -> bool {
    match m.resolve(target, false) {
        Base::Node(n, _) => !has_addr(m, &n),
        Base::NxDomain => true,
        Base::Referral(_) | Base::WrongZone => false,
    }
}

/// (the issues that must be reported, further issues that may be reported — for occluded NS RRsets only)
fn reference(m: &Model, policy: GluePolicy) -> (Vec<Issue>, Vec<Issue>) {
    let mut v = vec![];
    let mut may = vec![];
    let addrs = m.class == IN || m.class == CH;
    // "a missing or multiple apex SOA, a missing apex NS"
    match m.rrset(&m.apex, SOA) {
        None => v.push(Issue::MissingApexSoa),
        Some(s) if s.1.len() > 1 => v.push(Issue::TooManyApexSoas),
        _ => {}
    }
    if m.rrset(&m.apex, NS).is_none() { v.push(Issue::MissingApexNs); }
    for node in m.nodes() {
        if let Some(c) = m.rrset(&node, CNAME) {
            if c.1.len() > 1 { v.push(Issue::DuplicateCname(node.clone())); }                      // "multiple CNAMEs"
            if m.types_at(&node).len() > 1 { v.push(Issue::OtherRecordsAtCname(node.clone())); }   // "CNAMEs with other data"
        }
        if let Some(ns) = m.rrset(&node, NS) {
            if node.first().map_or(false, |l| l == "*") { v.push(Issue::NsAtWildcard(node.clone())); } // "NS records at wildcard names"
            // occluded: walking down from the apex meets another delegation before this owner
            let occluded = node != m.apex && m.resolve(&node, false) != Base::Referral(node.clone());
            for target in ns.1.iter().map(|r| wire_name(r)) {
                if !addrs { continue; }
                let out = if occluded { &mut may } else { &mut v };
                // "in-zone name servers ... without addresses"
                if in_zone_without_address(m, &target) { out.push(Issue::MissingNsAddress(target.clone())); }
                // "missing glue under the zone's glue policy": for a delegation's name server that lies below a
                // delegation of this zone — wide: any; narrow: the delegation that names it — an address below the cuts
                if node != m.apex {
                    if let Base::Referral(cut) = m.resolve(&target, false) {
                        // (for an occluded owner `cut == node` never holds; the other reading is "the server is below the owner")
                        let required = policy == GluePolicy::Wide || cut == node || (occluded && target.ends_with(&node));
                        let present = matches!(m.resolve(&target, true), Base::Node(n, _) if has_addr(m, &n));
                        if required && !present { out.push(Issue::MissingGlue(target.clone())); }
                    }
                }
            }
        }
        if let Some(mx) = m.rrset(&node, MX) {
            for target in mx.1.iter().map(|r| wire_name(&r[2..])) {
                // "in-zone ... mail exchangers without addresses"
                if addrs && in_zone_without_address(m, &target) { v.push(Issue::MissingMxAddress(target)); }
            }
        }
    }
    v.sort(); v.dedup();
    may.sort(); may.dedup();
    (v, may)
}

fn convert(i: &ValidationIssue) -> Issue {
    match i {
        ValidationIssue::MissingApexSoa => Issue::MissingApexSoa,
        ValidationIssue::TooManyApexSoas => Issue::TooManyApexSoas,
        ValidationIssue::MissingApexNs => Issue::MissingApexNs,
        ValidationIssue::MissingNsAddress(n) => Issue::MissingNsAddress(labels_of_name(n)),
        ValidationIssue::MissingMxAddress(n) => Issue::MissingMxAddress(labels_of_name(n)),
        ValidationIssue::MissingGlue(n) => Issue::MissingGlue(labels_of_name(n)),
        ValidationIssue::DuplicateCname(n) => Issue::DuplicateCname(labels_of_name(n)),
        ValidationIssue::OtherRecordsAtCname(n) => Issue::OtherRecordsAtCname(labels_of_name(n)),
        ValidationIssue::NsAtWildcard(n) => Issue::NsAtWildcard(labels_of_name(n)),
    }
}

/// "Only the MX-address and NS-at-wildcard issues are warnings."
fn is_error(i: &Issue) -> bool { !matches!(i, Issue::MissingMxAddress(_) | Issue::NsAtWildcard(_)) }

fn run(apex: &'static str, universe: &[Rec], class: u16, policy: GluePolicy, subset: u32) {
    let mut z = HashMapTreeZone::new(apex.parse().unwrap(), class_of(class), policy);
    let mut m = Model::new(apex, class);
    let recs: Vec<Rec> = (0..universe.len()).filter(|i| subset >> i & 1 == 1).map(|i| Rec { class, ..universe[i].clone() }).collect();
    let input = (("apex", apex, "class", class, policy), &recs);
    let r = catch_unwind(AssertUnwindSafe(|| {
        for r in &recs {
            if !(real_add(&mut z, r) && m.add(r)) { fail("add rejected a record of the universe", &input, &false, &true); }
        }
        let (want, may) = reference(&m, policy);
        let issues = match z.validate() {
            Ok(v) => v,
            Err(e) => fail("validate() failed on a zone whose RDATA is all well formed", &input, &e, &want),
        };
        for i in &issues {
            let c = convert(i);
            if i.is_error() != is_error(&c) { fail(&format!("is_error() of {i:?}"), &input, &i.is_error(), &is_error(&c)); }
        }
        let mut got: Vec<Issue> = issues.iter().map(convert).collect();
        got.sort(); got.dedup();
        // exact, except that the undetermined issues of occluded NS RRsets (`may`) are neither required nor forbidden
        got.retain(|i| want.contains(i) || !may.contains(i));
        if got != want { fail("set of issues reported by validate()", &input, &got, &(&want, "also allowed (occluded NS)", &may)); }
    }));
    if r.is_err() { fail("panic inside validation", &input, &"panic", &"no panic"); }
}

fn main() {
    let mut cases = 0u64;
    let mut family = |apex: &'static str, universe: &[Rec], max: u32| {
        for subset in 0u32..(1 << universe.len()) {
            if subset.count_ones() > max { continue; }
            for class in [IN, CH, 0xff00] {
                for policy in [GluePolicy::Narrow, GluePolicy::Wide] {
                    run(apex, universe, class, policy, subset);
                    cases += 1;
                }
            }
        }
    };
    family("ap.ex.", &UNIVERSE, MAX);
    family("ap.ex.", &NESTED, NESTED.len() as u32);
    family("*.ap.ex.", &WILD_APEX, WILD_APEX.len() as u32);
    done(cases, "zones x classes IN/CH/65280 x glue policies Narrow/Wide: all subsets of <= 7 records of a 19-record universe (apex ap.ex.); all subsets of a 14-record universe of nested / occluded delegations (apex ap.ex.; address and glue issues of occluded NS RRsets allowed, not required); all subsets of an 11-record universe whose apex is the wildcard name *.ap.ex.");
}
