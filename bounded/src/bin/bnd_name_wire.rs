//! Bounded stand-in for C14 (wire-format name decoding): the public entry points
//! `Name::{try_from_compressed, skip_compressed, try_from_uncompressed(_all),
//! validate_uncompressed(_all)}` of the real crate against the reference decoders of
//! ../wire_ref.rs (written from RFC 1035 3.1 / 4.1.4 and the property text: pointers strictly
//! backwards = to an offset before the start of the chunk they end, labels <= 63 octets,
//! names <= 255 octets), on
//!  (a) ALL buffers of length <= SMALL over a 12-symbol alphabet at every start offset 0..=len+1,
//!  (b) a structured family of long buffers (see `structured()`).
//! Only acceptance, the decoded name (uncompressed wire form, label list) and the lengths are
//! compared; which error is returned is not constrained.
use quandary::name::Name;
use std::panic::{catch_unwind, AssertUnwindSafe};
use vq_bounded::{done, fail};

#[path = "../wire_ref.rs"]
mod wire_ref;
use wire_ref::{ref_decode, ref_labels, ref_skip, ref_uncompressed};

const ALPHABET: [u8; 12] = [0, 1, 2, 3, 0x3f, 0x40, 0x41, 0xbf, 0xc0, 0xc1, 0xc2, 0xff];
const SMALL: usize = 5;

// ---------------------------------------------------------------------------- checking

#[derive(Debug)]
#[allow(dead_code)]
struct Input<'a> { buf: &'a [u8], start: usize }

fn total<T>(what: &str, input: &Input, f: impl FnOnce() -> T) -> T {
    match catch_unwind(AssertUnwindSafe(f)) {
        Ok(v) => v,
        Err(_) => fail(&format!("{what} panicked"), input, &"panic", &"a value or an error"),
    }
}

fn name_view(n: &Name) -> (Vec<u8>, Vec<Vec<u8>>) {
    (n.wire_repr().to_vec(), n.labels().map(|l| l.octets().to_vec()).collect())
}

fn check_compressed(buf: &[u8], start: usize) {
    let input = Input { buf, start };
    let got = total("Name::try_from_compressed", &input, || Name::try_from_compressed(buf, start))
        .ok().map(|(n, l)| (name_view(&n), l));
    let want = ref_decode(buf, start).map(|(w, l)| { let labs = ref_labels(&w); ((w, labs), l) });
    if got != want {
        fail("Name::try_from_compressed differs from the RFC 1035 4.1.4 reference (name wire form, labels, first-chunk length)", &input, &got, &want);
    }
}

/// The slice-based entry points on `tail` (= buffer from the start offset on).
fn check_slice_fns(tail: &[u8]) {
    let input = Input { buf: tail, start: 0 };
    let got = total("Name::skip_compressed", &input, || Name::skip_compressed(tail)).ok();
    let want = ref_skip(tail);
    if got != want { fail("Name::skip_compressed differs from the first-chunk reference", &input, &got, &want); }
    // Skipping agrees with full decoding whenever the latter succeeds on the same octets.
    if let Some((_, l)) = ref_decode(tail, 0) {
        if got != Some(l) { fail("Name::skip_compressed disagrees with the decoder on the first-chunk length", &input, &got, &Some(l)); }
    }

    let want = ref_uncompressed(tail);
    let got = total("Name::validate_uncompressed", &input, || Name::validate_uncompressed(tail)).ok();
    if got != want { fail("Name::validate_uncompressed differs from the RFC 1035 3.1 reference", &input, &got, &want); }
    let want_all = want.filter(|l| *l == tail.len());
    let got = total("Name::validate_uncompressed_all", &input, || Name::validate_uncompressed_all(tail)).ok().map(|()| tail.len());
    if got != want_all { fail("Name::validate_uncompressed_all differs from the reference (whole buffer must be the name)", &input, &got, &want_all); }

    let want_n = want.map(|l| ((tail[..l].to_vec(), ref_labels(&tail[..l])), l));
    let got = total("Name::try_from_uncompressed", &input, || Name::try_from_uncompressed(tail)).ok().map(|(n, l)| (name_view(&n), l));
    if got != want_n { fail("Name::try_from_uncompressed differs from the RFC 1035 3.1 reference", &input, &got, &want_n); }
    let want_n_all = want_n.filter(|(_, l)| *l == tail.len());
    let got = total("Name::try_from_uncompressed_all", &input, || Name::try_from_uncompressed_all(tail)).ok().map(|n| (name_view(&n), tail.len()));
    if got != want_n_all { fail("Name::try_from_uncompressed_all differs from the reference", &input, &got, &want_n_all); }
}

// ---------------------------------------------------------------------------- structured family

/// Labels (length octet + content) occupying exactly `total` octets; `style` 0: as few labels as
/// possible (63-octet labels first), 1: as many as possible (1-octet labels), 2: one 63-octet label then 1-octet labels.
fn labels_of(total: usize, style: usize) -> Vec<u8> {
    let mut v = Vec::new();
    let mut left = total;
    let mut first = true;
    while left > 0 {
        let mut piece = match style { 0 => 64, 1 => 2, _ => if first { 64 } else { 2 } }.min(left);
        if left - piece == 1 { piece = if piece > 2 { piece - 1 } else { piece + 1 }; }   // never leave a 1-octet rest
        if piece < 2 { return v; }                                                         // total == 1: no labels
        v.push((piece - 1) as u8);
        v.extend(std::iter::repeat(b'a' + (v.len() % 26) as u8).take(piece - 1));
        left -= piece;
        first = false;
    }
    v
}

fn ptr(target: usize) -> [u8; 2] { [0xc0 | (target >> 8) as u8, target as u8] }

fn structured(mut run: impl FnMut(&[u8], &[usize])) {
    // Earlier message content a pointer can refer to; (octets, offsets of interesting pointer targets).
    let long_prefix = { let mut p = labels_of(128, 0); p.push(0); p };      // 129-octet name at offset 0
    let prefixes: Vec<(Vec<u8>, Vec<usize>)> = vec![
        (vec![], vec![]),
        (vec![0], vec![0]),
        (vec![1, b'x', 0], vec![0, 1, 2]),
        (vec![0xc0, 0x00], vec![0]),                                      // self-referring pointer
        (vec![1, b'x', 0xc0, 0x00], vec![0, 2]),                          // loop
        (vec![0, 1, b'y', 0xc0, 0x00], vec![1, 3]),                       // y + pointer to the root at 0
        (long_prefix, vec![0, 64, 128]),                                  // targets: whole name, second label, its root
    ];
    let totals: Vec<usize> = (0..=4).chain(62..=67).chain(125..=131).chain(189..=194).chain(250..=259).collect();
    for (prefix, targets) in &prefixes {
        let start = prefix.len();
        for &t in &totals {
            for style in 0..3 {
                let labels = labels_of(t, style);
                let mut variants: Vec<Vec<u8>> = vec![labels.clone()];                  // a. labels as they are
                if !labels.is_empty() {
                    let mut v = labels.clone(); v[0] = 64; variants.push(v);            // b. first label announces 64 octets
                    let mut v = labels.clone(); let last = last_label_pos(&v); v[last] = 0x80; variants.push(v); // c. reserved label type
                }
                for body in variants {
                    let chunk_end = start + body.len();
                    // terminators: nothing (buffer ends at a label boundary), null label, null label + junk,
                    // lone 0xc0, pointers (backwards to each target, to the chunk start, to itself, forwards, far beyond)
                    let mut terms: Vec<Vec<u8>> = vec![vec![], vec![0], vec![0, 0xff, 7], vec![0xc0], vec![0xff]];
                    let mut ptr_targets: Vec<usize> = targets.clone();
                    ptr_targets.extend([start.saturating_sub(1), start, start + 1, chunk_end, chunk_end + 2, chunk_end + 3, 0x3fff]);
                    for pt in ptr_targets {
                        terms.push(ptr(pt).to_vec());
                        let mut with_tail = ptr(pt).to_vec(); with_tail.extend([0, 0]); terms.push(with_tail);
                    }
                    for term in terms {
                        let mut buf = prefix.clone();
                        buf.extend_from_slice(&body);
                        buf.extend_from_slice(&term);
                        let len = buf.len();
                        let mut starts: Vec<usize> = if len <= 24 { (0..=len + 1).collect() } else {
                            vec![0, start.saturating_sub(1), start, start + 1, chunk_end.saturating_sub(1), chunk_end, chunk_end + 1, len.saturating_sub(1), len, len + 1]
                        };
                        starts.sort(); starts.dedup();
                        run(&buf, &starts);
                    }
                }
            }
        }
    }
    // Pointer chains whose pieces add up around the 255-octet / 128-label limits:
    // A = a octets of labels + null at 0; B = b octets + pointer into A; C = c octets + pointer to B.
    for style in 0..3 {
        for (a, b) in [(100usize, 100usize), (126, 64), (2, 190), (64, 64)] {
            // pointer to all of A / to A's null label only / (1-octet labels) to a label boundary inside A
            let mut into: Vec<usize> = vec![0, a];
            if style == 1 { into.push(a / 4 * 2); }
            for into_a in into {
                for total in 250..=259usize {
                    let rest_of_a = a - into_a + 1;
                    if total < b + rest_of_a { continue; }
                    let c = total - b - rest_of_a;
                    if c == 1 { continue; }
                    let mut buf = labels_of(a, style); buf.push(0);
                    let b_at = buf.len();
                    buf.extend(labels_of(b, style)); buf.extend(ptr(into_a));
                    let c_at = buf.len();
                    buf.extend(labels_of(c, style)); buf.extend(ptr(b_at));
                    let d_at = buf.len();
                    buf.extend(ptr(c_at));                                   // a bare pointer to C
                    buf.extend(ptr(d_at));                                   // pointer to the bare pointer
                    let e_at = d_at + 2;
                    run(&buf, &[0, b_at, c_at, d_at, e_at, e_at + 1, e_at + 2]);
                }
            }
        }
    }
}

fn last_label_pos(labels: &[u8]) -> usize {
    let (mut pos, mut last) = (0, 0);
    while pos < labels.len() { last = pos; pos += 1 + labels[pos] as usize; }
    last
}

fn main() {
    let mut cases = 0u64;
    // (a) exhaustive small buffers
    for len in 0..=SMALL {
        let mut idx = vec![0usize; len];
        loop {
            let buf: Vec<u8> = idx.iter().map(|i| ALPHABET[*i]).collect();
            for start in 0..=len + 1 {
                check_compressed(&buf, start);
                if start <= len { check_slice_fns(&buf[start..]); }
                cases += 1;
            }
            let mut k = 0;
            while k < len { idx[k] += 1; if idx[k] < ALPHABET.len() { break; } idx[k] = 0; k += 1; }
            if k == len { break; }
        }
    }
    // (b) structured long buffers
    structured(|buf, starts| {
        for &start in starts {
            check_compressed(buf, start);
            if start <= buf.len() { check_slice_fns(&buf[start..]); }
            cases += 1;
        }
    });
    done(cases, "all buffers of <= 5 octets over a 12-symbol alphabet at every start 0..=len+1; structured long buffers (label totals around 0/64/128/192/255, 3 label shapes, bad label types, 7 kinds of earlier content, null/pointer/cut-off terminators, pointer chains reaching 250..259 octets)")
}
