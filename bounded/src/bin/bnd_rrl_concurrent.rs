//! Bounded stand-in for C28 (rate limiting counts correctly under concurrent requests): a stress
//! run on the real server (public API). Each round uses one fresh stream (REFUSED responses to one
//! /24): 7 requests handled sequentially, then 4 threads send 2 requests each at the same moment;
//! with rate 4 and window 2 exactly min(15, 8) = 8 responses must be sent, whatever the
//! interleaving. A round that takes 0.9 s or longer is skipped (a refill could be due). On code
//! whose bucket update is atomic the count is exact in every round, so this cannot raise a false
//! alarm; on racy code it fails with some probability per round (not a proof of absence).
use std::net::{IpAddr, Ipv4Addr};
use std::sync::atomic::{AtomicBool, AtomicUsize, Ordering};
use std::sync::Arc;
use std::time::{Duration, Instant};

use quandary::db::{HashMapTreeCatalog, HashMapTreeZone};
use quandary::server::{ReceivedInfo, Response, RrlParams, Server, Transport};

type CatalogImpl = HashMapTreeCatalog<HashMapTreeZone, ()>;

const THREADS: usize = 4;
const PER_THREAD: usize = 2;
const PREFILL: usize = 7;
const RATE: u32 = 4;
const WINDOW: u32 = 2;
const RUN_FOR: Duration = Duration::from_secs(4);
const MAX_ROUNDS: usize = 4_000_000;

/// A plain QUERY for "nowhere.test. IN A". The server has an empty
/// catalog, so the answer is REFUSED.
fn query() -> Vec<u8> {
    let mut q = vec![
        0x12, 0x34, // ID
        0x00, 0x00, // flags: QUERY
        0x00, 0x01, // QDCOUNT
        0x00, 0x00, 0x00, 0x00, 0x00, 0x00,
    ];
    q.extend_from_slice(b"\x07nowhere\x04test\x00");
    q.extend_from_slice(&[0x00, 0x01, 0x00, 0x01]);
    q
}

struct Shared {
    server: Server<CatalogImpl>,
    round: AtomicUsize,
    done: AtomicUsize,
    sent: AtomicUsize,
    stop: AtomicBool,
}

fn worker(shared: Arc<Shared>, t: usize) {
    let q = query();
    let mut buf = vec![0u8; 2048];
    let mut seen = 0;
    loop {
        // Spin until the next round starts, so that all the threads
        // start their requests at (nearly) the same instant.
        let round = loop {
            if shared.stop.load(Ordering::Acquire) {
                return;
            }
            let r = shared.round.load(Ordering::Acquire);
            if r != seen {
                break r;
            }
            std::hint::spin_loop();
        };
        seen = round;

        // One fresh /24 per round; the threads are different hosts in it.
        let source = IpAddr::V4(Ipv4Addr::new(
            10 + (round >> 16) as u8,
            (round >> 8) as u8,
            round as u8,
            t as u8 + 1,
        ));
        let info = ReceivedInfo::new(source, Transport::Udp);
        let mut sent = 0;
        for _ in 0..PER_THREAD {
            if let Response::Single(_) = shared.server.handle_message(&q, info, &mut buf) {
                sent += 1;
            }
        }
        shared.sent.fetch_add(sent, Ordering::AcqRel);
        shared.done.fetch_add(1, Ordering::AcqRel);
    }
}

fn main() {
    // All three rates are equal, so the category of the response does
    // not matter here.
    let mut params = RrlParams::new(RATE, RATE, RATE, WINDOW).unwrap();
    params.set_slip(0); // limited responses are always dropped
    let mut server = Server::new(Arc::new(CatalogImpl::new()));
    server.set_rrl_params(Some(params));

    let shared = Arc::new(Shared {
        server,
        round: AtomicUsize::new(0),
        done: AtomicUsize::new(0),
        sent: AtomicUsize::new(0),
        stop: AtomicBool::new(false),
    });
    let handles: Vec<_> = (0..THREADS)
        .map(|t| {
            let shared = shared.clone();
            std::thread::spawn(move || worker(shared, t))
        })
        .collect();

    let requests = PREFILL + THREADS * PER_THREAD;
    let expected = std::cmp::min(requests, (RATE * WINDOW) as usize);
    let q = query();
    let mut buf = vec![0u8; 2048];
    let start = Instant::now();
    let mut violation = None;
    let mut rounds = 0;
    let mut nviol = 0;
    for round in 1..=MAX_ROUNDS {
        if start.elapsed() >= RUN_FOR {
            break;
        }
        shared.sent.store(0, Ordering::Release);
        shared.done.store(0, Ordering::Release);
        let round_start = Instant::now();

        // The first requests of the stream are handled one after the
        // other (from host .200 of this round's /24) ...
        let source = IpAddr::V4(Ipv4Addr::new(
            10 + (round >> 16) as u8,
            (round >> 8) as u8,
            round as u8,
            200,
        ));
        let info = ReceivedInfo::new(source, Transport::Udp);
        let mut prefill_sent = 0;
        for _ in 0..PREFILL {
            if let Response::Single(_) = shared.server.handle_message(&q, info, &mut buf) {
                prefill_sent += 1;
            }
        }

        // ... and the rest concurrently.
        shared.round.store(round, Ordering::Release);
        while shared.done.load(Ordering::Acquire) != THREADS {
            std::hint::spin_loop();
        }
        let elapsed = round_start.elapsed();
        rounds = round;
        // The property only speaks about requests within one second.
        if elapsed >= Duration::from_millis(900) {
            continue;
        }
        let sent = prefill_sent + shared.sent.load(Ordering::Acquire);
        if std::env::var_os("SEED_DEMO_COUNT").is_some() {
            if sent != expected {
                nviol += 1;
            }
            continue;
        }
        if sent != expected {
            violation = Some((round, sent, elapsed));
            break;
        }
    }
    shared.stop.store(true, Ordering::Release);
    for h in handles {
        h.join().unwrap();
    }

    if let Some((round, sent, elapsed)) = violation {
        vq_bounded::fail("[C28] concurrent requests of one stream within one second: the number of responses sent differs from min(requests, rate*window)",
            &format!("round {round}: {requests} REFUSED responses to one /24 ({} of them from {THREADS} concurrent threads) within {elapsed:?}; rate {RATE}, window {WINDOW}, slip 0", THREADS * PER_THREAD),
            &sent, &expected);
    }
    vq_bounded::done(rounds as u64, "rounds of 7 sequential + 4 threads x 2 concurrent requests on a fresh stream (rate 4, window 2, slip 0) for 4 s; rounds longer than 0.9 s are skipped");
}
