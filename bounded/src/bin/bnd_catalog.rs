//! Bounded stand-in for C22 (catalog): every sequence of up to LEN inserts/removes over a small
//! universe of names and classes on the real `HashMapTreeCatalog`, compared after every step with
//! a reference map (written from the property text): exact lookup, longest-suffix lookup,
//! iteration, and the values returned by insert/remove.  Exact and longest-suffix lookup are asked for
//! every name of the universe and for QUERY_ONLY names that are never inserted (they leave the tree
//! below an entry, below an entry-less intermediate node, and at the class root).
use quandary::class::Class;
use quandary::db::catalog::{Catalog, Entry};
use quandary::db::{HashMapTreeCatalog, HashMapTreeZone};
use quandary::name::Name;
use vq_bounded::{done, fail};

const NAMES: [&str; 6] = [".", "a.", "b.a.", "c.b.a.", "x.", "B.A."];
/// Never inserted, only looked up: they diverge below b.a., below a., below c.b.a. (one and two labels), at the root.
const QUERY_ONLY: [&str; 5] = ["z.b.a.", "z.a.", "y.c.b.a.", "z.", "Z.y.C.b.a."];
const LEN: usize = 4;

type Cat = HashMapTreeCatalog<HashMapTreeZone, u32>;

fn labels_lower(n: &str) -> Vec<String> {
    if n == "." { return vec![]; }
    n.trim_end_matches('.').split('.').map(|l| l.to_ascii_lowercase()).collect()
}

/// Reference: list of (class index, lower-cased labels, id).
#[derive(Clone, Debug, Default)]
struct Model { entries: Vec<(usize, Vec<String>, u32)> }

impl Model {
    fn insert(&mut self, c: usize, l: Vec<String>, id: u32) -> Option<u32> {
        let old = self.remove(c, &l);
        self.entries.push((c, l, id));
        old
    }
    fn remove(&mut self, c: usize, l: &[String]) -> Option<u32> {
        let pos = self.entries.iter().position(|e| e.0 == c && e.1 == l)?;
        Some(self.entries.remove(pos).2)
    }
    fn get(&self, c: usize, l: &[String]) -> Option<u32> {
        self.entries.iter().find(|e| e.0 == c && e.1 == l).map(|e| e.2)
    }
    fn lookup(&self, c: usize, l: &[String]) -> Option<u32> {
        // the entry of that class whose name is the longest suffix of the name
        let mut best: Option<(usize, u32)> = None;
        for e in &self.entries {
            if e.0 == c && e.1.len() <= l.len() && l[l.len() - e.1.len()..] == e.1[..] {
                if best.map_or(true, |b| e.1.len() >= b.0) { best = Some((e.1.len(), e.2)); }
            }
        }
        best.map(|b| b.1)
    }
}

fn id_of(e: &Entry<HashMapTreeZone, u32>) -> u32 { *e.metadata() }

fn main() {
    let classes = [Class::IN, Class::CH];
    let names: Vec<Box<Name>> = NAMES.iter().map(|n| n.parse().unwrap()).collect();
    let labels: Vec<Vec<String>> = NAMES.iter().map(|n| labels_lower(n)).collect();
    let qtexts: Vec<&str> = NAMES.iter().chain(QUERY_ONLY.iter()).copied().collect();
    let qnames: Vec<Box<Name>> = qtexts.iter().map(|n| n.parse().unwrap()).collect();
    let qlabels: Vec<Vec<String>> = qtexts.iter().map(|n| labels_lower(n)).collect();
    let n_ops = 2 * NAMES.len() * classes.len();
    let mut cases = 0u64;
    let mut seq = vec![0usize; LEN];
    loop {
        for len in 1..=LEN {
            // run prefix of length `len` only when the remaining digits are zero (each sequence once)
            if seq[len..].iter().any(|d| *d != 0) { continue; }
            let mut cat: Cat = HashMapTreeCatalog::new();
            let mut model = Model::default();
            let mut next_id = 1u32;
            let mut trace = Vec::new();
            for &op in &seq[..len] {
                let is_insert = op % 2 == 0;
                let ni = (op / 2) % NAMES.len();
                let ci = op / (2 * NAMES.len());
                if is_insert {
                    let id = next_id; next_id += 1;
                    trace.push(format!("insert({}, {:?}, id {})", NAMES[ni], classes[ci], id));
                    let got = cat.insert(Entry::NotYetLoaded(names[ni].clone(), classes[ci], id)).map(|e| id_of(&e));
                    let want = model.insert(ci, labels[ni].clone(), id);
                    if got != want { fail("insert returned the wrong replaced entry", &trace, &got, &want); }
                } else {
                    trace.push(format!("remove({}, {:?})", NAMES[ni], classes[ci]));
                    let got = cat.remove(&names[ni], classes[ci]).map(|e| id_of(&e));
                    let want = model.remove(ci, &labels[ni]);
                    if got != want { fail("remove returned the wrong entry", &trace, &got, &want); }
                }
                for (qi, q) in qnames.iter().enumerate() {
                    for (cj, c) in classes.iter().enumerate() {
                        let got = cat.get(q, *c).map(id_of);
                        let want = model.get(cj, &qlabels[qi]);
                        if got != want { fail(&format!("get({}, {:?}) after the history", qtexts[qi], c), &trace, &got, &want); }
                        let got = cat.lookup(q, *c).map(id_of);
                        let want = model.lookup(cj, &qlabels[qi]);
                        if got != want { fail(&format!("lookup({}, {:?}) after the history", qtexts[qi], c), &trace, &got, &want); }
                    }
                }
                let mut got: Vec<u32> = cat.iter().map(id_of).collect(); got.sort();
                let mut want: Vec<u32> = model.entries.iter().map(|e| e.2).collect(); want.sort();
                if got != want { fail("iteration does not yield exactly the current entries", &trace, &got, &want); }
                cases += 1;
            }
        }
        // next sequence
        let mut k = 0;
        loop {
            if k == LEN { done(cases, "all insert/remove sequences of length <= 4 over 6 names x 2 classes; get/lookup/iter after every step, get and lookup for the 6 names + 5 never-inserted names (z.b.a. z.a. y.c.b.a. z. Z.y.C.b.a.) x 2 classes"); }
            seq[k] += 1;
            if seq[k] < n_ops { break; }
            seq[k] = 0; k += 1;
        }
    }
}
