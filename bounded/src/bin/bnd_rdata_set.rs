//! Bounded stand-in for C19 (RDATA equality is an equivalence; RDATA sets de-duplicate by it).
//! For each (class, type) below, a universe of small RDATA octet strings (well-formed with names in
//! different letter case, the same plus trailing junk, truncated, empty, compression pointer, names
//! differing in a non-letter by 0x20, differing fixed fields):
//!  * `Rdata::equals` on every pair equals the reference: octet-wise, except that when BOTH RDATA are
//!    well formed for a pre-RFC 3597 type with embedded names, the names compare ASCII-case-insensitively;
//!    reflexive on every member, symmetric on every pair, transitive on every triple;
//!  * `RdataSetOwned::from_iter`, and `From<&Rdata>` followed by `insert`s, over every sequence of up to
//!    LEN members: iteration yields, in insertion order, the first member of each equality class and
//!    nothing else; `insert` returns whether the member was new; `from_iter` of nothing is None.
use quandary::class::Class;
use quandary::rr::{Rdata, RdataSetOwned, Type};
use std::panic::{catch_unwind, AssertUnwindSafe};
use vq_bounded::{done, fail};

const LEN: usize = 4;

// ------------------------------------------------------------------------------------- reference

/// RDATA layout of the pre-RFC 3597 types that embed domain names (RFC 1035 §3.3, RFC 2782;
/// class CH A per RFC 1035 §3.4 note / Chaosnet: a domain name followed by a 16-bit address).
#[derive(Clone, Copy, Debug)]
enum Field { Name, Fixed(usize) }

/// Splits `rd` into the fields of `layout`; None unless every name is a well-formed uncompressed
/// name (labels of 1..=63 octets ending in the root label, at most 255 octets) and the fields
/// cover `rd` exactly.
fn parse<'a>(layout: &[Field], rd: &'a [u8]) -> Option<Vec<&'a [u8]>> {
    let mut pos = 0;
    let mut fields = vec![];
    for f in layout {
        let start = pos;
        match *f {
            Field::Fixed(n) => pos += n,
            Field::Name => loop {
                let len = *rd.get(pos)? as usize;
                if len > 63 { return None; }
                pos += 1 + len;
                if len == 0 { break; }
            },
        }
        if pos > rd.len() || (matches!(f, Field::Name) && pos - start > 255) { return None; }
        fields.push(&rd[start..pos]);
    }
    if pos == rd.len() { Some(fields) } else { None }
}

fn ref_equal(layout: Option<&[Field]>, x: &[u8], y: &[u8]) -> bool {
    let Some(layout) = layout else { return x == y };
    match (parse(layout, x), parse(layout, y)) {
        (Some(fx), Some(fy)) => layout.iter().zip(fx.iter().zip(fy.iter())).all(|(f, (a, b))| match f {
            // label lengths are <= 63 and never letters, so folding the whole wire name is folding its labels
            Field::Name => a.eq_ignore_ascii_case(b),
            Field::Fixed(_) => a == b,
        }),
        _ => x == y,
    }
}

// -------------------------------------------------------------------------------------- universes

const NAMES: [&[u8]; 7] = [b"\x01a\x00", b"\x01A\x00", b"\x01b\x00", b"\x01a\x01b\x00", b"\x01A\x01B\x00", b"\x01[\x00", b"\x01{\x00"];

/// RDATA strings for a layout `pre` octets + name (+ second name) + `post` octets.
fn universe(pre: usize, two_names: bool, post: usize) -> Vec<Vec<u8>> {
    let fixed = |n: usize, seed: u8| -> Vec<u8> { (0..n).map(|i| seed.wrapping_add(i as u8)).collect() };
    let build = |p: u8, n1: &[u8], n2: &[u8], q: u8| -> Vec<u8> {
        let mut v = fixed(pre, p);
        v.extend_from_slice(n1);
        if two_names { v.extend_from_slice(n2); }
        v.extend(fixed(post, q));
        v
    };
    let mut u: Vec<Vec<u8>> = vec![];
    for n in NAMES { u.push(build(1, n, NAMES[2], 1)); }                    // first name varies (case, other, non-letter)
    if two_names { u.push(build(1, NAMES[0], NAMES[3], 1)); u.push(build(1, NAMES[1], NAMES[4], 1)); }  // both names vary
    if pre > 0 { u.push(build(0x41, NAMES[0], NAMES[2], 1)); u.push(build(0x61, NAMES[1], NAMES[2], 1)); } // fixed fields: 'A..' vs 'a..'
    if post > 0 { u.push(build(1, NAMES[0], NAMES[2], 0x41)); u.push(build(1, NAMES[1], NAMES[2], 0x61)); }
    let wf = build(1, NAMES[0], NAMES[2], 1);
    let wf_upper = build(1, NAMES[1], NAMES[2], 1);
    let mut junk = wf.clone(); junk.push(0); u.push(junk);                   // well-formed + trailing octet
    let mut junk = wf_upper.clone(); junk.push(0); u.push(junk);             // the same in the other case
    let mut junk = wf_upper.clone(); junk.push(7); u.push(junk);
    u.push(wf[..wf.len() - 1].to_vec());                                     // cut short by one octet
    u.push(wf_upper[..wf_upper.len() - 1].to_vec());
    u.push(wf[..pre + 2].to_vec());                                          // cut inside the first name
    u.push(vec![]);                                                          // empty
    let mut ptr = fixed(pre, 1); ptr.extend_from_slice(&[0xc0, 0x00]); u.push(ptr);  // compression pointer: not allowed here
    let mut root = fixed(pre, 1); root.push(0); if two_names { root.push(0); } root.extend(fixed(post, 1)); u.push(root); // root name(s)
    u.sort(); u.dedup();
    u
}

struct Target { what: &'static str, class: Class, rtype: Type, layout: Option<Vec<Field>>, universe: Vec<Vec<u8>> }

fn targets() -> Vec<Target> {
    use Field::*;
    let mut t = vec![];
    for (what, ty) in [("NS", Type::NS), ("MD", Type::MD), ("MF", Type::MF), ("CNAME", Type::CNAME), ("MB", Type::MB),
                       ("MG", Type::MG), ("MR", Type::MR), ("PTR", Type::PTR)] {
        t.push(Target { what, class: Class::IN, rtype: ty, layout: Some(vec![Name]), universe: universe(0, false, 0) });
    }
    t.push(Target { what: "NS in CH", class: Class::CH, rtype: Type::NS, layout: Some(vec![Name]), universe: universe(0, false, 0) });
    t.push(Target { what: "MX", class: Class::IN, rtype: Type::MX, layout: Some(vec![Fixed(2), Name]), universe: universe(2, false, 0) });
    t.push(Target { what: "SOA", class: Class::IN, rtype: Type::SOA, layout: Some(vec![Name, Name, Fixed(20)]), universe: universe(0, true, 20) });
    t.push(Target { what: "MINFO", class: Class::IN, rtype: Type::MINFO, layout: Some(vec![Name, Name]), universe: universe(0, true, 0) });
    t.push(Target { what: "SRV in IN", class: Class::IN, rtype: Type::SRV, layout: Some(vec![Fixed(6), Name]), universe: universe(6, false, 0) });
    t.push(Target { what: "A in CH", class: Class::CH, rtype: Type::A, layout: Some(vec![Name, Fixed(2)]), universe: universe(0, false, 2) });
    // octet-wise types, fed with the same name-shaped strings
    t.push(Target { what: "A in IN", class: Class::IN, rtype: Type::A, layout: None, universe: universe(0, false, 2) });
    t.push(Target { what: "TXT", class: Class::IN, rtype: Type::TXT, layout: None, universe: universe(0, false, 0) });
    t.push(Target { what: "AAAA", class: Class::IN, rtype: Type::AAAA, layout: None, universe: universe(2, false, 0) });
    t.push(Target { what: "TYPE65280", class: Class::IN, rtype: Type::from(65280), layout: None, universe: universe(0, true, 0) });
    t.push(Target { what: "TYPE257 in CH", class: Class::CH, rtype: Type::from(257), layout: None, universe: universe(0, false, 0) });
    t
}

// ------------------------------------------------------------------------------------------- main

fn rd(o: &[u8]) -> &Rdata { o.try_into().unwrap() }

fn guarded<T>(what: &str, input: &dyn std::fmt::Debug, f: impl FnOnce() -> T) -> T {
    match catch_unwind(AssertUnwindSafe(f)) {
        Ok(v) => v,
        Err(_) => fail(&format!("panic in {what}"), input, &"panic", &"no panic"),
    }
}

fn main() {
    let mut cases = 0u64;
    for t in targets() {
        if std::env::var_os("BND_VERBOSE").is_some() { eprintln!("{}: {} members", t.what, t.universe.len()); }
        let u = &t.universe;
        let n = u.len();
        let layout = t.layout.as_deref();
        // equality table of the real code; compared with the reference pair by pair
        let mut eq = vec![vec![false; n]; n];
        for i in 0..n {
            for j in 0..n {
                let input = (t.what, "equals(x, y)", &u[i], &u[j]);
                let got = guarded("Rdata::equals", &input, || rd(&u[i]).equals(rd(&u[j]), t.class, t.rtype));
                let want = ref_equal(layout, &u[i], &u[j]);
                if got != want { fail("Rdata::equals differs from the reference", &input, &got, &want); }
                eq[i][j] = got;
                cases += 1;
            }
        }
        for i in 0..n {
            if !eq[i][i] { fail("equals is not reflexive", &(t.what, &u[i]), &false, &true); }
            for j in 0..n {
                if eq[i][j] != eq[j][i] { fail("equals is not symmetric", &(t.what, &u[i], &u[j]), &eq[i][j], &eq[j][i]); }
                for k in 0..n {
                    if eq[i][j] && eq[j][k] && !eq[i][k] { fail("equals is not transitive", &(t.what, &u[i], &u[j], &u[k]), &false, &true); }
                    cases += 1;
                }
            }
        }
        // RDATA sets: every sequence of 1..=LEN members
        if RdataSetOwned::from_iter(t.class, t.rtype, std::iter::empty::<&Rdata>()).is_some() {
            fail("from_iter of no RDATA", &t.what, &"Some", &"None");
        }
        for len in 1..=LEN {
            let mut seq = vec![0usize; len];
            'odometer: loop {
                let members: Vec<&Vec<u8>> = seq.iter().map(|&i| &u[i]).collect();
                let input = (t.what, "inserted in this order", &members);
                // reference: keep the first member of each equality class, in insertion order
                let mut want: Vec<&Vec<u8>> = vec![];
                let mut want_new = vec![];
                for m in &members {
                    let new = !want.iter().any(|w| ref_equal(layout, w, m));
                    if new { want.push(*m); }
                    want_new.push(new);
                }
                let got: Vec<Vec<u8>> = guarded("RdataSetOwned::from_iter", &input, || {
                    let set = RdataSetOwned::from_iter(t.class, t.rtype, members.iter().map(|m| rd(m)));
                    match set { Some(s) => s.iter().map(|r| r.octets().to_vec()).collect(), None => fail("from_iter of a non-empty sequence", &input, &"None", &"Some") }
                });
                if got.iter().collect::<Vec<_>>() != want { fail("RdataSetOwned::from_iter(..).iter()", &input, &got, &want); }
                let (got, got_new) = guarded("RdataSetOwned::from / insert", &input, || {
                    let mut set = RdataSetOwned::from(rd(members[0]));
                    let mut new = vec![true];
                    for m in &members[1..] { new.push(set.insert(t.class, t.rtype, rd(m))); }
                    (set.iter().map(|r| r.octets().to_vec()).collect::<Vec<_>>(), new)
                });
                if got.iter().collect::<Vec<_>>() != want { fail("RdataSetOwned::from(first) + insert(rest), then iter()", &input, &got, &want); }
                if got_new != want_new { fail("values returned by RdataSetOwned::insert (first entry: the initial member)", &input, &got_new, &want_new); }
                cases += 2;
                let mut k = len;
                loop {
                    if k == 0 { break 'odometer; }
                    k -= 1;
                    seq[k] += 1;
                    if seq[k] < n { break; }
                    seq[k] = 0;
                }
            }
        }
    }
    done(cases, "19 (class,type) targets x universes of 15-20 RDATA strings: all pairs (equals vs reference), all triples (transitivity), all member sequences of length <= 4 (from_iter and from+insert)");
}
