"""Build and run the native bounded stand-ins of /verif/bounded against a scratch
copy of /repo's working tree (public API only)."""
import os
import re
import shutil
import subprocess
import time

VERIF = os.path.dirname(os.path.dirname(os.path.abspath(__file__)))
TARGET_DIR = os.environ.get('VQ_BOUNDED_TARGET', os.path.join(VERIF, '.work', 'bounded-target'))


class NativeResult:
    def __init__(self, name):
        self.name = name
        self.status = 'unknown'   # success | failed | undecided
        self.output = ''
        self.cases = 0
        self.findings = []      # (tag, text) from `FINDING: [tag] ...` lines
        self.time_s = 0.0


def run_bins(scratch, bins, timeout=900):
    """scratch: kani_run.Scratch (has .dir and .repo). Returns (dict name -> NativeResult, cmd)."""
    dst = os.path.join(scratch.dir, 'bounded')
    shutil.rmtree(dst, ignore_errors=True)
    shutil.copytree(os.path.join(VERIF, 'bounded'), dst, ignore=shutil.ignore_patterns('target'))
    lock = os.path.join(scratch.repo, 'Cargo.lock')
    if os.path.exists(lock):
        shutil.copy(lock, os.path.join(dst, 'Cargo.lock'))
    env = dict(os.environ)
    env['CARGO_NET_OFFLINE'] = 'true'
    env['CARGO_TARGET_DIR'] = TARGET_DIR
    res = {}
    cmd = ['cargo', 'build', '--offline', '--release'] + sum((['--bin', b] for b in bins), [])
    t0 = time.time()
    try:
        p = subprocess.run(cmd, cwd=dst, env=env, capture_output=True, text=True, timeout=1200)
    except subprocess.TimeoutExpired:
        p = None
    if p is None or p.returncode != 0:
        msg = 'build failed: ' + ((p.stderr[-1500:]) if p else 'timeout')
        for b in bins:
            r = NativeResult(b)
            r.status = 'undecided'
            r.output = msg
            res[b] = r
        return res, ' '.join(cmd)
    for b in bins:
        r = NativeResult(b)
        t1 = time.time()
        try:
            q = subprocess.run([os.path.join(TARGET_DIR, 'release', b)], cwd=dst, capture_output=True, text=True, timeout=timeout)
            out = q.stdout + q.stderr
            r.output = out[-4000:]
            r.findings = [(m.group(1), m.group(0) + out[m.end():m.end() + 600].split('FINDING:')[0].split('BOUNDED-OK')[0].rstrip()) for m in re.finditer(r'FINDING: \[([\w.\-]+)\][^\n]*', out)]
            m = re.search(r'BOUNDED-OK cases=(\d+)', out)
            if q.returncode == 0 and m:
                r.status = 'success'
                r.cases = int(m.group(1))
            elif q.returncode == 1 and 'COUNTEREXAMPLE:' in out:
                r.status = 'failed'
            else:
                r.status = 'undecided'     # crash of the harness itself, not a verdict... unless it is the code under test that panicked
                if 'panicked at' in out and 'src/' in out and 'bounded/src' not in out.split('panicked at')[1][:200]:
                    r.status = 'failed'    # panic inside the crate under test: a totality violation with the printed input
        except subprocess.TimeoutExpired:
            r.status = 'undecided'
            r.output = 'timeout after %ds' % timeout
        r.time_s = time.time() - t1
        res[b] = r
    return res, ' '.join(cmd)
