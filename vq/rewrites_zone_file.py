"""Rewrite rules of unit zone_file_records (C24), ids ZF*; all opt-in (`rules=+ZFn`).

Same discipline as vq/rewrites.py / rewrites_zone.py: each rule matches one exact
syntactic form, copies the operative text through capture groups and only adds
what Verus needs (eta-expansion / type ascription / CHECKED ghost clauses).  If
the source changes so that the regex no longer matches, the text stays as it is
and the enclosing proof fails (fail-safe).
"""

RULES = {}

REGEX_RULES = {
    # R10 for an argument position: a tuple-variant constructor passed as the
    # `or_else` function of Reader::read_field.  Verus does not accept a datatype
    # constructor as a function value; `|e| C(e)` is its eta-expansion.
    'ZF1': (r'read_field(::<[^>()]*>)?\(\s*((?:\w+::)+[A-Z]\w*)\s*\)',
            r'read_field\1(|e| \2(e))',
            'ZF1: `read_field(ErrorKind::Variant)` -> `read_field(|e| ErrorKind::Variant(e))` '
            '(eta-expansion of a tuple-variant constructor used as a function value; same as R10)'),
    # closure annotation (cf. ZN2-ZN4): the validator closure of parse_name_rdata.  An
    # un-annotated closure has no postcondition in Verus; the body is copied unchanged
    # and the added `ensures` is CHECKED against it.
    'ZF2': (r'\|(\w+)\|\s*\{\s*(Name::validate_uncompressed_all\(\1\.octets\(\)\))\s*\}',
            r'|\1: &Rdata| -> (res: core::result::Result<(), crate::name::Error>) '
            r'ensures res is Ok <==> valid_single_name(\1.octets@) '
            r'{ proof { assert(tail(\1.octets@, 0) =~= \1.octets@); } \2 }',
            'ZF2: closure annotation for `|rdata| { Name::validate_uncompressed_all(rdata.octets()) }`: '
            'adds parameter/return types, a checked ghost `ensures` and a one-line ghost hint (s[0..] == s); the executable body is unchanged'),
    # `.map_err(Into::into)` on an io::Result: Verus cannot resolve the trait-method path
    # `Into::into` to the user `From` impl through `call_ensures`; the eta-expansion with the
    # target type written out calls the same conversion (`From<io::Error> for Error`).
    'ZF3': (r'\.map_err\(\s*Into::into\s*\)',
            r'.map_err(|e: io::Error| -> (x: Error) { e.into() })',
            'ZF3: `.map_err(Into::into)` -> `.map_err(|e: io::Error| -> (x: Error) { e.into() })` '
            '(eta-expansion with the types written out; the conversion called is the same `Into::into`)'),
    # closure annotation: `.map(|(_, v)| v)` on a Result of a pair (Verus accepts only
    # variables as closure parameters): second projection through a VERIFIED helper,
    # mirror image of R11 (vq_map_first).
    'ZF4': (r'(self\.parse_unknown_rdata_impl\(\))\.map\(\s*\|\s*\(\s*_\s*,\s*(\w+)\s*\)\s*\|\s*\2\s*\)',
            r'vq_map_second(\1)',
            'ZF4: `RECV.map(|(_, v)| v)` -> `vq_map_second(RECV)`: verified prelude function whose body is '
            'the definition of Result::map applied to the second projection (cf. R11)'),
    # Verus does not accept `_` as a closure parameter; `_e` is the same unused binder.
    'ZF5': (r'\|\s*_\s*\|', r'|_e|',
            'ZF5: closure parameter `_` -> `_e` (an unused binder under another name; Verus does not accept `_` closure parameters)'),
    # iterator adaptor `all` over a fixed array with a function item: replaced by a VERIFIED prelude
    # function whose loop is the definition of `Iterator::all` (conjunction over the elements in order).
    'ZF6': (r'(\w+)\.iter\(\)\.all\(\s*u8::is_ascii_digit\s*\)', r'vq_all_ascii_digits(&\1)',
            'ZF6: `ARR.iter().all(u8::is_ascii_digit)` -> `vq_all_ascii_digits(&ARR)`: verified prelude function '
            '(loop over the slice = definition of Iterator::all; cf. R11)'),
}
