"""Mechanical extractor: unit template (.vrs) + /repo sources -> one Verus file.

Directives (each on its own line, starting with `//@`):

  //@use <path-under-/verif> [mode=assume]
        textual include, processed recursively.  With mode=assume every
        //@fn block inside is emitted as signature + contract with
        #[verifier::external_body] (the callee-contract view used by callers;
        the body is proved in the unit that includes the fragment without
        mode=assume).
  //@rules <ids...>            default rewrite rules for following //@fn blocks
  //@fn <repo-file> <name> [impl="hdr substring"] [ret=r] [nth=N] [rules=+R5,-R2]
        [nopub] [as=newname] [self=Type]
        ... contract clauses (requires/ensures/decreases ...)
  //@loop <k>                  spec text for the k-th loop keyword of the body
  //@before <n> `literal`      ghost text inserted before n-th occurrence
  //@after <n> `literal`       ghost text inserted after n-th occurrence
  //@afterstmt <n> `literal`   ghost text inserted after the `;` ending the statement that contains the n-th occurrence
  //@endfn
  //@item <repo-file> <kind> <Name> [rules=...]   item copied verbatim (fields made pub)

Everything else is copied through.  The body of an extracted function is the
source text between its braces with comments blanked, the rewrite rules of
vq/rewrites.py applied, and ghost text spliced in.  Spliced text is checked to
contain only ghost constructs (invariant/decreases/ensures/proof/assert/let
ghost/assume is forbidden).
"""
import hashlib
import os
import re
import shlex

from . import rustscan, rewrites
from .rustscan import ScanError

VERIF = os.path.dirname(os.path.dirname(os.path.abspath(__file__)))
REPO = os.environ.get('VQ_REPO', '/repo')


class Out:
    def __init__(self):
        self.lines = []     # text
        self.origin = []    # (kind, file, line)

    def add(self, text, kind, file, start_line, advance=True):
        ls = text.split('\n')
        if ls and ls[-1] == '':
            ls = ls[:-1]
        for k, l in enumerate(ls):
            self.lines.append(l)
            self.origin.append((kind, file, start_line + (k if advance else 0)))

    def text(self):
        return '\n'.join(self.lines) + '\n'


FORBIDDEN_GHOST = re.compile(r'\b(assume|admit)\s*\(')


def _lit_regex(lit):
    parts = [re.escape(p) for p in lit.split()]
    return re.compile(r'\s*'.join(parts))


def strip_comments(text):
    """Blank comments, keep strings."""
    return rustscan.mask(text, keep_strings=True)


def transform_signature(sig, ret_name, newname=None, nopub=False, quals=()):
    """`fn name<..>(params) -> T where ..`  ->  `[pub] fn name<..>(params) -> (r: T) where ..`"""
    s = sig.strip()
    tmp = s.replace('->', '  ')
    # find param list open: first '(' at angle depth 0 after `fn name`
    m = re.match(r'fn\s+(\w+)', s)
    if not m:
        raise ScanError('bad signature: ' + s)
    name = m.group(1)
    k = m.end()
    depth = 0
    popen = -1
    while k < len(tmp):
        ch = tmp[k]
        if ch == '<':
            depth += 1
        elif ch == '>':
            depth -= 1
        elif ch == '(' and depth == 0:
            popen = k
            break
        k += 1
    if popen < 0:
        raise ScanError('no parameter list: ' + s)
    pclose = rustscan.match_brace(s, popen)
    head = s[:pclose + 1]
    rest = s[pclose + 1:]
    if newname:
        head = re.sub(r'^fn\s+\w+', 'fn ' + newname, head)
    where = ''
    mw = re.search(r'\bwhere\b', rest)
    if mw:
        where = ' ' + rest[mw.start():].strip()
        rest = rest[:mw.start()]
    rest = rest.strip()
    if rest.startswith('->'):
        rty = rest[2:].strip()
        ret = ' -> (%s: %s)' % (ret_name, rty)
    else:
        ret = ''
    pre = '' if nopub else 'pub '
    if 'unsafe' in quals:
        pre += 'unsafe '
    return pre + head + ret + where, name


class Extractor:
    def __init__(self, repo=None):
        self.repo = repo or REPO
        self.out = Out()
        self.functions = []     # metadata per extracted fn
        self.assumed = []       # fns emitted as external_body contract stubs
        self.items = []
        self.rules_default = list(rewrites.DEFAULT_RULES)
        self.files_used = set()
        self._src_cache = {}
        self.drop_splices = {}      # (file, fn, impl) -> set of splice ordinals to leave out (ghost text no longer compiles)
        self.splice_lines = {}      # generated line number -> ((file, fn, impl), splice ordinal)

    def src(self, rel):
        if rel not in self._src_cache:
            p = os.path.join(self.repo, rel)
            if not os.path.exists(p):
                raise ScanError('source file missing: ' + rel)
            with open(p) as f:
                self._src_cache[rel] = f.read()
        return self._src_cache[rel]

    # ------------------------------------------------------------------
    def process_file(self, path, assume=False):
        full = path if os.path.isabs(path) else os.path.join(VERIF, path)
        rel = os.path.relpath(full, VERIF)
        self.files_used.add(rel)
        with open(full) as f:
            lines = f.read().split('\n')
        i = 0
        n = len(lines)
        while i < n:
            line = lines[i]
            st = line.strip()
            if st.startswith('//@use '):
                args = shlex.split(st[len('//@use '):])
                mode_assume = assume or ('mode=assume' in args[1:])
                self.process_file(args[0], assume=mode_assume)
                i += 1
            elif st.startswith('//@rules '):
                self.rules_default = st.split()[1:]
                i += 1
            elif st.startswith('//@fn '):
                j = i + 1
                block = []
                while j < n and lines[j].strip() != '//@endfn':
                    block.append((j + 1, lines[j]))
                    j += 1
                if j >= n:
                    raise ScanError('%s:%d: //@fn without //@endfn' % (rel, i + 1))
                self.emit_fn(rel, i + 1, st, block, assume)
                i = j + 1
            elif st.startswith('//@item '):
                self.emit_item(rel, i + 1, st)
                i += 1
            elif st.startswith('//@'):
                raise ScanError('%s:%d: unknown directive %s' % (rel, i + 1, st))
            else:
                self.out.add(line + '\n', 'unit', rel, i + 1)
                i += 1

    # ------------------------------------------------------------------
    def parse_opts(self, st, skip):
        toks = shlex.split(st)[skip:]
        opts = {}
        pos = []
        for t in toks:
            if '=' in t and re.match(r'^\w+=', t):
                k, v = t.split('=', 1)
                opts[k] = v
            else:
                pos.append(t)
        return pos, opts

    def rules_for(self, opts):
        rules = list(self.rules_default)
        if 'rules' in opts:
            for r in opts['rules'].split(','):
                r = r.strip()
                if r.startswith('+'):
                    if r[1:] not in rules:
                        rules.append(r[1:])
                elif r.startswith('-'):
                    if r[1:] in rules:
                        rules.remove(r[1:])
                elif r:
                    rules.append(r)
        return rules

    def emit_item(self, unit_rel, unit_line, st):
        pos, opts = self.parse_opts(st, 1)
        file, kind, name = pos[0], pos[1], pos[2]
        text = self.src(file)
        s, e = rustscan.locate_item(file, text, kind, name)
        item = strip_comments(text[s:e])
        # R1: make the item and its fields pub
        if kind != 'impl':
            item = re.sub(r'^\s*(pub(\([^)]*\))?\s+)?', 'pub ', item, count=1)
        if kind == 'struct':
            item = re.sub(r'(?m)^(\s+)(?!pub\b)(\w+\s*:)', r'\1pub \2', item)
            item = re.sub(r'pub\(crate\)\s+', 'pub ', item)
            mt = re.match(r'(pub\s+struct\s+\w+(?:<[^>]*>)?\s*)\((.*)\)(\s*;)\s*$', item, re.S)
            if mt:
                fields = rewrites._split_top_commas(mt.group(2))
                fields = [f if (not f.strip() or f.strip().startswith('pub')) else ' pub ' + f.strip() for f in fields]
                item = mt.group(1) + '(' + ','.join(fields).strip() + ')' + mt.group(3)
        rules = self.rules_for(opts)
        item, fired = rewrites.apply(item, rules)
        line = text.count('\n', 0, s) + 1
        # R1c: carry over #[derive(..)] restricted to traits Verus understands; derived
        # PartialEq+Eq is structural equality, which Verus needs spelled as `Structural`.
        flags = set(pos[3:])
        pre = text[:s].rstrip()
        derives = []
        while pre.endswith(']'):
            a = pre.rfind('#[')
            attr = pre[a:]
            md = re.match(r'#\[derive\((.*)\)\]$', attr, re.S)
            if md:
                derives = [d.strip() for d in md.group(1).split(',') if d.strip()] + derives
            pre = pre[:a].rstrip()
            # skip doc comments between attributes
            while True:
                last_nl = pre.rfind('\n')
                last_line = pre[last_nl + 1:].strip()
                if last_line.startswith('//'):
                    pre = pre[:last_nl].rstrip() if last_nl >= 0 else ''
                else:
                    break
        keep = [d for d in derives if d in ('Clone', 'Copy', 'Debug', 'Eq', 'PartialEq')]
        if 'noderive' in flags:
            keep = []
        structural = ('PartialEq' in keep and 'Eq' in keep and 'nostructural' not in flags
                      and kind in ('struct', 'enum')
                      and not re.match(r'pub\s+' + kind + r'\s+\w+\s*<', item))
        if keep:
            self.out.add('#[derive(%s)]\n' % ', '.join(keep), 'src', file, line)
        self.out.add(item + '\n', 'src', file, line)
        if structural:
            # (derive(Structural) crashes this Verus inside nested modules; the manual impl is equivalent)
            self.out.add('unsafe impl Structural for %s {}\n' % name, 'src', file, line)
        self.items.append({'file': file, 'kind': kind, 'name': name, 'line': line,
                           'rules_fired': fired})

    def emit_fn(self, unit_rel, unit_line, st, block, assume):
        pos, opts = self.parse_opts(st, 1)
        file, name = pos[0], pos[1]
        flags = set(pos[2:])
        text = self.src(file)
        loc = rustscan.locate_fn(file, text, name, impl=opts.get('impl'), nth=int(opts.get('nth', '1')))
        ret = opts.get('ret', 'r')
        sig_src = strip_comments(text[loc.fn_idx:loc.body_open])
        rules = self.rules_for(opts)
        sig_src, sig_fired = rewrites.apply(sig_src, [r for r in rules if r in rewrites.REGEX_RULES and r.startswith('S')])
        sig, _ = transform_signature(sig_src, ret, newname=opts.get('as'), nopub=('nopub' in flags),
                                     quals=loc.qualifiers)
        if 'sigsub' in opts:
            # signature-only substitution "old=>new" (R9 monomorphisation of impl Trait params)
            for sub in opts['sigsub'].split(';;'):
                a, b = sub.split('=>')
                if a not in sig:
                    raise ScanError('%s:%d: sigsub pattern %r not in signature %r' % (unit_rel, unit_line, a, sig))
                sig = sig.replace(a, b)
        # split block into contract + splices
        contract = []
        splices = []   # (kind, n, literal, [(line, text)])
        cur = None
        for (ln, l) in block:
            s = l.strip()
            if s.startswith('//@loop '):
                cur = ('loop', int(s.split()[1]), None, [])
                splices.append(cur)
            elif s.startswith('//@before ') or s.startswith('//@after ') or s.startswith('//@afterstmt '):
                m = re.match(r'//@(before|afterstmt|after)\s+(\d+)\s+`(.*)`\s*$', s)
                if not m:
                    raise ScanError('%s:%d: bad splice directive' % (unit_rel, ln))
                cur = (m.group(1), int(m.group(2)), m.group(3), [])
                splices.append(cur)
            elif s.startswith('//@'):
                raise ScanError('%s:%d: unknown directive in fn block' % (unit_rel, ln))
            elif cur is None:
                contract.append((ln, l))
            else:
                cur[3].append((ln, l))
        src_line = loc.line_of(loc.fn_idx)
        src_hash = hashlib.sha256(text[loc.sig_start:loc.body_close + 1].encode()).hexdigest()[:16]
        meta = {'unit_file': unit_rel, 'unit_line': unit_line, 'file': file, 'fn': name,
                'impl': opts.get('impl'), 'line': src_line, 'sha': src_hash,
                'emitted_as': opts.get('as', name)}
        for (ln, l) in contract:
            if FORBIDDEN_GHOST.search(rustscan.mask(l)):
                raise ScanError('%s:%d: assume/admit not allowed in contracts' % (unit_rel, ln))
        if assume:
            # `mut` on a by-value receiver is not part of the function's type (R12)
            sig = re.sub(r'\(\s*mut\s+self\b', '(self', sig, count=1)
            self.out.add('#[verifier::external_body]\n', 'unit', unit_rel, unit_line)
            self.out.add(sig + '\n', 'src', file, src_line, advance=False)
            for (ln, l) in contract:
                self.out.add(l + '\n', 'unit', unit_rel, ln)
            self.out.add('{ unimplemented!() }\n', 'unit', unit_rel, unit_line)
            meta['mode'] = 'assumed-here'
            self.assumed.append(meta)
            return
        body = strip_comments(text[loc.body_open:loc.body_close + 1])
        ops, nclos = body_ops(body)
        meta['ops'] = sorted(ops)
        meta['closures'] = nclos
        meta['arith'] = arith_ops(body)
        meta['ops_key'] = ops_key(meta, opts.get('nth', '1'))
        base = baseline_ops()
        if base is not None and meta['ops_key'] in base:
            b = base[meta['ops_key']]
            meta['new_ops'] = sorted(ops - set(b['ops']))
            meta['new_closures'] = max(0, nclos - b['closures'])
            ba = b.get('arith', {})
            meta['new_arith'] = sorted(k for k, v in meta['arith'].items() if v > ba.get(k, 0))
        body, fired = rewrites.apply(body, rules)
        for k, v in sig_fired.items():
            fired[k] = fired.get(k, 0) + v
        if re.search(r'\(\s*mut\s+self\b', sig):
            # R12: a by-value `mut self` parameter is not supported by Verus; it is exactly
            # `self` plus `let mut vq_self = self;` with the body using vq_self.
            sig = re.sub(r'\(\s*mut\s+self\b', '(self', sig, count=1)
            mb = rustscan.mask(body)
            out_b, last_i = [], 0
            for mm in re.finditer(r'\bself\b', mb):
                out_b.append(body[last_i:mm.start()])
                out_b.append('vq_self')
                last_i = mm.end()
            out_b.append(body[last_i:])
            body = ''.join(out_b)
            body = body[0] + ' let mut vq_self = self; ' + body[1:]
            fired['R12'] = 1
        mbody = rustscan.mask(body)
        loops = rustscan.loop_positions(mbody)
        if 'loops' in opts and int(opts['loops']) != len(loops):
            raise ScanError('%s: fn %s has %d loops, contract file expects %s (lost anchor)'
                            % (file, name, len(loops), opts['loops']))
        n_loop_specs = len([s for s in splices if s[0] == 'loop'])
        lost = []      # ghost splices that could not be placed on this version of the code
        if n_loop_specs and n_loop_specs != len(loops) and 'loops' not in opts:
            lost.append('loop count changed: %d loops in the code, %d loop specs' % (len(loops), n_loop_specs))
        inserts = []   # (offset, order, lines)
        drop = set(self.drop_splices.get((file, name, opts.get('impl')), ()))
        for order, (kind, k, lit, ls) in enumerate(splices):
            for (ln, l) in ls:
                if FORBIDDEN_GHOST.search(rustscan.mask(l)):
                    raise ScanError('%s:%d: assume/admit not allowed in spliced ghost text' % (unit_rel, ln))
            if order in drop:
                lost.append('ghost text of splice #%d (%s %s) does not type-check against this code' % (order, kind, lit or k))
                continue
            if kind == 'loop':
                if k < 1 or k > len(loops):
                    lost.append('loop %d not found (function has %d)' % (k, len(loops)))
                    continue
                off = loops[k - 1][1]
            else:
                rx = _lit_regex(lit)
                ms = list(rx.finditer(body))
                if len(ms) < k:
                    lost.append('anchor `%s` occurrence %d not found' % (lit, k))
                    continue
                if kind == 'before':
                    off = ms[k - 1].start()
                elif kind == 'after':
                    off = ms[k - 1].end()
                else:
                    # end of the statement containing the match: next `;` at bracket depth 0
                    q = ms[k - 1].start()
                    depth = 0
                    while q < len(mbody):
                        ch = mbody[q]
                        if ch in '([{':
                            depth += 1
                        elif ch in ')]}':
                            depth -= 1
                            if depth < 0:
                                break
                        elif ch == ';' and depth == 0:
                            break
                        q += 1
                    if q >= len(mbody) or mbody[q] != ';':
                        lost.append('no statement end after anchor `%s`' % lit)
                        continue
                    off = q + 1
            inserts.append((off, order, ls))
        inserts.sort()
        # emit
        self.out.add(sig + '\n', 'src', file, src_line, advance=False)
        for (ln, l) in contract:
            self.out.add(l + '\n', 'unit', unit_rel, ln)
        body_line0 = loc.line_of(loc.body_open)
        last = 0
        for (off, order_, ls) in inserts:
            seg = body[last:off]
            self.out.add(seg + '\n', 'src', file, body_line0 + body.count('\n', 0, last))
            for (ln, l) in ls:
                self.out.add(l + '\n', 'unit', unit_rel, ln)
                self.splice_lines[len(self.out.lines)] = ((file, name, opts.get('impl')), order_)
            last = off
        self.out.add(body[last:] + '\n', 'src', file, body_line0 + body.count('\n', 0, last))
        meta['rules_fired'] = fired
        meta['lost_splices'] = lost
        meta['loops'] = len(loops)
        meta['mode'] = 'verified-here'
        self.functions.append(meta)


BASELINE_FNS = os.path.join(VERIF, 'units', 'baseline_fns.json')
BASELINE_OPS = os.path.join(VERIF, 'units', 'baseline_ops.json')

_KEYWORDS = set('if while for match return loop let fn in as else move ref mut unsafe where impl struct enum type use pub const static'.split())
_OPS_CACHE = {}


def body_ops(body):
    """Operations a function body uses that a proof has to know a meaning for: names applied to
    arguments (function / method / constructor calls), macros, and closures (counted).  Taken from
    the comment-free source text of the body, before any rewrite rule."""
    m = rustscan.mask(body)
    ops = set()
    for mm in re.finditer(r'\b([A-Za-z_]\w*)\s*(?:::\s*<[^<>()]*(?:<[^<>()]*>[^<>()]*)*>\s*)?\(', m):
        if mm.group(1) not in _KEYWORDS:
            ops.add(mm.group(1))
    for mm in re.finditer(r'\b([A-Za-z_]\w*)!\s*[\(\[\{]', m):
        ops.add(mm.group(1) + '!')
    closures = len(re.findall(r'(?:[(,={;]|\bmove|\breturn)\s*(?:move\s+)?\|', m))
    return ops, closures


_TOK_RE = re.compile(r"[A-Za-z_]\w*|\d[\w.]*|<<=|>>=|<<|>>|&&|\|\||&=|\|=|\^=|\*=|/=|%=|->|=>|==|!=|<=|>=|::|\.\.=?|.", re.S)
_PREFIX_KW = set('if while match return in let mut ref else move break loop for unsafe as'.split()) - {'as'}
_ARITH = {'<<': '<<', '<<=': '<<', '>>': '>>', '>>=': '>>', '&': '&', '&=': '&', '|': '|', '|=': '|', '^': '^', '^=': '^',
          '*': '*', '*=': '*', '/': '/', '/=': '/', '%': '%', '%=': '%'}


def arith_ops(body):
    """Counts of the BINARY bit-level / non-linear operators in a body (<< >> & | ^ * / %), the ones
    Verus' default solver mode does not reason about without an explicit by(bit_vector) /
    by(nonlinear_arith) hint.  Token-based; reference `&`, deref `*`, closure bars, `&&`/`||` and
    generic brackets are not counted."""
    toks = [t for t in _TOK_RE.findall(rustscan.mask(body)) if not t.isspace()]
    counts = {}
    i = 0
    n = len(toks)

    def is_operand_end(t):
        return (t[0].isalnum() or t[0] == '_' or t in (')', ']')) and t not in _PREFIX_KW

    while i < n:
        t = toks[i]
        prev = toks[i - 1] if i else ''
        nxt = toks[i + 1] if i + 1 < n else ''
        infix = bool(prev) and is_operand_end(prev)
        if t == '|' and not infix:
            # closure parameter list: skip to the closing bar
            j = i + 1
            while j < n and toks[j] != '|':
                j += 1
            i = j + 1
            continue
        if t in _ARITH and infix:
            ok = True
            if t in ('>>', '<<') and not (nxt and (nxt[0].isalnum() or nxt[0] in '_(-!*&')):
                ok = False
            if t.endswith('=') and len(t) > 1:
                ok = True
            if ok:
                k = _ARITH[t]
                counts[k] = counts.get(k, 0) + 1
        i += 1
    return counts


def baseline_ops():
    if 'b' not in _OPS_CACHE:
        import json
        try:
            _OPS_CACHE['b'] = json.load(open(BASELINE_OPS))
        except Exception:
            _OPS_CACHE['b'] = None
    return _OPS_CACHE['b']


def ops_key(meta, nth):
    return '%s|%s|%s|%s' % (meta['file'], meta.get('impl') or '', meta['fn'], nth)


def file_functions(text):
    """Names of the functions defined in a source file outside #[cfg(test)] modules,
    as 'impl-header::fn' / 'fn'."""
    masked = rustscan.mask(text)
    tests = rustscan.test_mod_ranges(text, masked)
    impls = rustscan.impl_blocks(text, masked)
    out = set()
    for m in re.finditer(r'\bfn\s+(\w+)', masked):
        i = m.start()
        if any(a <= i <= b for a, b in tests):
            continue
        owner = ''
        best = None
        for (h, o, c) in impls:
            if o < i < c and (best is None or o > best[0]):
                best = (o, h)
        if best:
            owner = re.sub(r'\s+', ' ', best[1]).strip() + '::'
        out.add(owner + m.group(1))
    return out


def coverage_guard(ex):
    """Functions that exist now in a file a unit extracts from but did not exist when the
    contracts were written (units/baseline_fns.json): code the contracts know nothing about."""
    import json
    if not os.path.exists(BASELINE_FNS):
        return []
    base = json.load(open(BASELINE_FNS))
    new = []
    for rel, text in ex._src_cache.items():
        if rel not in base:
            continue
        known = set(base[rel])
        for f in sorted(file_functions(text) - known):
            new.append('%s: %s' % (rel, f))
    return new


def generate(unit_path, out_path, repo=None, drop_splices=None):
    ex = Extractor(repo)
    if drop_splices:
        ex.drop_splices = drop_splices
    ex.process_file(unit_path)
    ex.new_functions = coverage_guard(ex)
    text = ex.out.text()
    os.makedirs(os.path.dirname(out_path), exist_ok=True)
    with open(out_path, 'w') as f:
        f.write(text)
    return ex


if __name__ == '__main__':
    import sys
    ex = generate(sys.argv[1], sys.argv[2])
    for m in ex.functions:
        print('extracted', m['file'], m['fn'], 'line', m['line'], m.get('rules_fired'))
