"""Run Verus on a generated unit file and classify the outcome per function."""
import json
import os
import re
import subprocess
import time

from . import extract
from .rustscan import ScanError

VERUS = os.environ.get('VQ_VERUS', 'verus')

SAFETY_MSG = (
    'precondition not satisfied',
    'possible arithmetic underflow/overflow',
    'possible division by zero',
    'possible bit shift underflow/overflow',
)


class UnitResult:
    def __init__(self, unit):
        self.unit = unit
        self.status = 'ok'        # ok | failed | undecided
        self.reason = ''
        self.functions = {}       # verus fn path -> {'success': bool, 'time_us':.., 'rlimit':..}
        self.failures = []        # list of dicts (obligation failures)
        self.verified = 0
        self.errors = 0
        self.smt_ms = 0
        self.wall_s = 0.0
        self.extractor = None
        self.gen_path = None
        self.cmd = ''
        self.raw_err = ''
        self.retry_drop = []
        self.dropped_splices = {}
        self.lost_splices = {}
        self.hint_lost_failures = []


def slug(msg):
    return re.sub(r'[^a-z0-9]+', '_', msg.lower()).strip('_')


def label_of(line_text):
    m = re.search(r'//.*\[([A-Za-z][A-Za-z0-9_.\-]+)\]', line_text or '')
    return m.group(1) if m else None


def run_unit(unit_name, unit_path, workdir, repo=None, rlimit=None, extra_args=(), timeout=600):
    """Generate and verify a unit.  Ghost splices whose text no longer type-checks
    against the current code (a local they mention was renamed or removed) are
    dropped one round at a time and the unit is re-run; a function that lost a
    hint is still checked, but its failure then counts as undecided."""
    drop = {}
    res = None
    for _round in range(5):
        res = _run_unit_once(unit_name, unit_path, workdir, repo, rlimit, extra_args, timeout, drop)
        if not res.retry_drop:
            break
        for (key, order) in res.retry_drop:
            drop.setdefault(key, set()).add(order)
    res.dropped_splices = {('%s::%s' % (k[0], k[1])): sorted(v) for k, v in drop.items()}
    return res


def _run_unit_once(unit_name, unit_path, workdir, repo, rlimit, extra_args, timeout, drop):
    res = UnitResult(unit_name)
    res.retry_drop = []
    gen = os.path.join(workdir, unit_name + '.rs')
    res.gen_path = gen
    t0 = time.time()
    try:
        ex = extract.generate(unit_path, gen, repo=repo, drop_splices=drop)
    except ScanError as e:
        res.status = 'undecided'
        res.reason = 'extraction: %s' % e
        return res
    res.extractor = ex
    cmd = [VERUS, gen, '--output-json', '--time-expanded', '--error-format=json', '--multiple-errors', '20']
    if rlimit:
        cmd += ['--rlimit', str(rlimit)]
    cmd += list(extra_args)
    res.cmd = ' '.join(cmd)
    try:
        p = subprocess.run(cmd, capture_output=True, text=True, timeout=timeout, cwd=workdir)
    except subprocess.TimeoutExpired:
        res.status = 'undecided'
        res.reason = 'verus timeout after %ds' % timeout
        return res
    res.wall_s = time.time() - t0
    res.raw_err = p.stderr
    try:
        out = json.loads(p.stdout)
    except Exception:
        res.status = 'undecided'
        res.reason = 'verus produced no JSON (rc=%s): %s' % (p.returncode, p.stderr[-2000:])
        return res
    vr = out.get('verification-results', {})
    res.verified = vr.get('verified', 0)
    res.errors = vr.get('errors', 0)
    smt = out.get('times-ms', {}).get('smt', {})
    res.smt_ms = smt.get('smt-run', 0)
    for mod in smt.get('smt-run-module-times', []):
        for fb in mod.get('function-breakdown', []):
            res.functions[fb['function']] = {'success': fb.get('success', False),
                                             'time_us': fb.get('time-micros', 0),
                                             'rlimit': fb.get('rlimit', 0)}
    diags = []
    for line in p.stderr.splitlines():
        line = line.strip()
        if not line.startswith('{'):
            continue
        try:
            diags.append(json.loads(line))
        except Exception:
            pass
    compile_errors = []
    for d in diags:
        if d.get('level') != 'error':
            continue
        msg = d.get('message', '')
        if msg.startswith('aborting due to'):
            continue
        if d.get('code') is not None:
            compile_errors.append(d)
            continue
        spans = d.get('spans', [])
        prim = [s for s in spans if s.get('is_primary')]
        sec = [s for s in spans if not s.get('is_primary')]
        if not prim:
            compile_errors.append(d)
            continue
        if not any(msg.lower().startswith(m) for m in VERIFICATION_FAILURE_MSG):
            # a code-less error that is not one of Verus' verification failures (the Verus syntax
            # layer rejecting the generated text, an unsupported-feature report, ...): not a verdict
            compile_errors.append(d)
            continue
        ps = prim[0]
        gl = ps['line_start']
        origin = ex.out.origin[gl - 1] if 0 < gl <= len(ex.out.origin) else ('?', '?', 0)
        fn = enclosing_fn(ex, gl)
        clause_label = None
        clause_origin = None
        # the clause that failed is the span Verus marks "failed this postcondition / precondition /
        # invariant"; for assertion failures and arithmetic checks it is the primary span itself.
        # Only the lines of THAT span are searched for a `// [label]` (never neighbouring clauses).
        marked = [sp for sp in sec + prim if sp.get('label') and 'failed' in (sp.get('label') or '')]
        cands = marked if marked else prim
        for sp in cands:
            for k in range(sp['line_start'], sp.get('line_end', sp['line_start']) + 1):
                lab = label_of(ex.out.lines[k - 1]) if 0 < k <= len(ex.out.lines) else None
                if lab:
                    clause_label = lab
                    clause_origin = ex.out.origin[k - 1]
                    break
            if clause_label:
                break
        kind = slug(msg)
        low = msg.lower()
        if 'rlimit' in low or 'resource limit' in low or 'timed out' in low or 'timeout' in low:
            res.status = 'undecided'
            res.reason = 'solver resource limit in %s: %s' % (fn, msg)
            continue
        res.failures.append({
            'unit': unit_name,
            'fn': fn,
            'kind': kind,
            'message': msg,
            'label': clause_label,
            'safety': any(msg.startswith(m) for m in SAFETY_MSG),
            'at': '%s:%d' % (origin[1], origin[2]),
            'at_kind': origin[0],
            'clause_at': ('%s:%d' % (clause_origin[1], clause_origin[2])) if clause_origin else None,
            'rendered': d.get('rendered', ''),
            'obligation': '%s.%s.%s' % (unit_name, fn, clause_label or kind),
        })
    if compile_errors:
        # compile errors located inside spliced ghost text: drop those splices and retry
        todo = set()
        for d in compile_errors:
            for sp in d.get('spans', []):
                if sp.get('is_primary'):
                    for gl in range(sp['line_start'], sp.get('line_end', sp['line_start']) + 1):
                        if gl in ex.splice_lines:
                            todo.add(ex.splice_lines[gl])
        new_todo = [t for t in todo if t[1] not in drop.get(t[0], set())]
        if new_todo:
            res.retry_drop = new_todo
        res.status = 'undecided'
        res.reason = 'rustc/VIR error (unsupported construct or signature change): ' + \
            '; '.join((d.get('message', '')[:200] + ' @' + _where(ex, d)) for d in compile_errors[:5])
        return res
    if vr.get('encountered-vir-error'):
        res.status = 'undecided'
        res.reason = 'VIR error: ' + p.stderr[-1500:]
        return res
    if res.status == 'undecided':
        return res
    lost_by_fn = {}
    try:
        gen_text = open(gen).read()
    except Exception:
        gen_text = ''
    for m in ex.functions:
        if m.get('lost_splices'):
            lost_by_fn[m['emitted_as']] = list(m['lost_splices'])
        opaque = opaque_ops(gen_text, m.get('new_ops') or [])
        if m.get('new_closures'):
            opaque.append('%d new closure(s)' % m['new_closures'])
        if m.get('new_arith'):
            opaque.append('new bit-level / non-linear operator(s) %s (Verus needs an explicit by(bit_vector) / '
                          'by(nonlinear_arith) hint for each; the contract file has none for these)' % ' '.join(m['new_arith']))
        if opaque:
            # the body now applies operations that were not in it when its contract and proof were
            # written and for which the contract set holds no meaning (a closure Verus cannot see
            # through, a stand-in without a postcondition): a failed proof of this function is not a verdict
            lost_by_fn.setdefault(m['emitted_as'], []).append(
                'body now uses operations the contract set has no meaning for: ' + ', '.join(opaque[:8]))
    res.lost_splices = lost_by_fn
    hint_lost = [f for f in res.failures if f['fn'] in lost_by_fn]
    if hint_lost:
        # the proof of these functions could not be replayed as written: not a verdict
        res.failures = [f for f in res.failures if f['fn'] not in lost_by_fn]
        res.hint_lost_failures = hint_lost
        if not res.failures:
            res.status = 'undecided'
            res.reason = 'proof hints could not be placed on the current code, obligations not discharged: ' + '; '.join(
                '%s (%s)' % (f['obligation'], ', '.join(lost_by_fn[f['fn']])[:200]) for f in hint_lost[:4])
            return res
    if res.failures or res.errors or not vr.get('success', False):
        if not res.failures:
            res.status = 'undecided'
            res.reason = 'verus reported failure without a parsable diagnostic: ' + p.stderr[-1500:]
        else:
            res.status = 'failed'
    if res.verified == 0 and res.status == 'ok':
        res.status = 'undecided'
        res.reason = 'vacuous: zero functions verified'
    return res


def _where(ex, d):
    for s in d.get('spans', []):
        if s.get('is_primary'):
            gl = s['line_start']
            if 0 < gl <= len(ex.out.origin):
                o = ex.out.origin[gl - 1]
                return '%s:%d' % (o[1], o[2])
    return '?'


# the messages with which Verus reports an obligation it could not discharge; every other error is
# a tool/translation problem and makes the unit undecided
VERIFICATION_FAILURE_MSG = (
    'postcondition not satisfied', 'precondition not satisfied', 'assertion failed', 'assertion not satisfied',
    'invariant not satisfied', 'loop invariant not', 'loop ensures not satisfied', 'ensures not satisfied',
    'possible arithmetic underflow/overflow', 'possible division by zero', 'possible bit shift underflow/overflow',
    'decreases not satisfied', 'could not prove termination', 'unreachable', 'cannot show invariant',
    'rlimit', 'resource limit', 'while loop: not all errors may have been reported', 'function body check: not all errors',
    'unable to prove assertion', 'requires not satisfied', 'index out of bounds', 'possible overflow', 'possible underflow',
)


def opaque_ops(gen_text, names):
    """Of the operation names new to a function body, those declared in the generated unit as an
    external_body stand-in WITHOUT any postcondition (their result is unconstrained for the proof).
    Constructors, functions under contract and vstd-specified functions are not opaque."""
    out = []
    for n in names:
        if n.endswith('!') or not n or n[0].isupper():
            continue
        for mm in re.finditer(r'\bfn\s+%s\b' % re.escape(n), gen_text):
            pre = gen_text[max(0, mm.start() - 300):mm.start()]
            j = gen_text.find('{', mm.end())
            k = gen_text.find(';', mm.end())
            end = j if j != -1 and (k == -1 or j < k) else k
            sig = gen_text[mm.end():end if end != -1 else mm.end() + 400]
            is_stub = 'external_body' in pre.split('}')[-1]
            if is_stub and not re.search(r'\b(ensures|returns)\b', sig):
                out.append(n)
                break
    return out


FN_RE = re.compile(r'\b(?:proof\s+|spec\s+|exec\s+)?fn\s+(\w+)')


def enclosing_fn(ex, gl):
    """Name of the function whose definition most closely precedes generated line gl."""
    for k in range(gl, 0, -1):
        l = ex.out.lines[k - 1]
        if '//' in l:
            l = l.split('//')[0]
        m = FN_RE.search(l)
        if m and not l.strip().startswith('assume_specification'):
            return m.group(1)
    return '?'
