"""Rewrite rules of unit catalog (C22); registered from vq/rewrites.py.

RC1  closure-body block: a closure passed as the last call argument whose body is
     a bare expression, `f(.., |args| EXPR)`, becomes `f(.., |args| { EXPR })`.
     A block holding one tail expression evaluates to that expression, so the
     executable meaning is unchanged.  Needed because a Verus closure can only
     carry a contract (`|args| -> (r: T) ensures .. { .. }`, spliced as ghost text
     after the `|args|` head) when its body is a block; without a contract the
     caller learns nothing about the closure's result (`Option::filter`,
     `Entry::or_insert_with`).
RC2  `name[i].to_owned()` on a `Name` -> `name.label(i).to_owned()`: the
     `Index<usize> for Name` impl cannot be given a precondition as a Verus trait
     impl; `name.label(i)` is the same function (same as R5, for the by-value
     method-call form where auto-ref takes the place of the explicit `&`).
"""
import re
from . import rustscan


def r_closure_block(text):
    """RC1: `f(.., |args| EXPR)` -> `f(.., |args| { EXPR })` (closure body wrapped in a block; same value)."""
    n = 0
    pos = 0
    while True:
        masked = rustscan.mask(text)
        # closure head directly after `(` or `,`: |...| with no `|` inside, not followed by `{` or `->`
        m = None
        for cand in re.finditer(r'([(,])(\s*)\|([^|()]*)\|(\s*)', masked):
            if cand.start() < pos:
                continue
            rest = masked[cand.end():]
            if rest.startswith('{') or rest.startswith('->'):
                continue
            m = cand
            break
        if m is None:
            break
        # find the `(` that encloses the closure
        k = m.start(1)
        if masked[k] == ',':
            depth = 0
            j = k - 1
            while j >= 0:
                if masked[j] in ')]}':
                    depth += 1
                elif masked[j] in '([{':
                    if depth == 0:
                        break
                    depth -= 1
                j -= 1
            open_idx = j
        else:
            open_idx = k
        if open_idx < 0 or masked[open_idx] != '(':
            pos = m.end()
            continue
        close_idx = rustscan.match_brace(masked, open_idx)
        body_start = m.end()
        body = masked[body_start:close_idx]
        # the closure must be the last argument: no top-level comma in its body
        depth = 0
        bad = False
        for ch in body:
            if ch in '([{':
                depth += 1
            elif ch in ')]}':
                depth -= 1
            elif ch == ',' and depth == 0:
                bad = True
                break
        if bad or not body.strip():
            pos = m.end()
            continue
        stripped_end = body_start + len(body.rstrip())
        text = text[:body_start] + '{ ' + text[body_start:stripped_end] + ' }' + text[stripped_end:]
        n += 1
        pos = body_start + 2
    return text, n


RULES = {
    'RC1': r_closure_block,
}

REGEX_RULES = {
    'RC2': (r'\b(\w+)\[([^\[\]]+)\]\.to_owned\(\)', r'\1.label(\2).to_owned()',
            'RC2: `name[i].to_owned()` (Index<usize> for Name, auto-ref) -> name.label(i).to_owned(): same function'),
}
