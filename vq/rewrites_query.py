"""Rewrite rules of the query units (C05), ids RQ*; all opt-in (`rules=+RQn`).

Same discipline as vq/rewrites.py / rewrites_zone.py: each rule matches one exact syntactic
form, copies the operative text through capture groups and only adds what Verus needs
(method renaming to a stand-in of the same function / eta-expansion / type ascription /
CHECKED ghost clauses).  If the source changes so that a regex no longer matches, the text
stays as it is and the enclosing proof fails to compile or verify (fail-safe).
"""

RULES = {}

REGEX_RULES = {
    # RQ1: the writer's Rdata stand-in (prelude/writer_rdata.rs) uses the name `octets` for the
    # GHOST view of an Rdata, and Verus does not allow an exec fn and a spec fn of one name on
    # one type.  `vq_octets` (prelude/query_writer.rs) is the exec accessor `Rdata::octets`
    # ("Returns the underlying octet slice") with `ensures r@ == self.octets()`.  Same kind of
    # rule as R5 (a method call renamed to the stand-in of the same function).
    'RQ1': (r'\b(rdata|soa_rdata)(\s*)\.(\s*)octets\(\)', r'\1\2.\3vq_octets()',
            'RQ1: `rdata.octets()` (Rdata::octets) -> `rdata.vq_octets()`: same function; the stand-in '
            'needs another name because `octets` is the ghost view of the writer units\' Rdata stand-in'),
    # RQ2: slice -> array conversion through `TryInto` (core::array::TryFromSliceError) is not
    # supported by Verus (cf. R2c, which covers the `.try_into().unwrap()` form).  Here the result
    # is consumed by `.or(..)`: `X.try_into().or(E)` -> `vq_slice_try_array(X).or(E)`; the shim's
    # spec is the std documentation ("Succeeds if slice.len() == N", copies the elements).
    'RQ2': (r'\b(\w+)\.try_into\(\)\.or\(', r'vq_slice_try_array(\1).or(',
            'RQ2: `SLICE.try_into().or(E)` (slice -> [u8; N]) -> `vq_slice_try_array(SLICE).or(E)`: prelude shim for '
            '`<[u8; N]>::try_from(&[u8])` (Ok exactly when the lengths agree, same octets); cf. R2c'),
    # RQ3: Verus "does not currently support closures capturing a mutable reference", and the two
    # call sites of `execute_allowing_truncation` pass `|| { add_additional_addresses(.., response) }`
    # with `response: &mut Writer` captured.  The closure body is hoisted in front of the call and the
    # closure handed over returns the value computed:
    #     execute_allowing_truncation(|| { CALL })
    #  -> execute_allowing_truncation({ let vq_fr = CALL; move || -> (vq_r: T) ensures vq_r == vq_fr { vq_fr } })
    # This is the same computation PROVIDED `execute_allowing_truncation` invokes its `FnOnce` argument
    # exactly once and does nothing observable before that -- which is what its three-line body does
    # (`match f() { .. }`, src/server/query.rs).  That proviso is tied to the source by an anchor: the
    # contract of `execute_allowing_truncation` (units/frag/query_helper_fns.vrs) carries a splice
    # anchored at `match f()`, so a body that no longer starts by calling `f` makes the helper unit
    # UNDECIDED (lost anchor) instead of silently keeping this rule valid.  The callers are still
    # verified against the CONTRACT of the real `execute_allowing_truncation` (the call stays); the
    # `ensures` of the new closure is checked by Verus against its one-variable body.
    'RQ3': (r'execute_allowing_truncation\(\|\|\s*\{\s*(add_additional_addresses\([^()]*\))\s*\}\)',
            r'execute_allowing_truncation({ let vq_fr = \1; move || -> (vq_r: writer::Result<()>) ensures vq_r == vq_fr { vq_fr } })',
            'RQ3: `execute_allowing_truncation(|| { CALL })` -> `execute_allowing_truncation({ let vq_fr = CALL; move || { vq_fr } })` '
            '(closure body hoisted: Verus has no closures capturing `&mut`; same computation because the callee invokes its '
            'FnOnce argument exactly once, first thing -- tied to the source by the `match f()` anchor in its contract)'),
    # RQ4: closure annotation (cf. ZN2-ZN4, ZF2) for the parser closure of follow_cname_1,
    # `|rdata| Name::try_from_uncompressed_all(rdata.octets())`.  An un-annotated closure has no
    # postcondition in Verus.  The body is copied through the capture group (RQ1 then renames the
    # accessor); parameter / return types and an `ensures` are added, and the `ensures` is CHECKED by
    # Verus against the unchanged body (it is the contract of Name::try_from_uncompressed_all).
    'RQ4': (r'\|(\w+)\|\s*(Name::try_from_uncompressed_all\(\1\.octets\(\)\))',
            r'|\1: &Rdata| -> (res: core::result::Result<Box<Name>, crate::name::Error>) '
            r'ensures (ulen(Rdata::octets(\1)) == Some(Rdata::octets(\1).len() as int) ==> res is Ok && res->Ok_0.wire() == Rdata::octets(\1) && res->Ok_0.wf()), '
            r'(ulen(Rdata::octets(\1)) != Some(Rdata::octets(\1).len() as int) ==> res is Err) '
            r'{ Name::try_from_uncompressed_all(\1.vq_octets()) }',
            'RQ4: closure annotation for `|rdata| Name::try_from_uncompressed_all(rdata.octets())`: adds parameter/return '
            'types and a checked ghost `ensures` (the callee\'s contract); the executable body is unchanged (accessor renamed as by RQ1)'),
}
