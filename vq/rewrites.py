"""The closed table of textual rewrites the extractor may apply to executable
text copied from /repo (DESIGN.md section 2.3).  Every rule has an id and a
justification; the extractor records which rules fired for which function and
the evidence file lists them.  Nothing else ever changes extracted code.

A rule is a function  text -> (new_text, n_fired).  Rules work on
comment-stripped text (string literals intact).
"""
import re
from . import rustscan


def _macro_calls(text, name):
    """Yield (start, end, args_text) for each `name!( ... )` / `name![...]`."""
    masked = rustscan.mask(text)
    res = []
    for m in re.finditer(r'\b' + re.escape(name) + r'!\s*([(\[{])', masked):
        o = m.end() - 1
        c = rustscan.match_brace(masked, o)
        res.append((m.start(), c + 1, text[o + 1:c]))
    return res


def _split_top_commas(args):
    masked = rustscan.mask(args)
    parts, depth, last = [], 0, 0
    for i, ch in enumerate(masked):
        if ch in '([{':
            depth += 1
        elif ch in ')]}':
            depth -= 1
        elif ch == ',' and depth == 0:
            parts.append(args[last:i])
            last = i + 1
    parts.append(args[last:])
    return [p for p in parts]


def _replace_spans(text, spans):
    """spans: list of (start, end, replacement), non-overlapping."""
    out, last = [], 0
    for (s, e, r) in sorted(spans):
        if s < last:
            continue  # nested; handled on the next pass
        # keep line count identical: pad replacement with the newlines removed
        nl = text.count('\n', s, e) - r.count('\n')
        out.append(text[last:s])
        out.append(r + ('\n' * max(nl, 0)))
        last = e
    out.append(text[last:])
    return ''.join(out)


def r_panic(text):
    """R3a: panic!(..)/unreachable!(..)/unimplemented!() -> vq_unreachable()
    (prelude fn with `requires false`): every explicit panic site becomes an
    obligation that it is unreachable."""
    n = 0
    for name in ('panic', 'unreachable', 'unimplemented', 'todo'):
        while True:
            calls = _macro_calls(text, name)
            if not calls:
                break
            s, e, _ = calls[0]
            text = _replace_spans(text, [(s, e, 'vq_unreachable()')])
            n += 1
    return text, n


def r_assert(text):
    """R3b: assert!(c[, msg]) -> vq_require(c); assert_eq!(a,b) ->
    vq_require(a == b); assert_ne!(a,b) -> vq_require(a != b); debug_assert*
    likewise (prelude fn `requires c`): a run-time assertion failure is a panic,
    so it must be proved never to fire."""
    n = 0
    for name, op in (('debug_assert_eq', '=='), ('debug_assert_ne', '!='), ('debug_assert', None),
                     ('assert_eq', '=='), ('assert_ne', '!='), ('assert', None)):
        while True:
            calls = [c for c in _macro_calls(text, name)
                     if not (c[0] > 0 and (text[c[0] - 1].isalnum() or text[c[0] - 1] == '_'))]
            if not calls:
                break
            s, e, args = calls[0]
            parts = _split_top_commas(args)
            if op is None:
                rep = 'vq_require(%s)' % parts[0].strip()
            else:
                rep = 'vq_require((%s) %s (%s))' % (parts[0].strip(), op, parts[1].strip())
            text = _replace_spans(text, [(s, e, rep)])
            n += 1
    return text, n


def r_expect(text):
    """R3c: .expect("..") -> .unwrap()  (same panic condition, message dropped)."""
    masked = rustscan.mask(text)
    spans = []
    for m in re.finditer(r'\.\s*expect\s*\(', masked):
        o = m.end() - 1
        c = rustscan.match_brace(masked, o)
        spans.append((m.start(), c + 1, '.unwrap()'))
    return _replace_spans(text, spans), len(spans)


def r_matches(text):
    """R4: matches!(e, P) -> (match e { P => true, _ => false })  (definition
    of the macro)."""
    n = 0
    while True:
        calls = _macro_calls(text, 'matches')
        if not calls:
            break
        s, e, args = calls[0]
        parts = _split_top_commas(args)
        rep = '(match %s { %s => true, _ => false })' % (parts[0].strip(), ','.join(parts[1:]).strip())
        text = _replace_spans(text, [(s, e, rep)])
        n += 1
    return text, n


def r_be_bytes(text):
    """R2: uN::from_be_bytes(X) -> beN_from(X); X.to_be_bytes() stays a method
    call on the shim trait-free helpers `be16_to(X)` only where the receiver is
    a simple path or a parenthesised expression.  The std signature is
    const-generic and cannot be given an assume_specification; the shim's spec
    is the big-endian definition."""
    n = 0
    for bits in ('16', '32', '64'):
        text, k = re.subn(r'\bu' + bits + r'::from_be_bytes\s*\(', 'be' + bits + '_from(', text)
        n += k
    # receiver forms: ident(.ident)* | (expr)
    masked = rustscan.mask(text)
    spans = []
    for m in re.finditer(r'\.\s*to_be_bytes\s*\(\s*\)', masked):
        # walk back to find receiver
        k = m.start() - 1
        while k >= 0 and masked[k].isspace():
            k -= 1
        if k >= 0 and masked[k] == ')':
            # find matching open
            depth = 0
            j = k
            while j >= 0:
                if masked[j] == ')':
                    depth += 1
                elif masked[j] == '(':
                    depth -= 1
                    if depth == 0:
                        break
                j -= 1
            # include preceding path (a call like foo.bar(..)) -- take ident chars and dots
            q = j - 1
            while q >= 0 and (masked[q].isalnum() or masked[q] in '_.:'):
                q -= 1
            recv_start = q + 1
        else:
            q = k
            while q >= 0 and (masked[q].isalnum() or masked[q] in '_.'):
                q -= 1
            recv_start = q + 1
        recv = text[recv_start:m.start()]
        spans.append((recv_start, m.end(), 'be_to(%s)' % recv.strip()))
    if spans:
        text = _replace_spans(text, spans)
        n += len(spans)
    return text, n


def r_log(text):
    """R7a: drop logging statements (log crate macros debug!/info!/warn!/error!/trace!):
    no effect on returned values or state."""
    n = 0
    for name in ('debug', 'info', 'warn', 'error', 'trace'):
        while True:
            calls = [c for c in _macro_calls(text, name)
                     if not (c[0] > 0 and (text[c[0] - 1].isalnum() or text[c[0] - 1] in '_:'))]
            if not calls:
                break
            s, e, _ = calls[0]
            # swallow trailing semicolon
            k = e
            while k < len(text) and text[k] in ' \t':
                k += 1
            if k < len(text) and text[k] == ';':
                e = k + 1
            text = _replace_spans(text, [(s, e, '')])
            n += 1
    return text, n


def r_slice_to_array(text):
    """R2c (opt-in): RECV.try_into().unwrap() on a slice -> vq_slice_to_array(&RECV).
    Slice-to-array TryInto (TryFromSliceError) is not supported by Verus; the
    shim `requires s.len() == N` (the unwrap panics exactly otherwise) and
    ensures the array has the slice's octets."""
    n = 0
    while True:
        masked = rustscan.mask(text)
        m = re.search(r'\.\s*try_into\s*\(\s*\)\s*\.\s*unwrap\s*\(\s*\)', masked)
        if not m:
            break
        # receiver: scan back to the start of the postfix expression
        k = m.start() - 1
        depth = 0
        while k >= 0:
            ch = masked[k]
            if ch in ')]}':
                depth += 1
            elif ch in '([{':
                if depth == 0:
                    break
                depth -= 1
            elif depth == 0 and (ch in ',;=' or (ch == '>' and masked[k - 1] == '=')):
                break
            k -= 1
        recv_start = k + 1
        recv = text[recv_start:m.start()]
        lead = len(recv) - len(recv.lstrip())
        rep = recv[:lead] + 'vq_slice_to_array(&' + recv.strip() + ')'
        text = _replace_spans(text, [(recv_start, m.end(), rep)])
        n += 1
    return text, n


def _receiver_start(masked, dot_idx):
    """Start index of the postfix-expression receiver ending just before masked[dot_idx] == '.'"""
    k = dot_idx - 1
    depth = 0
    while k >= 0:
        ch = masked[k]
        if ch in ')]}':
            depth += 1
        elif ch in '([{':
            if depth == 0:
                break
            depth -= 1
        elif depth == 0 and (ch in ',;=' or (ch == '>' and masked[k - 1] == '=')):
            break
        k -= 1
    return k + 1


def r_map_first(text):
    """R11 (opt-in): `RECV.map(|(x, _)| x)` on a Result -> `vq_map_first(RECV)`.
    Verus accepts only variables as closure parameters and gives an
    unannotated closure no postcondition; `vq_map_first` is a VERIFIED prelude
    function whose body is the definition of Result::map applied to the first
    projection (match r { Ok(p) => Ok(p.0), Err(e) => Err(e) })."""
    n = 0
    while True:
        masked = rustscan.mask(text)
        m = re.search(r'\.\s*map\s*\(\s*\|\s*\(\s*(\w+)\s*,\s*_\s*\)\s*\|\s*\1\s*\)', masked)
        if not m:
            break
        rs = _receiver_start(masked, m.start())
        recv = text[rs:m.start()]
        lead = len(recv) - len(recv.lstrip())
        rep = recv[:lead] + 'vq_map_first(' + recv.strip() + ')'
        text = _replace_spans(text, [(rs, m.end(), rep)])
        n += 1
    return text, n


def r_eta_variant(text):
    """R10 (opt-in): `.map_err(Path::Variant)` -> `.map_err(|e| Path::Variant(e))`
    (eta-expansion; Verus does not accept a datatype constructor as a function value)."""
    return re.subn(r'\.map_err\(\s*((?:\w+::)+[A-Z]\w*)\s*\)', r'.map_err(|e| \1(e))', text)


def r_const_fn(text):
    """R1b (signature only): drop `const` from `const fn` (Verus exec fns need
    not be const; constness is not behaviour)."""
    return text, 0


RULES = {
    'R2': r_be_bytes,
    'R3a': r_panic,
    'R3b': r_assert,
    'R3c': r_expect,
    'R4': r_matches,
    'R7a': r_log,
    'R2c': r_slice_to_array,
    'R10': r_eta_variant,
    'R11': r_map_first,
}

# Parametrised rules (id -> (regex, replacement, doc)); selected per unit with
# `//@rewrite <id>`; kept here so that the table stays closed and reviewable.
REGEX_RULES = {
    # R5: Name's Index<usize> impl cannot be expressed as a Verus trait impl
    # with requires; `&name[i]` on a Name is the same function as name.label(i).
    'R5': (r'&(\w+)\[([^\[\]]+)\]', r'\1.label(\2)',
           'R5: `&name[i]` (Index<usize> for Name) -> name.label(i): same function'),
}

# rules of units thread_pool / zones_reload (RT*, RZ*) live in vq/rewrites_tz.py
from . import rewrites_tz as _tz  # noqa: E402
RULES.update(_tz.RULES)
REGEX_RULES.update(_tz.REGEX_RULES)

# rules of unit rdata (RD*) live in vq/rewrites_rdata.py
from . import rewrites_rdata as _rd  # noqa: E402
RULES.update(_rd.RULES)
REGEX_RULES.update(_rd.REGEX_RULES)

# rules of unit rrl (RL*) live in vq/rewrites_rrl.py
from . import rewrites_rrl as _rl  # noqa: E402
RULES.update(_rl.RULES)
REGEX_RULES.update(_rl.REGEX_RULES)

# rules of unit rdata_set (RS*) live in vq/rewrites_rdata_set.py
from . import rewrites_rdata_set as _rs  # noqa: E402
RULES.update(_rs.RULES)
REGEX_RULES.update(_rs.REGEX_RULES)

DEFAULT_RULES = ['R3a', 'R3b', 'R3c', 'R4', 'R2', 'R7a']


def apply(text, rule_ids):
    fired = {}
    for rid in rule_ids:
        if rid in RULES:
            text, n = RULES[rid](text)
        elif rid in REGEX_RULES:
            rx, rep, _ = REGEX_RULES[rid]
            text, n = re.subn(rx, rep, text)
        else:
            raise KeyError('unknown rewrite rule ' + rid)
        if n:
            fired[rid] = fired.get(rid, 0) + n
    return text, fired


EXTRA_DOC = {
    'R12': 'R12: by-value `mut self` parameter -> `self` plus `let mut vq_self = self;` with the body using vq_self '
           '(Verus does not support `mut self`; this is the definition of a mutable by-value binding)',
}


def describe(rid):
    if rid in EXTRA_DOC:
        return EXTRA_DOC[rid]
    if rid in RULES:
        return ' '.join((RULES[rid].__doc__ or '').split())
    if rid in REGEX_RULES:
        return REGEX_RULES[rid][2]
    return rid

# rules of unit zone (ZN*) live in vq/rewrites_zone.py
from . import rewrites_zone as _zn  # noqa: E402
RULES.update(_zn.RULES)
REGEX_RULES.update(_zn.REGEX_RULES)

# rules of unit catalog (RC*) live in vq/rewrites_catalog.py
from . import rewrites_catalog as _rc  # noqa: E402
RULES.update(_rc.RULES)
REGEX_RULES.update(_rc.REGEX_RULES)

# rules of the writer units (RW*) live in vq/rewrites_writer.py
from . import rewrites_writer as _rw  # noqa: E402
RULES.update(_rw.RULES)
REGEX_RULES.update(_rw.REGEX_RULES)

# rules of units name_builder / name_text (NB*) live in vq/rewrites_names.py
from . import rewrites_names as _nb  # noqa: E402
RULES.update(_nb.RULES)
REGEX_RULES.update(_nb.REGEX_RULES)

# rules of units tsig / tsig_rdata (TS*) live in vq/rewrites_tsig.py
from . import rewrites_tsig as _ts  # noqa: E402
RULES.update(_ts.RULES)
REGEX_RULES.update(_ts.REGEX_RULES)

# rules of unit zone_file_records (ZF*) live in vq/rewrites_zone_file.py
from . import rewrites_zone_file as _zf  # noqa: E402
RULES.update(_zf.RULES)
REGEX_RULES.update(_zf.REGEX_RULES)

# rules of the query units (RQ*) live in vq/rewrites_query.py
from . import rewrites_query as _rq  # noqa: E402
RULES.update(_rq.RULES)
REGEX_RULES.update(_rq.REGEX_RULES)

# rules of unit name_core (NC*) live in vq/rewrites_namecore.py
from . import rewrites_namecore as _nc  # noqa: E402
RULES.update(_nc.RULES)
REGEX_RULES.update(_nc.REGEX_RULES)
