"""Rewrite rules added for units tsig / tsig_rdata (C11, C10).  Registered into
vq.rewrites.RULES (opt-in: `rules=+TSn` on a //@fn line).  Same discipline as
vq/rewrites.py: every rule has an id and a justification; the extractor records
which rules fired.
"""
import re


_SIMPLE = {'n': 10, 'r': 13, 't': 9, '\\': 92, '0': 0, "'": 39, '"': 34}


def _decode_byte_string(body):
    """Octets of the body of a Rust byte-string literal (between the quotes)."""
    out = []
    i = 0
    while i < len(body):
        ch = body[i]
        if ch == '\\':
            nx = body[i + 1]
            if nx == 'x':
                out.append(int(body[i + 2:i + 4], 16))
                i += 4
            elif nx == '\n':
                # line continuation: skip the newline and leading whitespace
                i += 2
                while i < len(body) and body[i] in ' \t\n\r':
                    i += 1
            elif nx in _SIMPLE:
                out.append(_SIMPLE[nx])
                i += 2
            else:
                raise ValueError('unknown escape in byte string: \\' + nx)
        else:
            if ord(ch) > 127:
                raise ValueError('non-ASCII character in byte string')
            out.append(ord(ch))
            i += 1
    return out


def r_byte_string(text):
    """TS1 (opt-in): a byte-string literal `b"..."` -> the array literal
    `&[0x..u8, ...]` with the same octets.  By the Rust reference a byte-string
    literal of n octets IS a `&'static [u8; n]` holding those octets; Verus knows
    the length of such a literal but not its contents, whereas it knows both for
    an array literal.  Only the notation changes."""
    n = 0
    out = []
    last = 0
    for m in re.finditer(r'(?<![A-Za-z0-9_])b"((?:[^"\\]|\\.|\\\n)*)"', text, flags=re.S):
        octets = _decode_byte_string(m.group(1))
        rep = '&[' + ', '.join('0x%02xu8' % o for o in octets) + ']'
        rep += '\n' * m.group(0).count('\n')
        out.append(text[last:m.start()])
        out.append(rep)
        last = m.end()
        n += 1
    out.append(text[last:])
    return ''.join(out), n


RULES = {
    'TS1': r_byte_string,
}

REGEX_RULES = {
}
