"""Rewrite rules added for units tsig / tsig_rdata (C11, C10).  Registered into
vq.rewrites.RULES (opt-in: `rules=+TSn` on a //@fn line).  Same discipline as
vq/rewrites.py: every rule has an id and a justification; the extractor records
which rules fired.
"""
import re


_SIMPLE = {'n': 10, 'r': 13, 't': 9, '\\': 92, '0': 0, "'": 39, '"': 34}


def _decode_byte_string(body):
    """Octets of the body of a Rust byte-string literal (between the quotes)."""
    out = []
    i = 0
    while i < len(body):
        ch = body[i]
        if ch == '\\':
            nx = body[i + 1]
            if nx == 'x':
                out.append(int(body[i + 2:i + 4], 16))
                i += 4
            elif nx == '\n':
                # line continuation: skip the newline and leading whitespace
                i += 2
                while i < len(body) and body[i] in ' \t\n\r':
                    i += 1
            elif nx in _SIMPLE:
                out.append(_SIMPLE[nx])
                i += 2
            else:
                raise ValueError('unknown escape in byte string: \\' + nx)
        else:
            if ord(ch) > 127:
                raise ValueError('non-ASCII character in byte string')
            out.append(ord(ch))
            i += 1
    return out


def r_byte_string(text):
    """TS1 (opt-in): a byte-string literal `b"..."` -> the array literal
    `&[0x..u8, ...]` with the same octets.  By the Rust reference a byte-string
    literal of n octets IS a `&'static [u8; n]` holding those octets; Verus knows
    the length of such a literal but not its contents, whereas it knows both for
    an array literal.  Only the notation changes."""
    n = 0
    out = []
    last = 0
    for m in re.finditer(r'(?<![A-Za-z0-9_])b"((?:[^"\\]|\\.|\\\n)*)"', text, flags=re.S):
        octets = _decode_byte_string(m.group(1))
        rep = '&[' + ', '.join('0x%02xu8' % o for o in octets) + ']'
        rep += '\n' * m.group(0).count('\n')
        out.append(text[last:m.start()])
        out.append(rep)
        last = m.end()
        n += 1
    out.append(text[last:])
    return ''.join(out), n


def r_closure_tuple_param(text):
    """TS2 (opt-in): a closure whose single parameter is a tuple pattern,
    `|(a, b)| BODY` (as an argument of a call), -> `|vq_p| { let (a, b) = vq_p; BODY }`.
    Verus accepts only variables as closure parameters.  A closure parameter
    pattern is, by the Rust reference, matched against the argument exactly as an
    irrefutable `let` pattern is (same default binding modes), so the two forms
    bind the same names to the same values."""
    from . import rustscan
    n = 0
    while True:
        masked = rustscan.mask(text)
        m = re.search(r'(?<=[(,\s])\|\s*(\((?:[^()|]|\([^()]*\))*\))\s*\|', masked)
        if not m:
            break
        pat = text[m.start(1):m.end(1)]
        # body: up to the `)` / `,` that closes the enclosing argument at depth 0
        k = m.end()
        depth = 0
        while k < len(masked):
            ch = masked[k]
            if ch in '([{':
                depth += 1
            elif ch in ')]}':
                if depth == 0:
                    break
                depth -= 1
            elif ch == ',' and depth == 0:
                break
            k += 1
        body = text[m.end():k]
        rep = '|vq_p| { let %s = vq_p; %s }' % (pat, body.strip())
        rep += '\n' * (text[m.start():k].count('\n'))
        text = text[:m.start()] + rep + text[k:]
        n += 1
    return text, n


RULES = {
    'TS1': r_byte_string,
    'TS2': r_closure_tuple_param,
}

REGEX_RULES = {
}
