"""Rewrite rules of unit rrl (RL*).  Same contract as vq/rewrites.py: each rule
has an id and a justification and is opt-in per //@fn or //@item (rules=+ID)."""

RULES = {}

REGEX_RULES = {
    # RL2: DESIGN.md R8 `x.iter().all(|o| *o == 0)` -> prelude fn vq_all_zero(&x)
    # whose spec is the adaptor's definition (forall i. x[i] == 0).  Verus has no
    # iterator-adaptor/closure support.  The receiver is an indexed place
    # (`octets[0..10]`).
    'RL2': (r'\b(\w+\[[^\[\]]+\])\s*\.iter\(\)\s*\.all\(\s*\|(\w+)\|\s*\*\2\s*==\s*0\s*\)', r'vq_all_zero(&\1)',
            'RL2 (R8): `x[a..b].iter().all(|o| *o == 0)` -> vq_all_zero(&x[a..b]): definition of Iterator::all'),
}
