"""Run Kani harnesses (compiled inside the real crate through the cfg(kani)
hook) on a scratch copy of /repo's working tree, and replay counterexamples
with `cargo kani playback` against the real code."""
import os
import re
import shutil
import subprocess
import time

VERIF = os.path.dirname(os.path.dirname(os.path.abspath(__file__)))
REPO = os.environ.get('VQ_REPO', '/repo')
SCRATCH_ROOT = os.environ.get('VQ_SCRATCH', '/var/tmp')
TARGET_DIR = os.environ.get('VQ_KANI_TARGET', os.path.join(VERIF, '.work', 'kani-target'))

HOOK_LINE = '#[path = "/verif/kani/lib.rs"]'


class KaniError(Exception):
    pass


class Scratch:
    def __init__(self, tag):
        self.dir = os.path.join(SCRATCH_ROOT, 'vq-%s-%d' % (tag, os.getpid()))
        self.repo = os.path.join(self.dir, 'repo')

    def __enter__(self):
        shutil.rmtree(self.dir, ignore_errors=True)
        os.makedirs(self.dir)
        subprocess.run(['rsync', '-a', '--exclude', 'target', '--exclude', '.git', REPO + '/', self.repo + '/'],
                       check=True)
        # cargo fingerprints sources by mtime and the target dir is shared between runs:
        # give every source file a fresh mtime so the crate is always rebuilt from THIS tree
        now = time.time()
        for root, _, files in os.walk(os.path.join(self.repo, 'src')):
            for fn in files:
                os.utime(os.path.join(root, fn), (now, now))
        lib = os.path.join(self.repo, 'src', 'lib.rs')
        with open(lib) as f:
            t = f.read()
        if HOOK_LINE not in t:
            raise KaniError('cfg(kani) hook missing from src/lib.rs (lost anchor)')
        cfgdir = os.path.join(self.repo, '.cargo')
        os.makedirs(cfgdir, exist_ok=True)
        with open(os.path.join(cfgdir, 'config.toml'), 'a') as f:
            f.write('\n[net]\noffline = true\n')
        return self

    def __exit__(self, *a):
        shutil.rmtree(self.dir, ignore_errors=True)


def _env():
    e = dict(os.environ)
    e['CARGO_NET_OFFLINE'] = 'true'
    e['CARGO_TARGET_DIR'] = TARGET_DIR
    e.pop('RUSTUP_TOOLCHAIN', None)
    return e


class HarnessResult:
    def __init__(self, name):
        self.name = name
        self.status = 'unknown'     # success | failed | undecided
        self.failed_checks = []
        self.playback_test = None   # rust source of the generated unit test
        self.time_s = 0.0
        self.checks = 0
        self.log = ''


def run_harnesses(scratch, harnesses, unwind=None, timeout=1800, jobs=None, playback=True, extra=()):
    """Run the named harnesses in one cargo-kani invocation. Returns dict name -> HarnessResult."""
    cmd = ['cargo', 'kani', '--no-default-features', '--lib',
           '-Z', 'function-contracts', '-Z', 'stubbing']
    if playback:
        cmd += ['-Z', 'concrete-playback', '--concrete-playback=print']
    if jobs and len(harnesses) > 1:
        cmd += ['-j', str(jobs), '--output-format=terse'] if not playback else []
    for h in harnesses:
        cmd += ['--harness', h]
    cmd += ['--exact'] if False else []
    cmd += list(extra)
    t0 = time.time()
    try:
        p = subprocess.run(cmd, cwd=scratch.repo, env=_env(), capture_output=True, text=True, timeout=timeout)
    except subprocess.TimeoutExpired as e:
        res = {}
        for h in harnesses:
            r = HarnessResult(h)
            r.status = 'undecided'
            r.log = 'timeout after %ds' % timeout
            res[h] = r
        return res, ' '.join(cmd), 'timeout'
    out = p.stdout + '\n' + p.stderr
    res = parse_output(out, harnesses)
    wall = time.time() - t0
    for h in harnesses:
        if h not in res:
            r = HarnessResult(h)
            r.status = 'undecided'
            r.log = 'harness not found in Kani output (compile error?)\n' + out[-3000:]
            res[h] = r
    return res, ' '.join(cmd), out


def parse_output(out, harnesses):
    res = {}
    # split per harness
    parts = re.split(r'(?m)^Checking harness ([\w:]+)\.\.\.', out)
    # parts = [pre, name1, body1, name2, body2, ...]
    for k in range(1, len(parts), 2):
        full = parts[k]
        body = parts[k + 1]
        short = full.split('::')[-1]
        r = HarnessResult(short)
        r.log = body[-6000:]
        m = re.search(r'VERIFICATION:- (SUCCESSFUL|FAILED)', body)
        if m:
            r.status = 'success' if m.group(1) == 'SUCCESSFUL' else 'failed'
        else:
            r.status = 'undecided'
        mt = re.search(r'Verification Time: ([0-9.]+)s', body)
        if mt:
            r.time_s = float(mt.group(1))
        mc = re.search(r'\*\* (\d+) of (\d+) failed', body)
        if mc:
            r.checks = int(mc.group(2))
        r.failed_checks = re.findall(r'(?m)^Failed Checks: (.*)$', body)
        if 'CBMC failed' in body or 'out of memory' in body or 'CBMC timed out' in body:
            r.status = 'undecided'
        # unwinding assertion failures / unsupported constructs mean "undecided", not a violation
        if r.status == 'failed' and r.failed_checks and all(
                ('unwinding assertion' in c or 'is not currently supported' in c or 'unsupported' in c.lower())
                for c in r.failed_checks):
            r.status = 'undecided'
        mp = re.search(r'```\n(.*?)```', body, re.S)
        if mp:
            r.playback_test = mp.group(1)
        res[short] = r
    return res


def playback(scratch, harness_module_path, test_src, timeout=900):
    """Write the generated concrete-playback test into the scratch copy and run
    it natively against the real code.  Returns (reproduced: bool, output)."""
    modfile = os.path.join(scratch.repo, 'src', 'verif_replay.rs')
    with open(modfile, 'w') as f:
        f.write('#![allow(unused_imports)]\nuse crate::verif_kani::%s::*;\n' % harness_module_path)
        f.write(test_src)
    lib = os.path.join(scratch.repo, 'src', 'lib.rs')
    with open(lib) as f:
        t = f.read()
    if 'mod verif_replay;' not in t:
        with open(lib, 'a') as f:
            f.write('\n#[cfg(kani)]\nmod verif_replay;\n')
    cmd = ['cargo', 'kani', 'playback', '-Z', 'concrete-playback', '--no-default-features', '--lib',
           '--', 'kani_concrete_playback']
    try:
        p = subprocess.run(cmd, cwd=scratch.repo, env=_env(), capture_output=True, text=True, timeout=timeout)
    except subprocess.TimeoutExpired:
        return None, 'playback timeout'
    out = p.stdout + '\n' + p.stderr
    keep = '\n'.join(l for l in out.splitlines() if not l.startswith(('warning', '  ', '   ', ' -->')) and l.strip())
    if re.search(r'test result: FAILED', out):
        return True, keep[-3000:]
    if re.search(r'test result: ok', out):
        return False, keep[-3000:]
    return None, keep[-3000:]
