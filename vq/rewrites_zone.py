"""Rewrite rules of unit zone (C06/C20), ids ZN*; all opt-in (`rules=+ZNn`).

Same discipline as vq/rewrites.py.  ZN2-ZN5 are *closure annotation* rules:
Verus gives an un-annotated closure no postcondition at all, and a closure
cannot be annotated through //@before///@after splices (the `-> (r: T) ensures
.. { body }` form needs braces around the body).  Each rule therefore matches
one exact closure of the source, copies its body through a capture group and
only adds parameter/return type ascriptions and ghost `requires`/`ensures`
clauses.  The clauses are CHECKED by Verus against the (unchanged) closure
body, so nothing is assumed.  If the source closure changes, the regex no longer
matches, the closure stays un-annotated and the enclosing proof fails (fail-safe).
"""

RULES = {}

REGEX_RULES = {
    'ZN1': (r'\b(\w+)\[([^\[\]]+)\]\.to_owned\(\)', r'\1.label(\2).to_owned()',
            'ZN1: `name[i].to_owned()` (Index<usize> for Name, then ToOwned for Label) -> '
            '`name.label(i).to_owned()`: R5 without the leading `&` (same function; the stand-in '
            '`label` requires i < len because the real index panics)'),
    'ZN2': (r'\|(\w+)\|\s*(\1\.rr_type)\b',
            r'|\1: &Rrset| -> (k: Type) ensures k == \2 { \2 }',
            'ZN2: closure annotation for the binary-search key `|r| r.rr_type`: adds types and a '
            'checked ghost `ensures k == r.rr_type`; body unchanged'),
    'ZN3': (r'\|(\w+)\|\s*(&self\.rrsets\[\1\])',
            r'|\1: usize| -> (x: &Rrset) requires \1 < self.rrsets@.len() ensures *x == self.rrsets@[\1 as int] { \2 }',
            'ZN3: closure annotation for `|index| &self.rrsets[index]`: adds types, the ghost '
            '`requires index < len` (discharged at the call through Result::map) and a checked '
            '`ensures`; body unchanged'),
    'ZN4': (r'\|\|\s*(Self::new\(name\.superdomain\(level - 1\)\.unwrap\(\)\))',
            r'|| -> (n: Self) ensures fresh_node(n, name.labels(), (level - 1) as int) { \1 }',
            'ZN4: closure annotation for the `or_insert_with` argument in get_or_create_descendant: '
            'adds the return type and a checked ghost `ensures`; body unchanged'),
    'ZN5': (r'\.map\(\s*Cow::Borrowed\s*\)',
            r".map(|x: &Name| -> (c: Cow<'_, Name>) ensures c == Cow::<'_, Name>::Borrowed(x) { Cow::Borrowed(x) })",
            'ZN5: `.map(Cow::Borrowed)` -> eta-expanded annotated closure (Verus does not accept a '
            'datatype constructor as a function value; same as R10 plus a checked `ensures`)'),
    'ZN6': (r"Box<\s*dyn\s+RrsetIterator<'a>\s*\+\s*'a\s*>", "RrsetIterBox<'a>",
            "ZN6 (item LookupAllResult): `Box<dyn RrsetIterator<'a> + 'a>` -> prelude stand-in type `RrsetIterBox<'a>` "
            '(Verus rejects `dyn` of a trait with Iterator + Debug supertraits); the stand-in is opaque and only '
            'exposes, as a ghost view, the sequence of RRsets the boxed iterator will yield'),
    'ZN7': (r'Box::new\(\s*data\.rrsets\.iter\(\)\.map\(\s*IteratedRrset::from\s*\)\s*\)', 'zn_boxed_rrsets(&data.rrsets)',
            'ZN7 (lookup_all only): `Box::new(data.rrsets.iter().map(IteratedRrset::from))` -> prelude fn '
            '`zn_boxed_rrsets(&data.rrsets)`: iterator adaptors and the unsizing to `dyn` are outside Verus; the '
            'stand-in states what `slice::Iter` + `Iterator::map` are documented to do (yield `IteratedRrset::from` of '
            'each RRset of the list, in order).  Nothing about the control flow of lookup_all changes.'),
}
