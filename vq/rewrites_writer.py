"""Rewrite rules of the writer units (RW*).  Same contract as vq/rewrites.py: each
rule has an id and a justification and is opt-in per //@fn or //@item (rules=+ID)."""

RULES = {}

REGEX_RULES = {
    # RW1: a closure whose body is a single call expression, passed to `.map(`, gets
    # braces: `.map(|x| F(a, b))` -> `.map(|x| { F(a, b) })`.  `|x| E` and `|x| { E }`
    # are the same closure; Rust's grammar requires the block form once a return
    # type is written, and Verus can only attach an `ensures` to a closure that
    # has one (the contract is spliced after `|x|` as ghost text).
    'RW1': (r'\.map\(\|(\w+)\|\s+((?:\w+::)*\w+\([\w\s,]*\))\)', r'.map(|\1| { \2 })',
            'RW1: `.map(|x| F(..))` -> `.map(|x| { F(..) })` (block form of the same closure, needed to attach a closure contract)'),
}
