"""Rewrite rules of unit name_core (C16: accessor layer of src/name/{mod,label,lowercase}.rs);
registered from vq/rewrites.py.  All rules are opt-in (`rules=+NCx` on the //@fn line).

Why they exist: `Labels` is not an `Iterator` in the unit (its `next`/`next_back` need the
representation invariant as a precondition, which a trait method cannot carry), and Verus
has no specifications for the std iterator adaptors `rev`, `zip`, `all`, `find_map`, `map`,
`collect`, nor for closures without annotations.  The rules below replace an adaptor
chain by a call of a helper function that is VERIFIED in the unit (units/frag/name_core_helpers.vrs,
not trusted) and whose body is the definition of the adaptors in core::iter, and bring
closures into a normal form that can carry a Verus-checked `requires`/`ensures`.
The closure bodies themselves stay the text of /repo.

NC1  closure normal form.  A closure `|PARAMS| EXPR` that is a call argument becomes
         `|p| -> (vq_rK: T) { let PARAMS = p; EXPR }`
     (K = 1, 2, .. in textual order of the opening `|`; for a single plain identifier or an
     empty parameter list the parameter list is kept and there is no `let`).  A closure
     parameter pattern must be irrefutable, so binding the argument to a fresh name and
     destructuring it with `let` as the first statement is the same function.  T, the
     ascribed return type, is taken from the table NC1_TYPES keyed by the name of the
     method the closure is passed to; `all`/`filter` force `bool` by their std signatures,
     the others (`find_map`: Option<Ordering>, `unwrap_or_else`: Ordering, `map`: u8) are
     checked by rustc: a wrong ascription does not compile (the check is then undecided,
     never wrongly passed).  The template attaches `requires`/`ensures` after `(vq_rK: T)`;
     Verus proves them against the closure body.  For a closure passed to one of the NC2
     helpers the rule itself writes the `ensures` (table NC1_ENSURES): it is, word for word,
     what that helper's precondition demands of its closure argument, so it adds no
     assumption - it is an obligation ON the closure body that Verus must prove (a closure
     computing anything else fails it) - and a function such as `Name::eq` then needs no
     template-side proof hint at all, so that a restructured body is still judged (a lost
     hint anchor would make the check undecided instead).
NC2  zip chains over `Labels` / slice iterators -> verified helpers:
         A.labels().zip(B.labels()).all(F)                    -> vq_labels_zip_all(A.labels(), B.labels(), F)
         A.labels().rev().zip(B.labels().rev()).all(F)        -> vq_labels_rev_zip_all(A.labels(), B.labels(), F)
         A.labels().rev().zip(B.labels().rev()).find_map(F)   -> vq_labels_rev_zip_find_map(A.labels(), B.labels(), F)
         X.iter().zip(Y.iter()).find_map(F)                   -> vq_slice_zip_find_map(&X, &Y, F)
     core::iter: `Rev<I>::next` is `I::next_back`; `Zip<A, B>::next` (default impl; `Labels`
     and `slice::Iter` zipped here have no side effects, so the TrustedRandomAccess
     specialisation for slice iterators is indistinguishable) is
     `let x = self.a.next()?; let y = self.b.next()?; Some((x, y))`; `all(f)` returns false at
     the first item with `!f(item)`, true at the end; `find_map(f)` returns the first
     `Some` that `f` yields, None at the end.  The helpers are these loops over the REAL
     `Labels::next` / `Labels::next_back` (extracted) resp. slice indexing.
NC4  X.iter().map(F).collect()  (into an ArrayVec)  ->  vq_slice_map_collect(X, F):
     `collect` is `FromIterator::from_iter`; arrayvec 0.7 `from_iter` is `new()` + `extend`,
     which pushes every item and panics when the capacity is exceeded; `Map::next` applies F to
     each item of the slice in order.  The helper is that loop over the ArrayVec stand-in
     (`push` requires len < CAP, so the panic case is an obligation at the call site).
NC5  `for X in E.iter().map(u8::to_ascii_lowercase) {`  ->
         `for vq_ref_X in E.iter() { let X = u8::to_ascii_lowercase(vq_ref_X);`
     `Map::next` is `self.iter.next().map(&mut self.f)`: the function is applied to each
     item at the moment the loop fetches it.
NC6  `for X in E.labels() {`  ->  `let mut vq_iter = E.labels(); while let Some(X) = vq_iter.next() {`
     the definition of `for` over a value that is already an iterator (`IntoIterator for I:
     Iterator` is the identity); `vq_iter` is a fresh name.
NC7  `unsafe { Box::from_raw(Box::into_raw(X) as *mut LowercaseName) }` -> `vq_box_name_as_lowercase(X)` and
     `unsafe { Box::from_raw(Box::into_raw(X) as *mut Name) }` -> `vq_box_lowercase_as_name(X)`:
     the pointer cast between a type and its #[repr(transparent)] wrapper, isolated in a
     TRUSTED stand-in (prelude/name_core_unsafe.rs) whose contract is "same value, re-typed";
     everything around the cast (e.g. the call of make_ascii_lowercase) stays verified.
NC8  `unsafe { &*(E as *const [u8] as *const Label) }` -> `Label::from_unchecked(E)` (in `Deref for LabelBuf`): the
     expression is, token for token, the body of `Label::from_unchecked` with `octets := E`; folding that
     definition puts the cast under the one trusted contract of from_unchecked and leaves `E` (the slicing
     `&self.data[..len]`, which can panic) verified.
NC9  `Self::Owned` -> `LabelBuf` in `impl ToOwned for Label` (`type Owned = LabelBuf;`): the function is
     extracted into the inherent impl (it needs a precondition), where the associated type has to be
     written out; rustc checks the result type.
"""
import re
from . import rustscan


def _pad(old, new):
    """Keep the line count of the replaced span."""
    return new + '\n' * max(old.count('\n') - new.count('\n'), 0)


NC1_TYPES = {
    'all': 'bool', 'filter': 'bool',
    'find_map': 'Option<Ordering>', 'unwrap_or_else': 'Ordering', 'map': 'u8',
    'vq_labels_zip_all': 'bool', 'vq_labels_rev_zip_all': 'bool',
    'vq_labels_rev_zip_find_map': 'Option<Ordering>', 'vq_slice_zip_find_map': 'Option<Ordering>',
    'vq_slice_map_collect': 'u8',
}


# ghost `ensures` for closures passed to the NC2 helpers = the helper's precondition on its closure
# ({r} = result name, {p} = parameter name)
NC1_ENSURES = {
    'vq_labels_zip_all': '{r} == ci_eq({p}.0.octets@, {p}.1.octets@)',
    'vq_labels_rev_zip_all': '{r} == ci_eq({p}.0.octets@, {p}.1.octets@)',
    'vq_labels_rev_zip_find_map': '{r} == ne_some(label_cmp({p}.0.octets@, {p}.1.octets@))',
    'vq_slice_zip_find_map': '{r} == ne_some(cmp_int(lower(*{p}.0) as int, lower(*{p}.1) as int))',
}


def _enclosing_call_name(masked, idx):
    """Name of the function/method whose argument list contains position idx."""
    depth = 0
    k = idx - 1
    while k >= 0:
        ch = masked[k]
        if ch in ')]}':
            depth += 1
        elif ch in '([{':
            if depth == 0:
                break
            depth -= 1
        k -= 1
    if k < 0 or masked[k] != '(':
        return None
    j = k - 1
    while j >= 0 and masked[j].isspace():
        j -= 1
    e = j + 1
    while j >= 0 and (masked[j].isalnum() or masked[j] == '_'):
        j -= 1
    return masked[j + 1:e] or None


def r_closure_normal_form(text):
    """NC1: closure `|PARAMS| EXPR` passed as a call argument -> `|p| -> (vq_rK: T) { let PARAMS = p; EXPR }`
    (irrefutable parameter pattern moved into a `let`; return type ascribed from NC1_TYPES by the receiving
    method, checked by rustc), so that the template can attach Verus-checked requires/ensures to the closure."""
    n = 0
    pos = 0
    while True:
        masked = rustscan.mask(text)
        m = None
        for mm in re.finditer(r'\|', masked[pos:]):
            i = pos + mm.start()
            # a closure starts after `(` or `,` (call argument position)
            j = i - 1
            while j >= 0 and masked[j].isspace():
                j -= 1
            if j >= 0 and masked[j] in '(,':
                m = i
                break
        if m is None:
            break
        i = m
        if masked[i + 1] == '|':
            params, pend = '', i + 2
        else:
            pe = masked.index('|', i + 1)
            params, pend = text[i + 1:pe].strip(), pe + 1
        # already in normal form?
        rest = masked[pend:].lstrip()
        if rest.startswith('->'):
            pos = pend
            continue
        # body: up to the `,` or `)` that closes the argument
        k = pend
        depth = 0
        while k < len(masked):
            ch = masked[k]
            if ch in '([{':
                depth += 1
            elif ch in ')]}':
                if depth == 0:
                    break
                depth -= 1
            elif ch == ',' and depth == 0:
                break
            k += 1
        body = text[pend:k]
        if body.strip().startswith('{'):
            pos = pend
            continue
        callee = _enclosing_call_name(masked, i)
        ty = NC1_TYPES.get(callee)
        if ty is None:
            pos = pend
            continue
        n += 1
        ens = ''
        if callee in NC1_ENSURES and params != '':
            pname = params if re.match(r'^\w+$', params) else 'vq_p%d' % n
            ens = 'ensures ' + NC1_ENSURES[callee].format(r='vq_r%d' % n, p=pname) + ', '
        if params == '' or re.match(r'^\w+$', params):
            head = '|%s| -> (vq_r%d: %s) %s{ ' % (params, n, ty, ens)
        else:
            head = '|vq_p%d| -> (vq_r%d: %s) %s{ let %s = vq_p%d; ' % (n, n, ty, ens, params, n)
        new = head + body.strip() + ' }'
        new = _pad(text[i:k], new)
        text = text[:i] + new + text[k:]
        pos = i + len(head)
    return text, n


def _sub_keep(rx, repl, text):
    n = 0
    out, last = [], 0
    for m in re.finditer(rx, text):
        out.append(text[last:m.start()])
        out.append(_pad(m.group(0), m.expand(repl)))
        last = m.end()
        n += 1
    out.append(text[last:])
    return ''.join(out), n


_W = r'\s*'
_PATH = r'((?:\w+\s*\.\s*)*\w+)'


def r_zip_chains(text):
    """NC2: zip chains over Labels / slice iterators -> verified helper loops (definition of Rev/Zip/all/find_map in core::iter)."""
    n = 0
    lab = r'(\w+)' + _W + r'\.' + _W + r'labels\(\)'
    rev = _W + r'\.' + _W + r'rev\(\)'
    text, k = _sub_keep(lab + rev + _W + r'\.' + _W + r'zip\(' + _W + lab + rev + _W + r'\)' + _W + r'\.' + _W + r'(all|find_map)\(',
                        r'vq_labels_rev_zip_\3(\1.labels(), \2.labels(), ', text)
    n += k
    text, k = _sub_keep(lab + _W + r'\.' + _W + r'zip\(' + _W + lab + _W + r'\)' + _W + r'\.' + _W + r'all\(',
                        r'vq_labels_zip_all(\1.labels(), \2.labels(), ', text)
    n += k
    it = _PATH + _W + r'\.' + _W + r'iter\(\)'
    text, k = _sub_keep(it + _W + r'\.' + _W + r'zip\(' + _W + it + _W + r'\)' + _W + r'\.' + _W + r'find_map\(',
                        r'vq_slice_zip_find_map(&\1, &\2, ', text)
    n += k
    return text, n


def r_map_collect(text):
    """NC4: `X.iter().map(F).collect()` -> `vq_slice_map_collect(X, F)` (verified loop: ArrayVec::new + push of F(item) in order)."""
    n = 0
    while True:
        masked = rustscan.mask(text)
        m = re.search(r'(\w+)' + _W + r'\.' + _W + r'iter\(\)' + _W + r'\.' + _W + r'map\(', masked)
        if not m:
            break
        o = m.end() - 1
        c = rustscan.match_brace(masked, o)
        m2 = re.match(_W + r'\.' + _W + r'collect\(\)', masked[c + 1:])
        if not m2:
            break
        end = c + 1 + m2.end()
        new = 'vq_slice_map_collect(%s, %s)' % (m.group(1), text[o + 1:c].strip())
        text = text[:m.start()] + _pad(text[m.start():end], new) + text[end:]
        n += 1
    return text, n


def r_for_map_lower(text):
    """NC5: `for X in E.iter().map(u8::to_ascii_lowercase) {` -> `for vq_ref_X in E.iter() { let X = u8::to_ascii_lowercase(vq_ref_X);`"""
    return _sub_keep(r'for' + r'\s+(\w+)\s+in\s+([^{;]*?)\.iter\(\)' + _W + r'\.' + _W + r'map\(' + _W + r'u8::to_ascii_lowercase' + _W + r'\)' + _W + r'\{',
                     r'for vq_ref_\1 in \2.iter() { let \1 = u8::to_ascii_lowercase(vq_ref_\1);', text)


def r_for_labels(text):
    """NC6: `for X in E.labels() {` -> `let mut vq_iter = E.labels(); while let Some(X) = vq_iter.next() {` (definition of `for` over an iterator)."""
    return _sub_keep(r'for' + r'\s+(\w+)\s+in\s+(\w+)\.labels\(\)' + _W + r'\{',
                     r'let mut vq_iter = \2.labels(); while let Some(\1) = vq_iter.next() {', text)


def r_box_cast(text):
    """NC7: `unsafe { Box::from_raw(Box::into_raw(X) as *mut LowercaseName) }` -> `vq_box_name_as_lowercase(X)`, `.. as *mut Name) }` ->
    `vq_box_lowercase_as_name(X)`: the repr(transparent) pointer cast isolated in a trusted stand-in (same value, re-typed)."""
    n = 0
    for ty, fn in (('LowercaseName', 'vq_box_name_as_lowercase'), ('Name', 'vq_box_lowercase_as_name')):
        text, k = _sub_keep(r'unsafe' + _W + r'\{' + _W + r'Box::from_raw\(' + _W + r'Box::into_raw\(' + _W + r'(\w+)' + _W + r'\)' + _W
                            + r'as' + _W + r'\*mut' + r'\s+' + ty + _W + r'\)' + _W + r'\}',
                            fn + r'(\1)', text)
        n += k
    return text, n


def r_label_cast(text):
    """NC8: `unsafe { &*(E as *const [u8] as *const Label) }` -> `Label::from_unchecked(E)` (the body of from_unchecked, folded)."""
    return _sub_keep(r'unsafe' + _W + r'\{' + _W + r'&\*\(' + _W + r'([^{};]*?)' + r'\s+as\s+\*const\s+\[u8\]\s+as\s+\*const\s+Label' + _W + r'\)' + _W + r'\}',
                     r'Label::from_unchecked(\1)', text)


RULES = {
    'NC8': r_label_cast,
    'NC1': r_closure_normal_form,
    'NC2': r_zip_chains,
    'NC4': r_map_collect,
    'NC5': r_for_map_lower,
    'NC6': r_for_labels,
    'NC7': r_box_cast,
}

REGEX_RULES = {
    'NC9': (r'\bSelf::Owned\b', 'LabelBuf',
            'NC9: `Self::Owned` -> `LabelBuf` (the associated type of `impl ToOwned for Label`, written out in the inherent impl)'),
}
