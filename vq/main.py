"""Entry point:  check <ID> [--tier quick|thorough] [--replay <file>]

exit 0  property held on everything explored (KNOWN-FINDING lines possible)
exit 1  VIOLATION property=<id> replay=<path> [no-failing-input-found]
exit 2  undecided (lost anchor, unsupported construct, solver limit, tool error)
"""
import argparse
import concurrent.futures as cf
import json
import os
import re
import shutil
import sys
import time

from . import extract, verus_run, kani_run, native_run, props, scan
from .rustscan import ScanError

VERIF = os.path.dirname(os.path.dirname(os.path.abspath(__file__)))
WORK = os.path.join(VERIF, '.work')
# evidence of runs against a non-default tree (dev-time mutation runs with VQ_REPO) must not
# overwrite the committed evidence of the real tree
EVID = os.environ.get('VQ_EVID_DIR') or (os.path.join(VERIF, 'evidence') if os.environ.get('VQ_REPO', '/repo') == '/repo'
                                          else os.path.join(VERIF, '.work', 'evidence-mut'))
REPLAYS = os.path.join(EVID, 'replays')


def log(*a):
    print(*a, flush=True)


def load_known():
    path = os.path.join(VERIF, 'known_findings.txt')
    findings = []
    if os.path.exists(path):
        for line in open(path):
            line = line.strip()
            if line.startswith('finding:'):
                m = re.match(r'finding:\s+property=(\S+)\s+obligation=(\S+)\s*(.*)$', line)
                if m:
                    findings.append({'property': m.group(1), 'obligation': m.group(2), 'what': m.group(3)})
    return findings


class CanaryExtractor(extract.Extractor):
    """Extractor variant for the vacuity guard: every function verified in the
    unit is emitted twice - once unchanged and once as `<fn>__canary` with
    `false` appended to its ensures.  Each canary copy must FAIL, which shows
    that the requires is satisfiable and the end of the body reachable.  (The
    originals keep their real contracts, so a caller's canary cannot pass just
    because its callee's contract was falsified.)  Trait-impl methods (`nopub`)
    cannot be duplicated and are skipped."""

    def __init__(self, *a, **k):
        super().__init__(*a, **k)
        self.canaries = []

    def emit_fn(self, unit_rel, unit_line, st, block, assume):
        super().emit_fn(unit_rel, unit_line, st, block, assume)
        if assume:
            return
        pos, opts = self.parse_opts(st, 1)
        if 'nopub' in pos[2:]:
            return
        idx = len(block)
        for k, (ln, l) in enumerate(block):
            if l.strip().startswith('//@'):
                idx = k
                break
        contract = block[:idx]
        rest = block[idx:]
        has_ens = any(re.match(r'\s*ensures\b', l) for (_, l) in contract)
        new = list(contract)
        dec_at = None
        for q, (_, l) in enumerate(new):
            if re.match(r'\s*decreases\b', l):
                dec_at = q
        ins = dec_at if dec_at is not None else len(new)
        j = ins - 1
        while j >= 0 and (new[j][1].strip() == '' or new[j][1].strip().startswith('//')):
            j -= 1
        if j >= 0:
            ln, l = new[j]
            code = l.split('//')[0].rstrip()
            if code and not code.endswith(',') and not re.match(r'\s*(requires|ensures)\s*$', code):
                new[j] = (ln, code + ',')
        if has_ens:
            new.insert(ins, (unit_line, '        false, // [vacuity-canary]'))
        else:
            new.insert(ins, (unit_line, '    ensures false, // [vacuity-canary]'))
        name = opts.get('as', pos[1])
        cname = name + '__canary'
        st2 = re.sub(r'\s+as=\S+', '', st) + ' as=' + cname
        nfun = len(self.functions)
        super().emit_fn(unit_rel, unit_line, st2, new + rest, assume)
        # do not list the copy as a function under contract
        del self.functions[nfun:]
        self.canaries.append(cname)


def run_canary(unit, workdir, timeout=900):
    """Returns (ok, detail). ok == True when every verified-here exec function fails with the canary."""
    gen = os.path.join(workdir, unit + '__canary.rs')
    ex = CanaryExtractor()
    try:
        ex.process_file(os.path.join('units', unit + '.vrs'))
    except ScanError as e:
        return None, 'extraction: %s' % e, 0
    with open(gen, 'w') as f:
        f.write(ex.out.text())
    import subprocess
    cmd = [verus_run.VERUS, gen, '--output-json', '--time-expanded', '--error-format=json', '--multiple-errors', '2']
    try:
        p = subprocess.run(cmd, capture_output=True, text=True, timeout=timeout, cwd=workdir)
    except subprocess.TimeoutExpired:
        return None, 'canary timeout', 0
    try:
        out = json.loads(p.stdout)
    except Exception:
        return None, 'canary: no JSON: ' + p.stderr[-500:], 0
    fnres = {}
    for mod in out.get('times-ms', {}).get('smt', {}).get('smt-run-module-times', []):
        for fb in mod.get('function-breakdown', []):
            # several impls may define a function of the same name: keep every result
            fnres.setdefault(fb['function'].split('::')[-1], []).append((fb['function'], fb.get('success', False)))
    if not fnres:
        return None, 'canary: verus gave no per-function results: ' + p.stderr[-800:], 0
    vacuous = []
    n = 0
    for name in sorted(set(ex.canaries)):
        want = ex.canaries.count(name)
        got = fnres.get(name, [])
        n += len(got)
        if len(got) < want:
            vacuous.append('%s (only %d of %d canary copies were checked)' % (name, len(got), want))
        for (full, ok) in got:
            if ok:
                vacuous.append(full)
    if vacuous:
        return False, 'functions that verify `ensures false` (vacuous contract): ' + ', '.join(vacuous), n
    return True, '', n


def _cex_tags(output):
    m = re.search(r'COUNTEREXAMPLE:\s*((?:\[[^\]]*\]\s*)+)', output)
    if not m:
        return []
    return re.findall(r'C\d{2,3}', m.group(1))


def _other_property_only(output, pid):
    tags = _cex_tags(output)
    return bool(tags) and pid not in tags


def relevant(failure, vspec):
    fns = vspec.get('fns')
    if fns is not None and failure['fn'] not in fns:
        # failures in lemma/spec helpers of the unit are attributed to the unit as a whole
        if failure['fn'] in vspec.get('ignore_fns', []):
            return False
        if fns and failure['fn'] not in fns:
            return False
    which = vspec.get('which', 'all')
    if which == 'safety':
        return failure['safety']
    labels = vspec.get('labels')
    if labels is not None:
        # a unit shared by several properties: only the clauses labelled for this property count
        lab = failure.get('label')
        if lab is None:
            return bool(vspec.get('unlabelled', False))
        return any(l in lab for l in labels)
    return True


def write_replay(pid, obligation, payload):
    os.makedirs(REPLAYS, exist_ok=True)
    name = '%s-%s.json' % (pid, re.sub(r'[^A-Za-z0-9_.-]+', '_', obligation)[:120])
    path = os.path.join(REPLAYS, name)
    with open(path, 'w') as f:
        json.dump(payload, f, indent=1)
    return path


def do_replay(path):
    data = json.load(open(path))
    log('replay of obligation:', data.get('obligation'))
    log('property:', data.get('property_id'))
    if data.get('verifier_output'):
        log('--- verifier output ---')
        log(data['verifier_output'])
    cex = data.get('counterexample')
    if cex and cex.get('kind') == 'native':
        with kani_run.Scratch('replay') as sc:
            nres, ncmd = native_run.run_bins(sc, [cex['bin']])
        r = nres[cex['bin']]
        log('--- bounded stand-in re-run against the real code ---')
        log(r.output)
        if r.status == 'failed':
            log('REPRODUCED: %s fails on the real code' % cex['bin'])
            return 1
        log('not reproduced (status=%s)' % r.status)
        return 0
    if not cex:
        log('no concrete failing input was found by the paired harness; nothing to execute')
        return 0 if not data.get('violation') else 1
    with kani_run.Scratch('replay') as sc:
        rep, out = kani_run.playback(sc, cex['module'], cex['playback_test'])
    log('--- concrete playback against the real code ---')
    log(out)
    if rep:
        log('REPRODUCED: harness %s fails natively on the real code with these inputs' % cex['harness'])
        return 1
    log('not reproduced (rep=%s)' % rep)
    return 0


def main(argv=None):
    ap = argparse.ArgumentParser()
    ap.add_argument('prop')
    ap.add_argument('--tier', default=os.environ.get('VERIF_TIER', 'quick'), choices=['quick', 'thorough'])
    ap.add_argument('--replay')
    ap.add_argument('--no-kani', action='store_true', help='dev only: skip Kani parts')
    args = ap.parse_args(argv)
    if args.replay:
        return do_replay(args.replay)
    if args.no_kani:
        # dev-only partial run: never overwrite the committed evidence of full runs
        global EVID, REPLAYS
        EVID = os.path.join(VERIF, '.work', 'evidence-dev')
        REPLAYS = os.path.join(EVID, 'replays')
    pid = args.prop
    if pid not in props.PROPS:
        log('unknown property', pid)
        return 2
    P = props.PROPS[pid]
    tier = args.tier
    seed = int(os.environ.get('VERIF_SEED', '0') or 0)
    t0 = time.time()
    workdir = os.path.join(WORK, '%s-%d' % (pid, os.getpid()))
    shutil.rmtree(workdir, ignore_errors=True)
    os.makedirs(workdir)
    os.makedirs(EVID, exist_ok=True)
    known = [k for k in load_known() if k['property'] == pid]
    undecided = []
    violations = []     # (obligation, payload)
    known_printed = []
    unit_results = {}
    canary_results = {}
    vspecs = P.get('verus', [])
    units = []
    for v in vspecs:
        if v['unit'] not in units:
            units.append(v['unit'])

    # ---------------------------------------------------------------- Verus
    with cf.ThreadPoolExecutor(max_workers=16) as pool:
        futs = {}
        for u in units:
            tmo = 3600 if tier == 'thorough' else 900
            futs[pool.submit(verus_run.run_unit, u, os.path.join('units', u + '.vrs'), workdir, None, None, (), tmo)] = ('unit', u)
            futs[pool.submit(run_canary, u, workdir, tmo)] = ('canary', u)
            if tier == 'thorough':
                for k in range(3):
                    futs[pool.submit(verus_run.run_unit, u + '__seed%d' % k, os.path.join('units', u + '.vrs'), workdir,
                                     None, None, ('--smt-option', 'smt.random_seed=%d' % (seed * 7 + k + 1)), 3600)] = ('seed', u, k)
                futs[pool.submit(verus_run.run_unit, u + '__halfrlimit', os.path.join('units', u + '.vrs'), workdir,
                                 None, 5, (), 3600)] = ('half', u)
        stability = {}
        for f in cf.as_completed(futs):
            tag = futs[f]
            if tag[0] == 'unit':
                unit_results[tag[1]] = f.result()
            elif tag[0] == 'canary':
                canary_results[tag[1]] = f.result()
            else:
                r = f.result()
                stability.setdefault(tag[1], []).append((tag[0] + (str(tag[2]) if len(tag) > 2 else ''), r.status))

    for u in units:
        r = unit_results[u]
        log('[verus] unit %-22s %-9s verified=%d errors=%d smt=%dms wall=%.1fs %s' % (
            u, r.status, r.verified, r.errors, r.smt_ms, r.wall_s, r.reason[:300]))
        if r.status == 'undecided':
            undecided.append('unit %s: %s' % (u, r.reason))
        c = canary_results[u]
        if c[0] is None:
            undecided.append('unit %s canary: %s' % (u, c[1]))
        elif c[0] is False:
            undecided.append('unit %s VACUOUS: %s' % (u, c[1]))

    failures = []
    for v in vspecs:
        r = unit_results[v['unit']]
        if r.status != 'failed':
            continue        # an undecided unit gives no verdict, whatever diagnostics it printed
        for fl in r.failures:
            if relevant(fl, v) and fl not in failures:
                failures.append(fl)

    # ---------------------------------------------------------------- Kani (complete / bounded)
    kani_specs = [k for k in P.get('kani', []) if (k.get('tier', 'quick') == 'quick' or tier == 'thorough')]
    kani_results = {}
    native_results = {}
    kani_cmd = ''
    need_scratch = (kani_specs or failures or ((undecided or tier == 'thorough') and P.get('fallback_kani'))) and not args.no_kani
    # undecided so far may also come from new, uncontracted functions (coverage guard)
    for u in units:
        r = unit_results[u]
        nf = getattr(r.extractor, 'new_functions', None) if r.extractor else None
        if nf:
            undecided.append('unit %s: functions not known to the contract set appeared in files under contract: %s'
                             % (u, ', '.join(nf[:8])))
    scratch = None
    try:
        if need_scratch:
            try:
                scratch = kani_run.Scratch(pid).__enter__()
            except Exception as e:
                undecided.append('kani scratch: %s' % e)
                scratch = None
        if scratch and kani_specs:
            names = [k['harness'] for k in kani_specs]
            # group by identical extra flags
            groups = {}
            for k in kani_specs:
                groups.setdefault(tuple(k.get('extra', ())), []).append(k['harness'])
            for extra, hs in groups.items():
                res, kani_cmd, raw = kani_run.run_harnesses(scratch, hs, playback=True, extra=extra,
                                                         timeout=P.get('kani_timeout', 3000) * (5 if tier == 'thorough' else 1))
                kani_results.update(res)
            for k in kani_specs:
                r = kani_results[k['harness']]
                log('[kani ] %-9s %-40s %-9s %.1fs checks=%d' % (k['kind'], k['harness'], r.status, r.time_s, r.checks))
                if r.status == 'undecided':
                    undecided.append('kani harness %s: %s' % (k['harness'], r.log[-600:]))
                elif r.status == 'failed':
                    ob = 'kani.%s' % k['harness']
                    payload = {'property_id': pid, 'obligation': ob, 'violation': True,
                               'verifier_output': 'Kani: ' + '; '.join(r.failed_checks),
                               'counterexample': None}
                    if r.playback_test:
                        rep, out = kani_run.playback(scratch, k['module'], r.playback_test)
                        payload['counterexample'] = {'harness': k['harness'], 'module': k['module'],
                                                     'playback_test': r.playback_test,
                                                     'reproduced_on_real_code': rep, 'playback_output': out}
                    failures.append({'obligation': ob, 'fn': k['harness'], 'kind': 'kani', 'message': '; '.join(r.failed_checks),
                                     'rendered': r.log[-3000:], 'label': None, 'safety': True, 'at': k['module'],
                                     'unit': 'kani', '_payload': payload})

        # ------------------------------------------------------------ fallback when a proof cannot be replayed
        # A unit that is undecided because the code changed shape (lost anchor, ghost text no
        # longer type-checks) says nothing about the property.  Bounded Kani stand-ins on the
        # REAL code do not depend on the code's shape: a failing one is a violation with a
        # concrete input; a passing one leaves the check undecided (bounded, never proof).
        fb = [k for k in P.get('fallback_kani', []) if k['harness'] not in kani_results]
        if (undecided or tier == 'thorough') and fb and not args.no_kani:
            if scratch is None:
                try:
                    scratch = kani_run.Scratch(pid).__enter__()
                except Exception as e:
                    undecided.append('kani scratch: %s' % e)
            if scratch:
                res, kcmd, raw = kani_run.run_harnesses(scratch, [k['harness'] for k in fb], playback=True,
                                                     timeout=P.get('kani_timeout', 3000) * (5 if tier == 'thorough' else 1))
                for k in fb:
                    r = res[k['harness']]
                    log('[kani ] fallback  %-40s %-9s %.1fs' % (k['harness'], r.status, r.time_s))
                    kani_results[k['harness']] = r
                    kani_specs.append(dict(k, kind='bounded'))
                    if r.status == 'failed':
                        ob = 'kani.%s' % k['harness']
                        payload = {'property_id': pid, 'obligation': ob, 'violation': True,
                                   'verifier_output': 'Kani (bounded stand-in, run because the Verus proof could not be replayed: %s): %s'
                                                      % ('; '.join(undecided)[:600], '; '.join(r.failed_checks)),
                                   'counterexample': None}
                        if r.playback_test:
                            rep, out = kani_run.playback(scratch, k['module'], r.playback_test)
                            payload['counterexample'] = {'harness': k['harness'], 'module': k['module'],
                                                         'playback_test': r.playback_test,
                                                         'reproduced_on_real_code': rep, 'playback_output': out}
                        failures.append({'obligation': ob, 'fn': k['harness'], 'kind': 'kani', 'message': '; '.join(r.failed_checks),
                                         'rendered': r.log[-3000:], 'label': None, 'safety': True, 'at': k['module'],
                                         'unit': 'kani', '_payload': payload})

        # ------------------------------------------------------------ native bounded stand-ins
        nat = [n for n in P.get('native', [])
               if n.get('when', 'undecided') == 'quick' or tier == 'thorough'
               or (n.get('when', 'undecided') == 'undecided' and (undecided or failures))]   # failures: look for a concrete input
        if nat and not args.no_kani:
            if scratch is None:
                try:
                    scratch = kani_run.Scratch(pid).__enter__()
                except Exception as e:
                    undecided.append('scratch: %s' % e)
            if scratch:
                nres, ncmd = native_run.run_bins(scratch, [n['bin'] for n in nat], timeout=P.get('native_timeout', 900))
                for n in nat:
                    r = nres[n['bin']]
                    native_results[n['bin']] = (n, r)
                    log('[native] bounded  %-40s %-9s %.1fs cases=%d' % (n['bin'], r.status, r.time_s, r.cases))
                    for (tag, text) in r.findings:
                        mt = re.match(r'(C\d{2,3})\b', tag)
                        if mt and mt.group(1) != pid:
                            continue        # a recorded deviation of another property's clause
                        ob = 'native.%s.%s' % (n['bin'], tag)
                        payload = {'property_id': pid, 'obligation': ob, 'violation': True,
                                   'verifier_output': 'bounded stand-in %s reports a concrete deviation from the property text:\n%s' % (n['bin'], text),
                                   'counterexample': {'kind': 'native', 'bin': n['bin'], 'output': text, 'reproduced_on_real_code': True}}
                        failures.append({'obligation': ob, 'fn': n['bin'], 'kind': 'native', 'message': text, 'rendered': text, 'label': tag,
                                         'safety': True, 'at': 'bounded/src/bin/%s.rs' % n['bin'], 'unit': 'native', '_payload': payload})
                    if r.status == 'undecided':
                        undecided.append('native stand-in %s: %s' % (n['bin'], r.output[-400:]))
                    elif r.status == 'failed' and _other_property_only(r.output, pid):
                        # a stand-in shared by several properties tags its counterexample with the
                        # property whose clause failed; this one is not about this property
                        log('[native] %s: counterexample tagged for another property (%s); not a verdict on %s'
                            % (n['bin'], ', '.join(_cex_tags(r.output)), pid))
                    elif r.status == 'failed':
                        ob = 'native.%s' % n['bin']
                        payload = {'property_id': pid, 'obligation': ob, 'violation': True,
                                   'verifier_output': 'bounded stand-in %s (bound: %s) found a concrete failing input on the real code:\n%s'
                                                      % (n['bin'], n.get('bound', ''), r.output[-2500:]),
                                   'counterexample': {'kind': 'native', 'bin': n['bin'], 'output': r.output[-2500:],
                                                      'reproduced_on_real_code': True}}
                        failures.append({'obligation': ob, 'fn': n['bin'], 'kind': 'native', 'message': 'counterexample',
                                         'rendered': r.output[-2500:], 'label': None, 'safety': True, 'at': 'bounded/src/bin/%s.rs' % n['bin'],
                                         'unit': 'native', '_payload': payload})

        # ------------------------------------------------------------ classify failures
        for fl in failures:
            ob = fl['obligation']
            kf = [k for k in known if k['obligation'] == ob]
            if kf:
                msg = 'KNOWN-FINDING: property=%s %s (%s)' % (pid, kf[0]['what'], ob)
                if msg not in known_printed:
                    known_printed.append(msg)
                continue
            if '_payload' in fl:
                violations.append((ob, fl['_payload']))
                continue
            payload = {'property_id': pid, 'obligation': ob, 'violation': True,
                       'function': fl['fn'], 'where': fl['at'], 'clause_at': fl.get('clause_at'),
                       'verifier': 'verus', 'verifier_output': fl['rendered'], 'counterexample': None}
            # paired counterexample harnesses
            cands = P.get('cex', {}).get('%s.%s' % (fl['unit'], fl['fn']), [])
            if scratch and cands and not args.no_kani:
                res, cmd, raw = kani_run.run_harnesses(scratch, [h for (_, h) in cands], playback=True, timeout=1200)
                for (mod, h) in cands:
                    r = res.get(h)
                    if r and r.status == 'failed' and r.playback_test:
                        rep, out = kani_run.playback(scratch, mod, r.playback_test)
                        payload['counterexample'] = {'harness': h, 'module': mod, 'playback_test': r.playback_test,
                                                     'kani_failed_checks': r.failed_checks,
                                                     'reproduced_on_real_code': rep, 'playback_output': out}
                        break
                payload['cex_harnesses_tried'] = [h for (_, h) in cands]
            violations.append((ob, payload))
    finally:
        if scratch:
            scratch.__exit__(None, None, None)

    # ---------------------------------------------------------------- evidence
    wall = time.time() - t0
    ev = build_evidence(pid, P, tier, seed, wall, units, unit_results, canary_results, kani_specs, kani_results,
                        kani_cmd, violations, known_printed, undecided,
                        stability if tier == 'thorough' else None)
    ev['coverage']['bounded_native'] = [{'bin': n['bin'], 'bound': n.get('bound', ''), 'what': n.get('what', ''),
                                         'status': r.status, 'cases': r.cases, 'time_s': round(r.time_s, 1)}
                                        for (n, r) in native_results.values()]
    with open(os.path.join(EVID, pid + '.json'), 'w') as f:
        json.dump(ev, f, indent=1)
    shutil.rmtree(workdir, ignore_errors=True)

    for m in known_printed:
        log(m)
    if violations:
        seen = set()
        for ob, payload in violations:
            if ob in seen:
                continue
            seen.add(ob)
            path = write_replay(pid, ob, payload)
            suffix = '' if payload.get('counterexample') else ' no-failing-input-found'
            log('failed obligation: %s' % ob)
            log((payload.get('verifier_output') or '')[:1500])
            log('VIOLATION property=%s replay=%s%s' % (pid, path, suffix))
        return 1
    if undecided:
        for u in undecided:
            log('UNDECIDED: ' + u)
        return 2
    log('OK property=%s tier=%s wall=%.1fs' % (pid, tier, wall))
    return 0


def build_evidence(pid, P, tier, seed, wall, units, unit_results, canary_results, kani_specs, kani_results,
                   kani_cmd, violations, known_printed, undecided, stability):
    obligations = 0
    discharged = 0
    fns = []
    samples = []
    rewrites_fired = {}
    dropped = set()
    smt_ms = 0
    verus_cmds = []
    trusted = set()
    clause_count = 0
    for u in units:
        r = unit_results[u]
        smt_ms += r.smt_ms
        if r.cmd:
            verus_cmds.append(r.cmd)
        # Verus's own counters: one obligation per function/proof body it checked
        obligations += r.verified + r.errors
        discharged += r.verified
        for name, fr in sorted(r.functions.items()):
            if len(samples) < 40:
                samples.append({'obligation': 'verus:' + name, 'success': fr['success'],
                                'time_us': fr['time_us'], 'rlimit': fr['rlimit']})
        if r.extractor:
            for m in r.extractor.functions:
                fns.append({'unit': u, 'repo_file': m['file'], 'fn': m['fn'], 'impl': m.get('impl'),
                            'line': m['line'], 'sha256_16': m['sha'], 'loops': m.get('loops'),
                            'rules_fired': m.get('rules_fired')})
                for k, v in (m.get('rules_fired') or {}).items():
                    rewrites_fired[k] = rewrites_fired.get(k, 0) + v
            for m in r.extractor.assumed:
                trusted.add('assumed contract (proved in its own unit): %s::%s' % (m['file'], m['fn']))
            if r.gen_path and os.path.exists(r.gen_path):
                txt = open(r.gen_path).read()
                clause_count += len(re.findall(r'(?m)^\s*(requires|ensures|invariant|invariant_except_break|decreases)\b', txt))
                for t in scan.scan_text(txt):
                    trusted.add(t)
    kani_complete = []
    bounded = []
    for k in kani_specs:
        r = kani_results.get(k['harness'])
        st = r.status if r else 'not-run'
        entry = {'harness': k['harness'], 'kind': k['kind'], 'status': st, 'time_s': r.time_s if r else 0,
                 'checks': r.checks if r else 0, 'bound': k.get('bound', ''), 'what': k.get('what', '')}
        if k['kind'] == 'complete':
            obligations += 1
            if st == 'success':
                discharged += 1
            kani_complete.append(entry)
            samples.append({'obligation': 'kani:' + k['harness'], 'success': st == 'success'})
        else:
            bounded.append(entry)
    from . import rewrites as rw
    cov = {
        'obligations': obligations,
        'discharged': discharged,
        'checker_cmd': '; '.join(verus_cmds[:4] + ([kani_cmd] if kani_cmd else [])) or 'none',
        'trusted_base': sorted(trusted) + P.get('trusted_extra', []),
        'samples': samples,
        'functions_under_contract': fns,
        'contract_clauses_in_generated_text': clause_count,
        'backends': {
            'verus': {'units': units, 'functions_checked': sum(len(unit_results[u].functions) for u in units),
                      'smt_ms': smt_ms},
            'kani_complete': kani_complete,
        },
        'bounded': bounded,
        'rewrites_fired': {k: {'count': v, 'rule': rw.describe(k)} for k, v in rewrites_fired.items()},
        'dropped_by_extraction': ['comments and doc comments', 'attributes on extracted items',
                                  'visibility (everything made pub, R1)'],
        'unverified_remainder': P.get('unverified', []),
        'vacuity': {u: {'ok': canary_results[u][0], 'functions_with_failing_canary': canary_results[u][2],
                        'detail': canary_results[u][1]} for u in units},
        'known_findings_printed': known_printed,
        'undecided': undecided,
        'explanation': P.get('explanation', ''),
    }
    if stability is not None:
        cov['stability_runs'] = stability
    level = props.norm_level(P.get('level', 'proof'))
    if level == 'proof' and (obligations == 0 or discharged != obligations):
        # this run did not discharge everything (violation or undecided): do not claim proof level for it
        level = 'other'
        cov['explanation'] = ('this run did NOT establish the property: %d of %d obligations discharged; undecided: %s; violations: %s'
                              % (discharged, obligations, '; '.join(undecided)[:500] or 'none',
                                 ', '.join(sorted(set(ob for ob, _ in violations))) or 'none'))
    if not cov.get('explanation'):
        cov['explanation'] = P.get('level_text', '')[:600]
    return {
        'property_id': pid,
        'tier': tier,
        'seed': seed,
        'level': level,
        'coverage': cov,
        'assumptions': P.get('assumptions', []) + ['see coverage.trusted_base'],
        'wall_s': round(wall, 2),
        'violations': len(set(ob for ob, _ in violations)),
    }


if __name__ == '__main__':
    try:
        rc = main()
    except SystemExit:
        raise
    except BaseException as e:      # a tool failure is never a verdict
        import traceback
        traceback.print_exc()
        print('UNDECIDED: internal error in the checking machinery: %r' % (e,), flush=True)
        rc = 2
    sys.exit(rc)
