"""Rewrite rules added for unit rdata (C18).  Registered into
vq.rewrites.RULES / REGEX_RULES (all opt-in: `rules=+RDn` on a //@fn or //@item
line).  Same discipline as vq/rewrites.py: every rule has an id and a
justification; the extractor records which rules fired.
"""
import re
from . import rustscan


def _replace_spans(text, spans):
    from .rewrites import _replace_spans as f
    return f(text, spans)


def _split_top_commas(args):
    from .rewrites import _split_top_commas as f
    return f(args)


RULES = {
}

REGEX_RULES = {
}
