"""Property -> verification units, harnesses, counterexample finders."""

NAME_WIRE_FNS = ['parse_pointer', 'validate_uncompressed_name', 'parse_uncompressed_name',
                 'parse_compressed_name', 'skip_compressed_name']

LEVELS = ('exploration', 'fault_enumeration', 'model_checking', 'proof', 'translation_validation', 'other')


def norm_level(l):
    """Map free-form level strings of unit authors onto the schema's categories."""
    if l in LEVELS:
        return l
    return 'proof' if str(l).startswith('proof') else 'other'


NOT_CLAIMED = {
    'C23': 'not applicable: equates a whole file parse with an independent pretty-printer; needs a complete formal grammar of RFC 1035 '
           'section 5 text over a streaming io::Read tokenizer built on Vec/String - outside what Verus (no str/fmt/io reasoning) or Kani '
           '(unbounded text) contracts can express (DESIGN.md section 6)',
    'C25': 'not applicable: equivalence of two whole-parser runs over a file tree on the real file system; no per-function contract states it (DESIGN.md section 6)',
    'C30': 'not applicable: socket/async I/O framing and timing over loopback with two runtimes; Kani has no threads/async/syscalls, Verus cannot model sockets (DESIGN.md section 6)',
    'C32': 'not applicable: linearizability of RwLock<Arc<_>> swaps under arbitrary schedules; not expressible as function contracts on unmodified code (DESIGN.md section 6)',
}

PROPS = {
    'C14': dict(
        level='proof',
        level_text='Verus proves, for every buffer and start offset (no bound), that parse_compressed_name returns exactly the name and '
                   'first-chunk length of a recursive RFC 1035 4.1.4 reference decoder or an error when it fails; that '
                   'validate/parse_uncompressed_name agree with the RFC 1035 3.1 reference on acceptance and length; that '
                   'skip_compressed_name agrees with the first-chunk reference and never reports more octets than the buffer holds; '
                   'no index/arith/ArrayVec-capacity panic; that both call sites of unsafe new_boxed_name meet its safety contract; and that the six '
                   'public wrappers in src/name/mod.rs (Name::try_from_compressed, skip_compressed, try_from_uncompressed(_all), '
                   'validate_uncompressed(_all)), extracted verbatim, satisfy the same reference statements (dec / skip_from / ulen).',
        level_note='Trusted: Verus/Z3; prelude stand-ins for ArrayVec, Result::or/and, u16::from_be_bytes; the body of unsafe new_boxed_name; '
                   'slices no longer than isize::MAX. Function bodies are extracted verbatim from /repo on every run; rewrite rules fired are listed in the evidence.',
        verus=[dict(unit='name_wire', which='all')],
        kani=[],
        cex={
            'name_wire.skip_compressed_name': [('name_wire', 'cex_skip_len_le_buf'), ('name_wire', 'bnd_skip_matches_ref')],
        },
        fallback_kani=[dict(harness='bnd_skip_matches_ref', module='name_wire',
                            bound='buffers <= 258 octets whose first chunk has <= 6 labels',
                            what='skip_compressed agrees with an executable RFC 1035 first-chunk reference on acceptance and length')],
        native=[dict(bin='bnd_name_wire', when='quick',
                     bound='all buffers of <= 5 octets over the 12-symbol alphabet {0,1,2,3,3f,40,41,bf,c0,c1,c2,ff} at every start offset 0..=len+1 '
                           '(1.9M cases); structured buffers up to ~400 octets: label totals 0-4/62-67/125-131/189-194/250-259 in 3 label shapes '
                           '(63-octet labels, 1-octet labels = up to 128 labels, mixed), a 64 / 0x80 length octet, 7 kinds of earlier content, '
                           'terminators null / null+junk / nothing / lone 0xc0 / 0xff / pointers to ~10 targets (backwards, chunk start, itself, forwards, 0x3fff), '
                           'three-chunk pointer chains totalling 250..259 octets, ~10 start offsets each',
                     what='public Name::{try_from_compressed, skip_compressed, try_from_uncompressed(_all), validate_uncompressed(_all)} vs '
                          'reference decoders written from RFC 1035 3.1/4.1.4 (bounded/src/wire_ref.rs): no panic, same acceptance, same name '
                          '(wire form and label list), same first-chunk length; error kinds not compared')],
        unverified=['body of unsafe fn new_boxed_name (allocation, copy_nonoverlapping, fat-pointer cast): its documented '
                    'safety precondition is proved at every extracted call site, the body itself is trusted'],
        assumptions=['slice lengths are <= isize::MAX (Rust allocation rule), stated as a precondition',
                     'arrayvec::ArrayVec behaves as its stand-in contract states'],
    ),
    'C15': dict(
        level='proof',
        level_text='Verus proves for every octet string and every read position (no bound) that each Reader operation - header accessors, '
                   'read_question, skip_question, read_rr, skip_rr, peek_rr, PeekRr::{owner, rr_type, class, ttl, rdlength, message_to_rr, skip, parse}, '
                   'mark/rewind, TryFrom - is free of index/slice/arith/unwrap panics, preserves the reader invariant 12 <= cursor <= len, leaves the '
                   'cursor unchanged when it returns Err, and on success returns exactly the fields of an RFC 1035 4.1 reference decoder '
                   '(question_at / rr_at / rr_skip_at over the C14 name decoder), advancing the cursor to the reference end.',
        level_note='Trusted: Verus/Z3; prelude stand-ins (be-bytes shims, slice->array shim, Cow/Rdata opaque types); the contract of Rdata::read is '
                   'ASSUMED here as a callee contract (rdata_read_spec; decided by the RDATA units of C18); name decoding is used through the '
                   'contracts proved in unit name_wire (run as part of this check). rewind() keeps its documented precondition (a mark is set).',
        verus=[dict(unit='reader', which='all'), dict(unit='name_wire', which='all'), dict(unit='dns_types', which='all'),
               # 'successful reads agree ... including decompressed RDATA': the RDATA readers (property C18's unit) are part of it
               dict(unit='rdata', which='all')],
        kani=[],
        cex={'name_wire.skip_compressed_name': [('name_wire', 'cex_skip_len_le_buf')]},
        native=[dict(bin='bnd_reader', when='quick',
                     bound='headers: all 2^16 values of the two flag octets + every value of each other header octet; messages: 12-octet header + '
                           '1 piece from a menu of 336 questions/records (6 owners: root, one label, label+pointer to 12, two pointers into the header, '
                           'lone 0xc0; 2 questions; 17 type/class/RDATA shapes of A IN/CH/unknown class, NS, MX, TXT, OPT, unknown type, plain and compressed, '
                           'valid and malformed; RDLENGTH exact/-1/+1; TTL 3600 and 0x80000001) or 2 pieces (any x 18 representatives, both orders), '
                           'each cut at EVERY length and with one extra octet; every operation at every read position reachable through successful operations (9.3M operation checks); '
                           'long messages: question + opaque filler record + a record whose owner starts at offset T in {255,256,257,511,512,513,768,1024} + one of 23 records '
                           '(NS CNAME PTR MX SOA MINFO CH-A SRV opaque; RDATA names = pointer / label+pointer to T, T+1, T+4, in both SOA/MINFO positions) x 3 owners, whole / cut at every '
                           'length of the last record / with one more record (552 messages)',
                     what='public Reader API (TryFrom, header accessors, read_question, skip_question, read_rr, skip_rr, peek_rr + PeekRr accessors/owner/skip/parse, '
                          'mark/rewind, at_eom, message_to_cursor) vs a reference RFC 1035 4.1 decoder (bounded/src/wire_ref.rs): no panic, position unchanged on Err, '
                          'fields (owner, type, class, TTL, decompressed RDATA) and end position equal to the reference on Ok, same acceptance, read_rr == peek_rr().parse(); '
                          'refusing an IN SRV record with a compressed target tolerated'),
                # 'including decompressed RDATA': the RDATA reader the Reader delegates to, on its own (same binary as C18)
                dict(bin='bnd_rdata', when='quick',
                     bound='read part of bnd_rdata: 91 class/type pairs; 1212 RDATA regions (24 name shapes incl. pointers backwards/into a label/forwards/to itself/cut off) in a message '
                           'with two earlier names x 3 continuations x 6-10 cursor/RDLENGTH choices; 5 messages x 21 cursors up to usize::MAX x 14 RDLENGTHs; long messages: a name at offset T in '
                           '{255,256,257,511,512,513,768,1024,15872} and a chained name at T+256, every layout with names x 12 name shapes (pointer / label+pointer to T, T+256, T+8, plain, '
                           'pointers one octet off, to itself) x 2 continuations x RDLENGTH exact/+1/-1/-2',
                     what='public Rdata::read vs the reference RDATA reader (bounded/src/wire_ref.rs): no panic, Ok only with RDATA that the RFC layout and Rdata::validate accept, '
                          'result equal to the reference (octets as they are / embedded names decompressed; refusing a compressed SRV target tolerated)')],
        unverified=['Rdata::read body (assumed contract here; see C18)', 'fmt::Debug impl of Reader (calls the verified accessors)'],
        assumptions=['slice lengths are <= isize::MAX'],
    ),
}


# ---- entries contributed per unit family (vq/props_d/*.py) -----------------
import importlib, pkgutil
PENDING = {}
from . import props_d as _pd
for _m in sorted(pkgutil.iter_modules(_pd.__path__), key=lambda m: m.name):
    _mod = importlib.import_module('vq.props_d.' + _m.name)
    for _k, _v in _mod.PROPS_PART.items():
        if 'level_text' not in _v:
            PENDING[_k] = PENDING.get(_k, []) + [(_m.name, _v)]     # fragment of a property completed by other units
            continue
        if _k in PROPS:
            raise RuntimeError('duplicate PROPS entry ' + _k)
        PROPS[_k] = _v
