"""Mechanical scan of generated Verus text for unchecked assumptions."""
import re

PATTERNS = [
    (r'\bassume\s*\(', 'assume('),
    (r'\badmit\s*\(', 'admit('),
    (r'#\[verifier::external_body\]', 'external_body'),
    (r'\bassume_specification\b', 'assume_specification'),
    (r'#\[verifier::external\]', 'verifier::external'),
    (r'\buninterp\s+spec\s+fn\b', 'uninterp spec fn'),
]

NAME_RE = re.compile(r'(?:fn|struct)\s+(\w+)|\[\s*([\w:<>, ]+?)\s*\]')


def scan_text(text):
    """Return a list of strings, one per trusted item found."""
    out = []
    lines = text.split('\n')
    for i, l in enumerate(lines):
        code = l.split('//')[0]
        for rx, tag in PATTERNS:
            if re.search(rx, code):
                # find the item name on this or the next few lines
                ctx = ' '.join(x.split('//')[0] for x in lines[i:i + 4])
                m = re.search(r'(?:fn|struct)\s+(\w+)', ctx)
                m2 = re.search(r'assume_specification[^\[]*\[\s*([^\]]+?)\s*\]', ctx)
                name = (m2.group(1) if (tag == 'assume_specification' and m2) else (m.group(1) if m else '?'))
                out.append('%s: %s' % (tag, ' '.join(name.split())))
    return sorted(set(out))
