"""Rewrite rules added for units thread_pool (C29) and zones_reload (C31).
Registered into vq.rewrites.RULES / REGEX_RULES (all opt-in: `rules=+RTn` on a
//@fn or //@item line).  Same discipline as vq/rewrites.py: every rule has an
id and a justification; the extractor records which rules fired.
"""
import re
from . import rustscan


def _macro_calls(text, name):
    from .rewrites import _macro_calls as f
    return f(text, name)


def _replace_spans(text, spans):
    from .rewrites import _replace_spans as f
    return f(text, spans)


def _split_top_commas(args):
    from .rewrites import _split_top_commas as f
    return f(args)


def r_format_any(text):
    """RT2 (opt-in): `format!(..)` -> `vq_any_string()` (prelude fn returning an
    unconstrained String).  Verus has no fmt support.  Over-approximation: the
    text is only used as a thread name / log message, its value is irrelevant to
    every contract; the arguments are field reads formatted with Display and
    have no side effects."""
    n = 0
    while True:
        calls = [c for c in _macro_calls(text, 'format')
                 if not (c[0] > 0 and (text[c[0] - 1].isalnum() or text[c[0] - 1] == '_'))]
        if not calls:
            break
        s, e, _ = calls[0]
        text = _replace_spans(text, [(s, e, 'vq_any_string()')])
        n += 1
    return text, n


def r_wait_while_closure(text):
    """RT3 (opt-in): `X.wait_while(G, |r| EXPR)` ->
    `X.wait_while(G, |r: &mut _| -> (b: bool) ensures b == (EXPR[r := old(r)]), *final(r) == *old(r) { EXPR })`.
    Annotation only: the executable closure body EXPR is unchanged (wrapped in
    braces, parameter type left to inference).  Verus does not infer closure
    postconditions; the added `ensures` restates the body as a spec expression
    and says the argument is not modified, and Verus CHECKS both against the
    body, so nothing is assumed."""
    n = 0
    pos = 0
    while True:
        masked = rustscan.mask(text)
        m = re.compile(r'\.\s*wait_while\s*\(').search(masked, pos)
        if not m:
            break
        o = m.end() - 1
        c = rustscan.match_brace(masked, o)
        args = text[o + 1:c]
        parts = _split_top_commas(args)
        pos = m.end()
        if len(parts) != 2:
            continue
        mc = re.match(r'^(\s*)\|\s*(\w+)\s*\|\s*(.*?)\s*$', parts[1], re.S)
        if not mc or mc.group(3).startswith('{'):
            continue
        lead, var, body = mc.group(1), mc.group(2), mc.group(3)
        spec_body = re.sub(r'\b' + re.escape(var) + r'\b', 'old(%s)' % var, body)
        new_closure = ('%s|%s: &mut _| -> (b: bool) ensures b == (%s), *final(%s) == *old(%s) { %s }'
                       % (lead, var, ' '.join(spec_body.split()), var, var, body))
        new_args = parts[0] + ',' + new_closure
        text = _replace_spans(text, [(o + 1, c, new_args)])
        n += 1
    return text, n


def r_closure_result(text):
    """RZ1 (opt-in): result annotation for simple closures passed to `.and_then(` /
    `.unwrap_or_else(`:  `|p| EXPR` or `|| { EXPR }`  ->
    `|p| -> (vq_o: _) ensures equal(vq_o, EXPR) { EXPR }`  when EXPR is (a) a single method
    call on the closure parameter (`p.m(args)`), or (b) an enum-constructor expression
    (`Path::Variant(args)`).  Annotation only: the executable body EXPR is unchanged.  Verus
    does not infer closure postconditions; the added `ensures` restates the body as a spec
    expression (a method `m` is read through its `when_used_as_spec` twin) and Verus CHECKS it
    against the body, so nothing is assumed.  Closures of any other shape are left alone
    (their results stay unconstrained)."""
    n = 0
    pos = 0
    rx = re.compile(r'\.\s*(and_then|unwrap_or_else)\s*\(')
    while True:
        masked = rustscan.mask(text)
        m = rx.search(masked, pos)
        if not m:
            break
        pos = m.end()
        o = m.end() - 1
        c = rustscan.match_brace(masked, o)
        arg = text[o + 1:c]
        mc = re.match(r'^(\s*)\|\s*(\w*)\s*\|\s*(.*?)\s*$', arg, re.S)
        if not mc or '->' in arg.split('|')[2][:4]:
            continue
        lead, var, body = mc.group(1), mc.group(2), mc.group(3)
        if body.startswith('{'):
            mb = rustscan.mask(body)
            if rustscan.match_brace(mb, 0) != len(body) - 1:
                continue
            body = body[1:-1].strip()
            if ';' in rustscan.mask(body):
                continue
        mbody = rustscan.mask(body)
        ok = False
        if var:
            mm = re.match(r'^' + re.escape(var) + r'\s*\.\s*\w+\s*\(', mbody)
            if mm and rustscan.match_brace(mbody, mm.end() - 1) == len(body) - 1:
                ok = True
        if not ok:
            mm = re.match(r'^(?:\w+\s*::\s*)+[A-Z]\w*\s*\(', mbody)
            if mm and rustscan.match_brace(mbody, mm.end() - 1) == len(body) - 1:
                ok = True
        if not ok:
            continue
        new_arg = '%s|%s| -> (vq_o: _) ensures equal(vq_o, %s) { %s }' % (lead, var, ' '.join(body.split()), body)
        text = _replace_spans(text, [(o + 1, c, new_arg)])
        n += 1
    return text, n


def r_drop_write_loops(text):
    """RZ2 (opt-in): drop a `for .. in .. { write!(message, ..).unwrap(); }` loop whose body consists
    only of `write!(message, ..).unwrap();` statements, where `message` is a local String that is
    only handed to a logging macro afterwards (extension of R7a/R7: building log text has no effect
    on returned values or state; Verus has no fmt support).  The iterated expression (an error's
    cause chain) is not evaluated any more; it is a read-only accessor."""
    n = 0
    pos = 0
    while True:
        masked = rustscan.mask(text)
        m = re.compile(r'\bfor\b').search(masked, pos)
        if not m:
            break
        pos = m.end()
        o = rustscan.find_body_open(masked, m.end())
        if o < 0:
            continue
        c = rustscan.match_brace(masked, o)
        body = text[o + 1:c]
        stmts = [x.strip() for x in rustscan.mask(body, keep_strings=True).split(';')]
        if stmts and stmts[-1] == '':
            stmts = stmts[:-1]
        if not stmts:
            continue
        if all(re.match(r'^write!\s*\(\s*message\s*,.*\)\s*\.\s*unwrap\s*\(\s*\)$', x, re.S) for x in stmts):
            text = _replace_spans(text, [(m.start(), c + 1, '')])
            n += 1
            pos = m.start()
    return text, n


def r_desugar_for(text):
    """RZ4 (opt-in): desugar every remaining `for PAT in EXPR { BODY }` into the loop the Rust
    Reference defines it to be (section "Iterator loops"):
        { let mut vq_iter = IntoIterator::into_iter(EXPR);
          loop { match vq_iter.next() { None => break, Some(PAT) => { BODY } } } }
    Needed because this Verus rejects `continue` inside `for` ("for-loops do not yet support
    continue") but accepts it inside `loop`; `continue`/`break` in BODY keep their meaning because
    BODY is still directly inside exactly one loop."""
    n = 0
    pos = 0
    while True:
        masked = rustscan.mask(text)
        m = re.compile(r'\bfor\s+(.*?)\s+in\s+', re.S).search(masked, pos)
        if not m:
            break
        pos = m.end()
        o = rustscan.find_body_open(masked, m.end())
        if o < 0:
            continue
        c = rustscan.match_brace(masked, o)
        pat = text[m.start(1):m.end(1)]
        expr = text[m.end():o].strip()
        body = text[o:c + 1]
        rep = ('{ let mut vq_iter = IntoIterator::into_iter(%s); loop { match vq_iter.next() { None => break, Some(%s) => %s } } }'
               % (expr, pat, body))
        text = _replace_spans(text, [(m.start(), c + 1, rep)])
        n += 1
    return text, n


def _make_exit_count_check(k):
    def check(text):
        masked = rustscan.mask(text)
        n = len(re.findall(r'\breturn\b', masked)) + len(re.findall(r'\?\s*[;)\n.]', masked))
        if n != k:
            raise rustscan.ScanError('exit-count check RTR%d: body has %d `return`/`?` exits (lost anchor: '
                                     'the spliced release assertions no longer cover every early exit)' % (k, n))
        return text, 0
    check.__doc__ = ('RTR%d (check only, changes nothing): the function body must contain exactly %d early exits '
                     '(`return` keywords / `?` operators); otherwise extraction fails (undecided).  Used by unit '
                     'thread_pool so that a newly added early exit that would drop a MutexGuard without a spliced '
                     'release assertion cannot go unnoticed.' % (k, k))
    return check


RULES = {
    'RZ4': r_desugar_for,
    'RT2': r_format_any,
    'RT3': r_wait_while_closure,
    'RZ1': r_closure_result,
    'RZ2': r_drop_write_loops,
}

REGEX_RULES = {
    # RT1: Verus has no `dyn FnOnce`; the queue of boxed task closures becomes the
    # prelude stand-in TaskQueue (push_back/pop_front/len/is_empty keep their text).
    'RT1': (r"VecDeque<\s*Box<\s*dyn\s+FnOnce\(\)\s*\+\s*Send\s*\+\s*'static\s*>\s*>", 'TaskQueue',
            "RT1: type `VecDeque<Box<dyn FnOnce() + Send + 'static>>` -> stand-in `TaskQueue` "
            "(R6-style type stand-in; Verus has no dyn FnOnce; method calls keep their text)"),
    # RZ3: serde field/variant attributes are deserialisation metadata (R7: attributes dropped).
    'RZ3': (r'#\[serde\([^\]]*\)\]', '',
            'RZ3: drop `#[serde(..)]` attributes on fields/variants of copied items (R7: attributes have no '
            'effect on values; the serde derive itself is not carried over)'),
}

for _k in range(0, 8):
    RULES['RTR%d' % _k] = _make_exit_count_check(_k)
