"""PROPS entries contributed by the catalog unit (from notes/agent_reports/catalog.md)."""
PROPS_PART = {
    'C22': dict(
        level='proof',
        level_text='Verus proves, for every catalog state satisfying the tree invariant and every name and class (no bound), over the '
                   'abstract view cat_view : (class, case-folded labels) -> entry: HashMapTreeCatalog::lookup returns exactly the entry of that '
                   'class filed under the longest suffix of the name; Catalog::get (trait default and the SingleZoneCatalog override) returns '
                   'exactly the entry with that name; insert(e) makes the view old.insert(key(e), e) and returns the replaced entry; '
                   'remove(name, class) makes the view old.remove((class, name)) and returns the removed entry - whole-map equalities, so no '
                   'other entry is removed or altered - and new/insert/remove preserve the tree invariant (node names, entries filed under '
                   'their own key, no empty node left). SingleZoneCatalog::lookup/get meet the same trait contract over a one-entry view. '
                   'Iteration (iter) is not covered.',
        level_note='Trusted: Verus/Z3; stand-ins for std HashMap (finite map w.r.t. the key Eq/Hash; entry API; ownership well-founded), '
                   'Option::{or,replace,filter}, bool::then_some; external_body Name accessors (len, index, superdomain, root, to_owned, eq, '
                   'eq_or_subdomain_of) stated over labels(n) defined from the wire form, conditional on Name::wf; Zone::name/class pure. '
                   'Bodies extracted verbatim from /repo on every run; rewrites RC1 (closure body block), RC2/R5 (name[i] -> name.label(i)).',
        verus=[dict(unit='catalog', which='all')],
        kani=[],
        cex={},
        native=[dict(bin='bnd_catalog', when='quick',
                     bound='all insert/remove sequences of length <= 4 over 6 names (incl. root, nested, case variant) x 2 classes; after every step get/lookup for the 6 names + 5 never-inserted query names '
                           '(z.b.a. z.a. y.c.b.a. z. Z.y.C.b.a.: diverge below an entry, below an entry-less node, at the root) x 2 classes, and iter',
                     what='public API of the real HashMapTreeCatalog vs a reference map after every step: get (exact), lookup (longest suffix), iter, values returned by insert/remove')],
        unverified=['HashMapTreeCatalog::iter / Node::iter / node::Iter state machine ("iteration yields exactly the current entries"): iterator '
                    'adaptor chains are outside Verus, and Kani cannot run HashMap::new() (RandomState seeds from the OS; the private std '
                    'key function cannot be stubbed with Kani 0.68)',
                    'bodies of Name::{len, index, superdomain, root, to_owned, eq, eq_or_subdomain_of} (trusted stand-ins in prelude/name_labels.rs)',
                    'Clone/Default impls, SingleZoneCatalog::{new,entry}, Entry::metadata (not extracted)'],
        assumptions=['std::collections::HashMap behaves as a finite map keyed by what Eq/Hash see (LabelBuf: ASCII-lower-cased octets - coherence is C16)',
                     'every Name handled is well-formed (Name::wf, established by the C14-verified constructors); insert requires the entry name to be well-formed',
                     'Zone::name()/class() are pure accessors'],
    ),

}
