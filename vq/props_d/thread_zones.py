"""PROPS entries contributed by the thread_zones unit (from notes/agent_reports/thread_zones.md)."""
PROPS_PART = {
    'C29': dict(
        level='proof',
        level_text='Verus proves, for every interleaving of critical sections (lock-invariant argument, no bound), that every release of the '
                   'pool mutex in ThreadPool::{submit, submit_or_spawn, shut_down_without_removing, is_shutting_down} and pool_worker_loop '
                   're-establishes the monitor invariant `shutting_down || queue.len() <= available_workers` (every queued task has a waiting '
                   'worker that has not given up, with available_workers shown to count exactly the ticket-holding waiting workers), that no '
                   'critical section adds a task after shutdown has begun (submit*/ after shutdown => Err(ShuttingDown), queue unchanged), that an '
                   'accepted task is enqueued exactly once, that a worker never exits while a task is queued, that `available_workers -= 1` and '
                   '`pop_front().unwrap()` cannot underflow/panic, and that ThreadGroup::await_shutdown returns only with shutting_down && '
                   'thread_count == 0. NOT APPLICABLE part: liveness ("has run by the time await_shutdown returns", runs at least once, no deadlock, '
                   'condvar wake-ups).',
        level_note='Trusted: Verus/Z3; prelude/thread_sync.rs stand-ins for std Mutex/MutexGuard/Condvar (mutual exclusion, poisoning ignored, ticket '
                   'rely justified by a written meta-argument), Instant/Duration, the boxed-task queue, slab::Slab::drain, ThreadGroup::start_oneshot. '
                   'Release obligations are carried by the real drop/wait statements; implicit guard drops (return / end of scope) get a spliced ghost '
                   'assertion, their completeness is guarded by the exit-count check rules RTRk. Bodies are extracted verbatim from /repo on every run.',
        verus=[dict(unit='thread_pool', which='all')],
        kani=[],
        cex={},   # no Kani counterexample possible (no threads): no-failing-input-found; demonstration = notes/demos/C29_linger_stress_example.rs
        native=[dict(bin='bnd_thread_pool', when='quick',
                     bound='241 gate/sleep-sequenced scenario instances on fresh ThreadGroups per run (count run/skipped printed in the BOUNDED-OK line): S1 submit() blocked across shutdown (0-2 permanent workers x no/non-lingering/lingering busy '
                           'auxiliary worker x 2, group or pool-then-group shutdown); S2 p+3 gated tasks via submit_or_spawn (3 release orders, 0-2 workers, linger 0/30ms) and 1/2/4 submitter threads x 6|40 tasks via submit with shutdown after or '
                           'concurrent (0/50/200/1000us); S3 submit/submit_or_spawn called after shut_down returned (0-2 workers, linger 0/30ms, cold/warm); S4 await_shutdown vs a gate-held task on 6 kinds of group thread x 2; S5 hand-over at an 8ms '
                           'linger timeout, coarse sweep -200..1000us step 50 + 120 instances around the observed edge; S6 submit_or_spawn loops vs ThreadGroup::shut_down over 1500 sibling pools x 6; settle margin 80ms, setup margin 5s (else the '
                           'instance is skipped), deadlock watchdog 60s; timing is never asserted. A scenario TEST on the native scheduler, not an exploration of interleavings',
                     what='public API of the real quandary::thread: every task accepted (Ok) by submit/submit_or_spawn has run exactly once when await_shutdown returns and never twice; submits called after shut_down() returned are rejected '
                          'and never run; await_shutdown does not return while a started task is still held at its gate; shut_down/await_shutdown/submit return (no deadlock), including hand-over at the linger timeout and submit_or_spawn '
                          'concurrent with group shutdown')],
        unverified=['thread spawning and thread accounting: ThreadGroup::{start_oneshot,start_respawnable,start_pool}, free fns start_oneshot/'
                    'start_respawnable/start_pool_workers, OneshotHandle::drop, RespawnableHandle::drop (thread::Builder::spawn etc.): that thread_count '
                    'equals the number of live threads, and that each end_thread call meets `thread_count >= 1`, is not verified',
                    'ThreadPool::shut_down (Slab::remove panics on an absent key when called twice / after ThreadGroup::shut_down; only tests call it)',
                    'liveness: a queued task is eventually run, notify_* reach a waiter, await_shutdown eventually returns, absence of deadlock'],
        assumptions=['std Mutex gives mutual exclusion; lock poisoning does not occur (lock().unwrap() is Ok)',
                     'every user of the two mutexes obeys the release protocol (all users except start_pool / the start_* methods / the handle Drop impls are extracted and checked)',
                     'PoolRecords starts with an empty queue and available_workers == 0 (ThreadGroup::start_pool)',
                     'available_workers / next_auxiliary_id / thread_count never reach their integer maximum',
                     'submitted task closures have no precondition; Instant + Duration does not overflow'],
    ),
    'C31': dict(
        level='proof',
        level_text='Verus proves for load_impl (load and reload), for every list of distinct configured zones, every previous catalog and every outcome of '
                   'the file-system / zone-loading calls: the new catalog holds entries for exactly the configured zones; each zone is filed under its own '
                   'name and class with the freshly loaded zone if the load succeeded, else with the previous entry whose name is EXACTLY the zone\'s if that '
                   'was Loaded, else with a FailedToLoad placeholder (or, for an unchanged file, its own previous Loaded entry); each zone\'s entry depends '
                   'only on its own configuration, its own exact previous entry and its own files; zones::load / zones::reload return exactly that catalog. '
                   'For the reload step reload_zones_and_keys (run.rs, called by the SIGHUP branch), for every reload source and every outcome of '
                   'config::load_from_path: Ok(r) => r is the catalog zones::reload built for the zones configured NOW over the previously served catalog, '
                   'the server serves exactly r (Server::set_catalog was called with it: zones removed from the configuration have no entry any more, a '
                   'failed zone keeps its own previously served data, a never-loaded zone is FailedToLoad) and its TSIG keys are the reloaded ones; Err => '
                   'only if the configuration could not be loaded, and the served catalog and keys are unchanged; nothing else of the server changes. '
                   'NOT APPLICABLE part: SIGHUP delivery, process lifetime, what is observed over UDP.',
        level_note='Trusted: Verus/Z3; prelude/zones_reload_std.rs stand-ins (PathBuf, SystemTime, fs::metadata, io::Error, anyhow, Result::and_then); '
                   'file-system quiescence during one load_impl run (oracle functions); ASSUMED catalog contracts (new/insert/lookup=longest suffix/get=exact) '
                   'of the shape proved for the real HashMapTreeCatalog in unit `catalog` (C22); load_and_validate_zone external. When the unchanged-file '
                   'shortcut fires (path and mtime comparison) is not specified. Unit zones_reload_run: prelude/zones_reload_run_std.rs (Path, anyhow::Context); '
                   'Server is a stand-in with a ghost view (served catalog, TSIG keys, rest) and ASSUMED setter contracts; its interior mutability (RwLock behind '
                   '&self) is modelled as &mut (sigsub on the `server` parameter, body unchanged); config::load_from_path and make_tsig_key_map are external '
                   '(oracle functions); zones::* enter as the contracts proved in unit zones_reload (fragment included with mode=assume). Binary crate: Verus only.',
        verus=[dict(unit='zones_reload', which='all'), dict(unit='zones_reload_run', which='all')],
        kani=[],
        cex={},   # demonstration = notes/demos/C31_d14_reload_test.rs (scratch-copy test in the binary crate)
        unverified=['load_and_validate_zone, validate_zone (parser and validator: external, arbitrary result)',
                    'the criterion of the unchanged-file shortcut (PathBuf == and SystemTime <= are unconstrained)',
                    'run.rs try_running (one 140-line function of socket / signal / thread set-up, not extractable): the SIGHUP branch itself '
                    '(`Ok(new_catalog) => catalog = new_catalog`, `Err` => log and keep), i.e. that the loop keeps the tracked catalog equal to the served one and '
                    'hands it to the next reload, and the start-up sequence zones::load + set_catalog; signal delivery and serving are the n/a part',
                    'Server::set_catalog / set_tsig_keys bodies (one assignment through an RwLock each: assumed contract) and that request threads see the swap atomically (C32)',
                    'config::load_from_path (TOML / serde) and make_tsig_key_map (iterator chain into a HashMap): external, arbitrary result'],
        assumptions=['configured zones have pairwise distinct (name, class) (config.rs find_duplicated_zone rejects duplicates)',
                     'fewer than 2^31 configured zones (zones_failed is an i32)',
                     'the previous catalog was produced by load_impl (entries filed under their own key, no NotYetLoaded)',
                     'the file system does not change during one load_impl run',
                     'a zone returned by load_and_validate_zone carries the configured name and class',
                     'when reload_zones_and_keys is called, its `catalog` argument is the catalog the server serves and was built by zones::load / reload '
                     '(loop invariant of try_running; re-established by the proved postcondition, but the loop itself is not under contract)',
                     'after start-up the main thread is the only writer of the server\'s catalog and key locks'],
    ),

}
