"""PROPS entries contributed by the tsig units (from notes/agent_reports/tsig.md).
Drop into vq/props_d/tsig.py.  C11 is complete; for C10 this is the TSIG half
(merge `verus`/`unverified`/`assumptions` with the server units' entry)."""

_TSIG_TRUSTED = (
    'Trusted: Verus/Z3; CRYPTOGRAPHIC ASSUMPTIONS A1-A5 of prelude/tsig_hmac.rs (HMAC is an uninterpreted deterministic function of '
    'hash, key and the concatenation of the octets fed; tag length 20/32; finalize returns it; verify_truncated_left <=> 1 <= |tag| <= '
    'output size and tag == prefix; new_from_slice accepts every key) - unforgeability / collision resistance is NOT assumed and nothing '
    'depending on it is claimed; stand-ins: Name (prelude/name.rs), LowercaseName (prelude/tsig_name.rs: Box<Name> -> Box<LowercaseName> '
    'folds ASCII case and keeps well-formedness), Algorithm::name / Algorithm::from_name (lazy_static + HashMap; prelude/tsig_alg.rs), '
    'std Cow/Box::as_mut/Vec::into_boxed_slice/[T]::to_vec/Option::filter/be-bytes shims/SystemTime/Duration (prelude/tsig_std.rs), '
    'Rdata raw-pointer constructors (prelude/rdata_standin.rs). Bodies extracted verbatim from /repo on every run; rewrites R2, R2c, R3b, '
    'R3c, TS1 (byte-string literal -> array literal), TS2 (tuple-pattern closure parameter -> let). ReadTsigRr::try_from is extracted as an '
    'inherent function (Verus forbids `requires` on trait-impl methods).')

PROPS_PART = {
    'C11': dict(
        level='proof',
        level_text='Verus proves, for every message, key, MAC, time and TSIG field value (no bound), modulo the HMAC assumptions: '
                   '(1) sign_request / sign_response / sign_subsequent feed the MAC object EXACTLY the RFC 8945 4.3 digest input written from the RFC '
                   '(request MAC length-prefixed; the message with the original ID, ARCOUNT - 1 and no TSIG RR; key name and algorithm name in '
                   'canonical wire form, class ANY, TTL 0, 48-bit time signed, fudge, error, other len, other data; timers only for subsequent '
                   'messages) and return hmac(alg, key, that input) together with TSIG RDATA laid out exactly as RFC 8945 4.2; '
                   '(2) verify_request / verify_response / verify_subsequent return Ok exactly when the MAC size is admissible (<= output size, '
                   '>= max(10, half of it)), the possibly truncated MAC equals the prefix of hmac over the same input, and |now - time signed| <= fudge, '
                   'with the error precedence FORMERR > BADSIG > BADTIME of RFC 8945 5.2; '
                   '(3) every ReadTsigRr accessor slices inside the RDATA given Rdata::validate_as_tsig\'s postcondition, and returns the RFC 4.2 field; '
                   '(4) unsigned_len / signed_len equal the length of the RR that is later serialised (exact reservation); '
                   '(5) TimeSigned conversions are exact on 48 bits and total on u64 / SystemTime, check_time and check_mac_size cannot overflow; '
                   '(6) a changed covered octet (message octet other than the replaced ID, original ID, any TSIG variable) changes the digest input. '
                   'All index / slice / arithmetic / unwrap / assert obligations of the extracted functions are discharged (feeds C01).',
        level_note=_TSIG_TRUSTED + ' Preconditions left to callers and stated in the contracts: the signed/verified message has >= 12 octets and '
                   'ARCOUNT >= 1 (the TSIG RR is counted: Writer::set_tsig / the server loop index < arcount), request/prior MAC <= 65535 octets, '
                   'the algorithm passed to verify_* is the one named in the RR, the ReadRr handed to ReadTsigRr::try_from came from the Reader '
                   '(RDATA validated, <= 65535 octets).',
        verus=[dict(unit='tsig', which='all'), dict(unit='tsig_rdata', which='all'),
               dict(unit='name_wire', which='all'), dict(unit='dns_types', which='all')],
        native=[dict(bin='bnd_server_tsig', when='quick',
                     bound='8 key/algorithm choices (3 configured keys, upper-case key / algorithm names, unknown key, configured key with the other algorithm, unknown algorithm) x 16 MAC edits (full, truncated to 0/1/9/10/15/16/19/20/21/31, one octet too long, bit flips, zeros) x 19 time offsets (inside/outside the fudge, +-65536, 0, 2^48-1) x fudge 300/30/65535 x original ID equal/different x EDNS yes/no x UDP/TCP; 4 more request kinds pruned; HMAC-SHA1 and HMAC-SHA256; system clock read per request, >= 50 s margin to the window edges',
                     what='server-visible part: every response MAC equals the independent RFC 8945 4.3 computation (request MAC, message with the ORIGINAL ID and decremented ARCOUNT, canonical TSIG variables); requests are accepted exactly when the (possibly truncated) MAC matches and the time is within the fudge window')],
        kani=[dict(harness='full_time_signed_unix_roundtrip', module='tsig', kind='complete', tier='quick',
                   what='try_from_unix_time accepts exactly u64 values < 2^48, stores them big-endian; to_unix_time inverts it'),
              dict(harness='full_time_signed_octets_roundtrip', module='tsig', kind='complete', tier='quick',
                   what='every [u8;6] is a TimeSigned < 2^48 and converts back to itself'),
              dict(harness='full_system_time_from_time_signed', module='tsig', kind='complete', tier='quick',
                   what='TryFrom<TimeSigned> for SystemTime never panics (real std::time)'),
              dict(harness='full_algorithm_output_sizes', module='tsig', kind='complete', tier='quick',
                   what='HMAC-SHA1 / HMAC-SHA256 output sizes are 20 / 32 with the real hmac/sha crates (assumption A2)')],
        cex={},
        unverified=['HMAC-SHA1 / HMAC-SHA256 themselves (hmac, sha1, sha2, digest crates): uninterpreted; no claim that a different input gives a '
                    'different MAC (tamper DETECTION is reduced to "the digest input changes", lemma_tamper_*)',
                    'Algorithm::name, Algorithm::from_name (lazy_static tables, HashMap keyed by Name): trusted stand-ins in prelude/tsig_alg.rs',
                    'LowercaseName conversions / Name::make_ascii_lowercase (unsafe box cast): trusted stand-in in prelude/tsig_name.rs',
                    'Rdata::validate_as_tsig is proved in unit rdata (C18); here its postcondition valid_tsig is a precondition of ReadTsigRr::try_from',
                    'Writer::finish_with_mac / set_tsig (how the signer is driven and the RR appended) belong to the writer units (C04/C12)',
                    'fmt::Debug / Display impls'],
        assumptions=['HMAC assumptions A1-A5 (prelude/tsig_hmac.rs)',
                     'every Name / LowercaseName handled is well-formed (Name::wf; LowercaseName additionally in canonical lower case)',
                     'std::time::SystemTime / Duration behave as the stand-in states (whole seconds since UNIX_EPOCH)'],
    ),
    # TSIG half of C10: merge into the server units' entry.
    'C10': dict(
        level='proof',
        level_text='TSIG half. Verus proves for the three TSIG helpers of src/server/mod.rs, over the RFC 8945 5.2 outcome of the tsig unit '
                   '(Accept / FormErr / BadSig / BadTime, exact and in that precedence): find_tsig_algorithm_or_write_error returns the algorithm '
                   'named (up to case) in the RR or answers NOTAUTH with an UNSIGNED TSIG carrying BADKEY; find_tsig_key_or_write_error returns the '
                   'secret exactly when the key name is configured with that algorithm, else NOTAUTH + unsigned BADKEY; '
                   'verify_tsig_and_write_tsig_rr returns true exactly on Accept and selects: Accept -> NOERROR, error 0, Response mode over the received '
                   '(possibly truncated) request MAC with the same algorithm and key; BadSig -> NOTAUTH, BADSIG, Unsigned (empty MAC); BadTime -> NOTAUTH, '
                   'BADTIME, Response mode (signed), time signed = the client\'s, other data = server time; FormErr -> FORMERR, BADSIG, Unsigned; every '
                   'response TSIG copies key name and original ID and uses fudge 300. Together with C11 (sign_response computes the RFC MAC over the '
                   'request MAC) this is the library side of "answered normally with a verifiable TSIG / otherwise no answer data".',
        level_note=_TSIG_TRUSTED + ' Writer::set_rcode / Writer::set_tsig are ASSUMED callee contracts (prelude/tsig_writer.rs; proved in units '
                   'writer_core / writer_finish); TsigKeyMap is a stand-in for HashMap<Box<Name>, _> (lookup by name up to ASCII case). '
                   'The `.unwrap()` after set_tsig is a PRECONDITION of the helpers (no TSIG pending, ARCOUNT < 65535, room for the TSIG RR): the '
                   'server cannot discharge it over UDP without EDNS (known finding D4, notes/demos/d4_tsig_unwrap.rs; proposed fix '
                   'notes/proposed_fixes/D4_tsig_unwrap.diff with the variant unit notes/proposed_fixes/D4_tsig_server_fixed.vrs).',
        verus=[dict(unit='tsig_server', which='all'), dict(unit='tsig', which='all'), dict(unit='tsig_rdata', which='all')],
        native=[dict(bin='bnd_server_tsig', when='quick',
                     bound='8 key/algorithm choices (3 configured keys, upper-case key / algorithm names, unknown key, configured key with the other algorithm, unknown algorithm) x 16 MAC edits (full, truncated to 0/1/9/10/15/16/19/20/21/31, one octet too long, bit flips, zeros) x 19 time offsets (inside/outside the fudge, +-65536, 0, 2^48-1) x fudge 300/30/65535 x original ID equal/different x EDNS yes/no x UDP/TCP; 4 more request kinds pruned; HMAC-SHA1 and HMAC-SHA256; system clock read per request, >= 50 s margin to the window edges',
                     what='real Server::handle_message with a key set against RFC 8945 5.2 (key, MAC length, MAC, time - in that order) computed with an independent HMAC: answered normally + verifiable response MAC; BADKEY/BADSIG with empty MAC; FORMERR for a MAC outside the allowed length; BADTIME signed; no answer data otherwise')],
        kani=[],
        cex={},
        unverified=['Server::handle_message_with_context TSIG branch (TSIG must be the last additional record, FORMERR on parse failure, order '
                    'algorithm -> key -> verify, early return, context.tsig_key): server units',
                    'that the query is answered "normally" after Accept and that Writer::finish signs it: server / writer units',
                    'SystemTime::now().try_into().expect(..): panics when the clock is before 1970 or after year 8.9 million (TimeSigned conversion '
                    'contract of unit tsig_rdata states exactly when)'],
        assumptions=['HMAC assumptions A1-A5', 'Writer::set_tsig / set_rcode contracts as proved by the writer units',
                     'std HashMap lookup finds the entry whose key is Eq to the probe (Name Eq/Hash coherence is C16)'],
    ),
}
