"""PROPS entries contributed by the validation_zonefile unit (from notes/agent_reports/validation_zonefile.md)."""
PROPS_PART = {
    'C21': dict(
        level='proof',
        level_text='Verus proves for every zone (no bound), over the abstract zone view of specs/zone.rs, that each of the nine functions of '
                   'src/db/zone/validation.rs does exactly what a declarative reference checker (specs/validation.rs, written from the property '
                   'text and RFC 1035 5.2 / 1034 / 4592) says: check_mx_address / check_apex_ns_address / check_glue / check_delegation_ns_address '
                   'insert exactly one defined issue or nothing (decision table incl. Narrow/Wide glue policy), scan_node adds exactly the node\'s '
                   'reference issues (none missed, none spurious, nothing removed), validate returns exactly the set {i | zone_issue(i)} each once, '
                   'fails with InvalidRdata exactly when an NS/MX RDATA it must read is not a name, and is_error is false exactly for the '
                   'MX-address and NS-at-wildcard issues.',
        level_note='Trusted: Verus/Z3; prelude/validation_zone.rs: the Zone trait as an interface with the contracts C06/C20 establish '
                   '(lookup_addrs ~ RFC 1034 4.3.2 resolve, soa/ns/name/class/glue_policy), iter_by_node ASSUMED to yield every node with exactly its '
                   'RRsets, HashSet as a mathematical set, Cow deref, Name::{is_wildcard,try_from_uncompressed_all,eq}, RdataSet::iter (non-empty). '
                   'Bodies extracted verbatim on every run.',
        verus=[dict(unit='zone_validation', which='all')],
        kani=[],
        native=[dict(bin='bnd_validation', when='quick',
                     bound='zones x classes IN, CH, 65280 x glue policies Narrow, Wide: (1) all zones of <= 7 records out of a 19-record universe (1-2 apex SOA; apex NS into the zone / below a delegation; name-server A, AAAA; two sibling delegations with NS into the child, the sibling, the parent, '
                           'out of the zone; glue for both; MX with exchanger covered by a wildcard A / a plain in-zone name; 1-2 CNAMEs + other data; NS at a wildcard); (2) all subsets of a 14-record universe of nested delegations '
                           '(d NS two labels below d / in the parent / in d; an NS RRset at sub.d - occluded when d is delegated - naming servers below itself, in sibling e, outside; glue at ns.sub.d, ns.d, ns.e; e NS below d / in e); '
                           '(3) all subsets of an 11-record universe of a zone whose APEX is the wildcard name *.ap.ex. (1-2 SOA, apex NS in / out of / beside the zone, its A/AAAA, a delegation + glue, a deeper wildcard owning NS, TXT)',
                     what='the SET of issues of the real Zone::validate on a real HashMapTreeZone == an executable reference checker written from the property text / RFC 1035 5.2 checks / GluePolicy documentation (on the flat-list zone model '
                          'of bounded/src/zone_ref.rs); is_error false exactly for MissingMxAddress and NsAtWildcard. Not constrained: order/multiplicity of issues, occluded MX (none), malformed NS/MX RDATA, wildcards owning NS that cover name servers; '
                          'for OCCLUDED NS RRsets the address/glue issues that exist under any reading of the GluePolicy documentation are allowed, never required (the documentation does not determine them)')],
        cex={},
        unverified=['that Zone::iter_by_node of the real HashMapTreeZone enumerates every node exactly (C20; assumed contract of the NodeIter stand-in)',
                    'provided trait methods Zone::soa / Zone::ns / Zone::validate (one-line wrappers) and fmt::Display for ValidationIssue',
                    'trait dispatch (Z: Zone is an interface with contracts, not the concrete HashMapTreeZone)'],
        assumptions=['the Zone implementation meets the lookup contracts of C06 (lookup_addrs agrees with RFC 1034 4.3.2 resolution of the abstract zone)',
                     'iter_by_node yields each node of the zone with exactly its RRsets',
                     'Name equality/hash = equality of case-folded labels (C16); wire_name = the C14 uncompressed-name parser',
                     'std HashSet/Cow behave as their stand-in contracts state'],
    ),

    'C24': dict(
        level='proof',
        level_text='Verus proves, for ARBITRARY answers of the tokenizer (any tokens, values, errors, EOF), that the zone-file parser code on top of it '
                   '(all 57 parser functions of src/zone_file/{mod,record,name,directive,character_string,escape}.rs) never panics and that: after next() '
                   'has yielded an error the flag is set and every later next() is None (Parser and RecordsOnly); parse_type never returns NULL, OPT or TSIG; '
                   'every RDATA accepted for (class,type) - RFC 3597 generic form through the explicit validator call, typed forms through the serializers - '
                   'satisfies the RFC wire-format predicate valid(class,type,.) that Rdata::validate decides; every owner / $ORIGIN / previous owner is a '
                   'well-formed absolute Name; hence every yielded record has absolute owner, permitted type and valid RDATA. TxtBuilder is verified here.',
        level_note='Partial correctness: termination is not proved and the 930-line tokenizer (reader.rs) is an opaque stand-in, so "total for any input bytes" '
                   'is NOT covered (a bounded Kani harness over 3 input octets did not finish within 900 s and was dropped). Trusted: Verus/Z3; prelude/zone_file_env.rs (Reader, std shims, NameBuilder result contract, Rc/Box '
                   'conversions); validator contracts from unit rdata and serializer contracts from unit rdata_ser (run as part of this check); '
                   'Rdata::new_in_wks is assumed valid. Rewrite rules ZF1-ZF6 (eta-expansions / checked closure annotations).',
        verus=[dict(unit='zone_file_records', which='all'), dict(unit='rdata', which='all'), dict(unit='rdata_ser', which='all')],
        native=[dict(bin='bnd_zone_file', when='quick',
                     bound='zone_file::Parser and Parser::records_only, each text read whole / 1 / 7 octets per read(): 2 contexts x 9 class tokens x 62 type tokens (mnemonics in any case, TYPEnnn for known / NULL / OPT / TSIG / unknown / malformed numbers) x 153 RDATA texts '
                           '(presentation forms of every supported type + RFC 3597 generic forms incl. \\# 0, wrong lengths, malformed-for-type); 28 preambles ($ORIGIN/$TTL/$INCLUDE valid, invalid, relative) x 16 owners x 20 TTL/class orders x 11 records + continuation line; '
                           'TXT RDATA of 65534..65537 octets in 4 shapes, generic \\# 65534..65537 for 7 types, fields of 65535..70000 octets in 43 positions, WKS with 65534..65537 ports, strings of 254..257, labels of 62..65, names of 252..257 octets; '
                           '4 multi-record zone texts x every prefix / 1-byte deletion / 1-byte substitution and insertion from 18 symbols; all byte strings of length <= 3 over 20 symbols; all sequences of <= 4 tokens over 16 tokens; '
                           'transient I/O errors: 5 multi-line zone texts read 1 / 7 octets / one line per read() from a stream whose k-th read() call fails once (io::ErrorKind::Other) and then '
                           'continues with the rest of the text, for every k up to the number of read() calls of the undisturbed parse',
                     what='on the real parser (tokenizer included): never panics, terminates (item cap 10000), yields nothing after its first error; every yielded record has a well-formed absolute owner, a type other than NULL/OPT/TSIG, '
                          'RDATA of <= 65535 octets valid per Rdata::validate(class, type) AND per the independent RFC layout reference bounded/src/wire_ref.rs. Which error is returned / how many records are yielded is not constrained')],
        kani=[],
        cex={},
        unverified=['termination and panic-freedom of the tokenizer src/zone_file/reader.rs and of zone_file/fs.rs for arbitrary input (the bounded Kani harness kani/zone_file.rs::bnd_zone_file_parser_3 timed out at 900 s and is not registered)',
                    'termination of the parser loops (they rely on the tokenizer consuming input)',
                    'Rdata::new_in_wks / serialize_in_wks (assumed to build valid WKS RDATA)',
                    'the FromStr text parsers behind Reader::read_field (u8/u16/u32/Class/Type/Ipv4Addr/Ipv6Addr) and the field-order semantics of parse_ttl_and_class'],
        assumptions=['Reader operations may return anything (no assumption)', 'NameBuilder::finish* returns a well-formed Name (C16)',
                     'Rdata::validate is Ok <==> valid_form (unit rdata)', 'Rdata::new_* build valid RDATA (unit rdata_ser; new_in_wks assumed)',
                     'caller-supplied $INCLUDE origin is a well-formed Name'],
    ),

}
