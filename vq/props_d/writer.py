"""PROPS entries contributed by the writer units (from notes/agent_reports/writer.md)."""
WRITER_UNITS = ['writer_core', 'writer_names', 'writer_rr', 'writer_ops', 'writer_finish', 'writer_ttlfix']
WRITER_TRUST = ('Trusted: Verus/Z3; ASSUMED contract of Writer::write_compressed_unhinted_name (nested closures / iterator adaptors, '
                'outside Verus; checked bounded by Kani bnd_write_compressed_*); stand-ins for Name accessors, Rdata::components '
                '(assumptions A1-A6 in prelude/writer_rdata.rs, incl. the RFC 3597 compressibility table), the TSIG signer '
                '(arbitrary MAC of the right size), NonZeroU16, to_be_bytes, Option::as_deref_mut, slice::fill; by-value receivers of '
                'finish/finish_with_mac stated for &mut self (signature only). Bodies extracted verbatim on every run.')


_BND_COMPRESS = [
    dict(harness='bnd_write_compressed_owner2_standard', module='writer', kind='bounded',
         bound='40-octet buffer; QNAME a.b. as the only prior name, compressee c.d. (record owner); fixed shapes, all label octets symbolic',
         tier='thorough', what='assumed contract of write_compressed_unhinted_name on the real code: decoded name == name (ASCII-case-insensitive), every pointer strictly backwards to a recorded label start of an earlier name, never longer than uncompressed, no panic'),
    dict(harness='bnd_write_compressed_owner1_standard', module='writer', kind='bounded',
         bound='as above with compressee c. (one label)', tier='thorough', what='same contract'),
    dict(harness='bnd_write_compressed_owner2_case_preserving', module='writer', kind='bounded',
         bound='as owner2, case-preserving mode (exact octets)', tier='thorough', what='same contract, exact case'),
]

PROPS_PART = {
    'C12': dict(
        level='proof',
        level_text='Verus proves for every Writer state satisfying the struct invariant (no bound on buffer, names, RDATA): every primitive '
                   'write has exactly the stated effect on the buffer and nothing else (try_push* fail exactly when the octets do not fit '
                   'below `available`, changing nothing); with_rollback restores cursor, section and all three compression anchors, so '
                   'every failed add_question/add_*_rr/add_*_rrset leaves every field as before; each successful operation appends exactly '
                   'one question / one RR / n RRs with the given TYPE, CLASS, TTL, an RDLENGTH equal to the RDATA extent (RDATA verbatim '
                   'for types without embedded names) and bumps exactly its counter; an operation whose uncompressed encoding fits never '
                   'fails with Truncation; the finished length never exceeds the limit; finish writes the four counters and one OPT '
                   'record whose TTL field carries the upper eight bits of the extended RCODE (set/get round trip up to 4095). '
                   'Name compression proper is an assumed contract, checked bounded by Kani.',
        level_note=WRITER_TRUST,
        verus=[dict(unit=u, which='all') for u in WRITER_UNITS],
        kani=[dict(harness='full_opt_ext_rcode_roundtrip', module='writer', kind='complete', bound=None, tier='quick',
                   what='real by-value finish(): message = header + OPT carrying payload size and extended RCODE, for all sizes and all RCODEs <= 4095'),
              dict(harness='bnd_write_compressed_owner2_standard', module='writer', kind='bounded',
                   bound='40-octet buffer; QNAME a.b. as the only prior name, compressee c.d. (record owner); fixed shapes, all label octets symbolic',
                   tier='thorough', what='assumed contract of write_compressed_unhinted_name on the real code: decoded name == name (ASCII-case-insensitive), every pointer strictly backwards to a recorded label start of an earlier name, never longer than uncompressed, no panic'),
              dict(harness='bnd_write_compressed_owner1_standard', module='writer', kind='bounded',
                   bound='as above with compressee c. (one label)', tier='thorough', what='same contract'),
              dict(harness='bnd_write_compressed_owner2_case_preserving', module='writer', kind='bounded',
                   bound='as owner2, case-preserving mode (exact octets)', tier='thorough', what='same contract, exact case'),
              dict(harness='bnd_write_compressed_two_priors', module='writer', kind='bounded',
                   bound='40-octet buffer; QNAME a.b. and record owner c. as prior names, NS target d.e. as compressee inside RDATA; fixed shapes, all label octets symbolic',
                   tier='thorough', what='same contract with two prior names and compression inside RDATA; RDLENGTH matches the compressed RDATA')],
        cex={'writer_finish.finish_with_mac': [('writer', 'full_opt_ext_rcode_roundtrip')]},
        native=[dict(bin='bnd_writer', when='quick',
                     bound='operation sequences on a 400-octet buffer (P1-P3) / 16784-octet buffer (P4), x 3 compression modes, over 9 names (., ex., a.ex., A.EX., b.a.ex., B.A.ex., c., k.a.ex., d.ex.), 17 RDATA (A, NS, MX, SOA, CNAME, SRV, Chaosnet A, TXT, unknown type 65280), 5 RRsets of 2-3 records, hints used only as the API contract allows: P1 [question] + 1..2 records over 6 owners x 6 hints (None, Qname, MostRecentOwner, MostRecentNameInRdata, Explicit 0/1) x 11 RDATA, and + 3 records over 3 owners x 4 hints x 4 RDATA; P2 all sequences of <= 3 operations over a 32-operation menu (questions, records, RRsets, header setters, set_rcode, set_edns, set_extended_rcode 16/2048/4095/4096, set_tsig unsigned/BADTIME/HMAC-SHA256, update_time_signed, clear_rrs, set_limit, set_compression_mode, template round trip) and of 4 over 16 of them; P3 every sequence of <= 2 operations over 18 of them and of 3 over 7, re-run with EVERY limit 0..=final length (Writer::new limit, buffer size, set_limit before each later operation); P4 [question] + one filler record ending at offset 0x3fff-d, d in -2..=26, + all sequences of <= 3 of 10 record/RRset operations (names around and beyond the reach of a 14-bit pointer)',
                     what='public API of the real Writer; the finished message is decoded by an independent RFC 1035 decoder and compared with a model: header values, questions, records per section (header counts), '
                          'OPT (payload size, extended RCODE incl. >= 2048), TSIG record (last) are exactly those of the operations that returned Ok, in order; names exact in case-preserving/disabled mode, ASCII-case-insensitive in standard mode; '
                          'message ends after the last record; length <= limit in effect; Err(Truncation) only when the uncompressed encoding does not fit; removing a failed operation from the sequence changes nothing (no trace); no panic')],
        unverified=['Writer::write_compressed_unhinted_name: contract assumed in Verus, checked only within the Kani bounds',
                    'templates (into_template, try_from_template*, try_from_template_impl), TryFrom<&mut [u8]> for Writer, '
                    'HintedName::from_hint_pointer_vec*, HintPointerVec::{new,get}: not extracted',
                    'the per-operation contracts are not composed into one whole-message decoding theorem; add_rrset has no '
                    'no-spurious-truncation clause'],
        assumptions=['slice lengths <= isize::MAX', 'Rdata::components behaves as assumptions A1-A6 state (rdata units)',
                     'names passed in are valid Names (type invariant, established by the C14-verified constructors)',
                     'TSIG signer returns RDATA of the RFC 8945 length (TSIG units)'],
    ),
    'C13': dict(
        level='proof',
        level_text='Verus proves: HintPointer::new accepts exactly 1..=16383; every compression anchor the Writer keeps is in that range '
                   'and strictly before the cursor, and the QNAME anchor is the first octet of a label of the message (struct invariant, '
                   'kept by every write, header setter, rollback and clear_rrs); the hinted path writes exactly 0xc000|p for an '
                   'anchor/explicit hint p < cursor and only in standard mode (for Hint::Qname the target is thus a proved label start, '
                   'for Hint::Explicit by precondition); in Disabled mode, and for names of <= 2 octets, every name writer and add_rr '
                   'write the name verbatim (no pointer octet); RDATA of types without embedded names is copied verbatim. That '
                   'pointers of the heuristic scan target label starts of earlier names is checked on the real code by bounded Kani '
                   'harnesses only; the RFC 3597 classification table is an assumption on Rdata::components.',
        level_note=WRITER_TRUST,
        verus=[dict(unit='writer_names', which='all'), dict(unit='writer_rr', which='all', fns=['add_rr']), dict(unit='writer_core', which='all', fns=['with_rollback', 'clear_rrs', 'try_push'])],
        kani=list(_BND_COMPRESS),
        cex={},
        native=[dict(bin='bnd_writer_ptr', when='quick',
                     bound='operation sequences on a 400-octet buffer (P1-P3) / 16784-octet buffer (P4), x 3 compression modes, over 9 names (., ex., a.ex., A.EX., b.a.ex., B.A.ex., c., k.a.ex., d.ex.), 17 RDATA (A, NS, MX, SOA, CNAME, SRV, Chaosnet A, TXT, unknown type 65280), 5 RRsets of 2-3 records, hints used only as the API contract allows: P1 [question] + 1..2 records over 6 owners x 6 hints (None, Qname, MostRecentOwner, MostRecentNameInRdata, Explicit 0/1) x 11 RDATA, and + 3 records over 3 owners x 4 hints x 4 RDATA; P2 all sequences of <= 3 operations over a 32-operation menu (questions, records, RRsets, header setters, set_rcode, set_edns, set_extended_rcode 16/2048/4095/4096, set_tsig unsigned/BADTIME/HMAC-SHA256, update_time_signed, clear_rrs, set_limit, set_compression_mode, template round trip) and of 4 over 16 of them; P3 every sequence of <= 2 operations over 18 of them and of 3 over 7, re-run with EVERY limit 0..=final length (Writer::new limit, buffer size, set_limit before each later operation); P4 [question] + one filler record ending at offset 0x3fff-d, d in -2..=26, + all sequences of <= 3 of 10 record/RRset operations (names around and beyond the reach of a 14-bit pointer)',
                     what='same enumeration as bnd_writer; every name field of the finished message is walked: each compression pointer points strictly backwards to the first octet of a label of a name completed earlier '
                          '(never into the header, never forward, never at a pointer); no pointer inside SRV / Chaosnet A / TSIG / unknown-type RDATA (unknown-type RDATA verbatim); none in names written while compression was disabled')],
        unverified=['"target is the first octet of a label of an earlier name" is a Verus invariant for the QNAME anchor only; the owner / '
                    'RDATA anchors are only proved to be in range and before the cursor (RDLENGTH back-patching, see report); covered for the '
                    'compression scan by bounded Kani, for explicit hints by the API precondition hint_ok',
                    'component classification (SRV target, Chaosnet A, unknown types uncompressible): assumed (A4), not derived from src/rr/rdata'],
        assumptions=['hints obey the API contract (Hint::Explicit pointers come from this message)'],
    ),
    'C04': dict(   # writer part; merge with the server part
        verus=[dict(unit='writer_core', which='all', fns=['new', 'set_limit', 'try_push', 'set_edns', 'clear_rrs']),
               dict(unit='writer_finish', which='all', fns=['set_tsig', 'finish', 'finish_with_mac'])],
        level_text_writer='Writer part: limit = min(requested, buffer) at creation, set_limit clamps to [written + reserved, buffer]; wf gives '
                          'cursor <= available <= limit with limit - available exactly the OPT/TSIG reservations, so finish() <= limit always; '
                          'clear_rrs keeps the reservations.',
        unverified=['server part (transport limits, TC handling, UDP == TCP when it fits: 2-safety)'],
    ),
    'C02': dict(   # writer part; merge with the server part
        verus=[dict(unit='writer_core', which='all', fns=['change_section_to_answer', 'change_section_to_authority', 'clear_rrs', 'set_edns']),
               dict(unit='writer_rr', which='all'), dict(unit='writer_ops', which='all'),
               dict(unit='writer_finish', which='all')],
        level_text_writer='Writer part: sections only advance (OutOfOrder exactly otherwise); each successful add bumps exactly its counter by the '
                          'number of RRs appended, each RR with RDLENGTH == its RDATA extent; set_edns/set_tsig succeed at most once and count '
                          'themselves in ARCOUNT; finish writes the counters, emits exactly one OPT (if EDNS) directly after the records and the '
                          'TSIG RR (if any) as the last record, ending at the returned length.',
        unverified=['"decodes completely under an independent decoder" for whole responses: needs the server units and the assumed compression contract'],
    ),

}
