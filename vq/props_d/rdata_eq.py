"""PROPS entries contributed by the rdata_eq unit (from notes/agent_reports/rdata_eq.md)."""
PROPS_PART = {
    'C19': dict(
        level='proof',
        level_text='Verus proves, for every class, type and pair of octet strings (no bound, no precondition), that Rdata::equals, '
                   'names_equal and each equals_as_* return exactly the reference rd_eq (octet equality, except that the name fields of '
                   'NS/MD/MF/CNAME/MB/MG/MR/PTR, SOA, MINFO, MX, CH A and IN SRV compare ASCII-case-insensitively when both RDATA are '
                   'well formed, octet-wise otherwise); that rd_eq is reflexive, symmetric and transitive (pure lemmas); that '
                   'RdataSetOwned::insert on a well-formed length-prefixed buffer leaves exactly '
                   'if exists i. rd_eq(old[i], x) {old} else {old.push(x)} as the whole member list, that Iter::next yields the '
                   'members in order, and that from_iter (instantiated with Vec<&Rdata>) computes the fold of that insertion, whose '
                   'result has one member per equality class of the input.',
        level_note='Trusted: Verus/Z3; Name == Name as case-insensitive equality of wire forms (iterator-adaptor body, C16), Box<Name> == '
                   'forwarding; u16 native-endian round trip; &[u8] -> &[u8;2] conversion; the two unsafe repr(transparent) casts '
                   '(Rdata::from_unchecked, RdataSetOwned::deref); existence of an Rdata for every octet string <= 65535; contracts of '
                   'src/name/wire.rs (unit name_wire). Set operations require rdata.len() <= 65535 (Rdata constructor invariant).',
        verus=[dict(unit='rdata_eq', which='all'), dict(unit='rdata_set', which='all')],
        kani=[dict(harness='bnd_from_iter_bitwise_first_of_class', module='rdata_eq', kind='bounded',
                   bound='2 RDATA of 1 octet, type A (octet-wise)', tier='thorough',
                   what='generic RdataSetOwned::from_iter + Iter on the real crate: first of each class, in order, nothing else')],
        native=[dict(bin='bnd_rdata_set', when='quick',
                     bound='19 (class,type) targets (NS MD MF CNAME MB MG MR PTR, NS in CH, MX, SOA, MINFO, SRV in IN, A in CH; octet-wise: A in IN, TXT, AAAA, TYPE65280, TYPE257 in CH) x universes of 15-20 short RDATA strings '
                           '(names in both letter cases, + trailing junk, cut short, empty, compression pointer, root, non-letters 0x20 apart, differing fixed fields): all pairs, all triples, all member sequences of length <= 4',
                     what='real Rdata::equals == reference (octet-wise; embedded names ASCII-case-insensitively iff BOTH RDATA are well formed for the type layout) on every pair; reflexive/symmetric/transitive on the universe; '
                          'RdataSetOwned::from_iter and From<&Rdata>+insert keep, in insertion order, exactly the first member of each class; insert returns whether new; from_iter of nothing is None')],
        cex={'rdata_eq.names_equal': [('rdata_eq', 'cex_equals_ns_symmetric')]},   # slow: ~540 s to the counterexample, >600 s when there is none
        unverified=['RdataSetOwned::from_iter for iterator types other than Vec<&Rdata> (body is parametric; arbitrary iterators may not terminate)',
                    'bodies of the unsafe casts Rdata::from_unchecked and <RdataSetOwned as Deref>::deref',
                    'impl PartialEq for Name (iterator adaptor chain) - assumed equal to ci_eq of the wire forms',
                    'ToOwned/Debug/Borrow/AsRef impls of RdataSet(Owned) (forwarders)'],
        assumptions=['Rdata values are at most 65535 octets long (TryFrom constructors check it; from_unchecked is pub(super))',
                     'u16::from_ne_bytes(x.to_ne_bytes()) == x',
                     'types with embedded names not known to the crate (RP, AFSDB, ...) are outside the property: compared octet-wise'],
    ),

}
