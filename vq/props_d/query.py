"""PROPS entries contributed by the query units (from notes/agent_reports/query.md)."""

QUERY_UNITS = ['query_helpers', 'query_addl', 'query_cname', 'query_answer']

QUERY_TRUST = ('Trusted: Verus/Z3; ASSUMED callee contracts: trait Zone (lookup / lookup_addrs / lookup_all / soa / name / class as C06/C20 prove them '
               'for HashMapTreeZone, stated over the abstract zone of specs/zone.rs; generic trait dispatch not modelled), the Writer operations '
               '(units writer_core / writer_ops, properties C12/C02), name::wire (C14); ASSUMPTION axiom_hints_recorded (compression hints recorded '
               'by add_*_rrset are label starts of the message: the C13 remainder, instantiated at the three call sites that pass a HintPointerVec); '
               'axiom_question_mark_from (the `?` operator converts with the verified From<writer::Error> impl); axiom_name_eq (Name == is equality of '
               'case-folded labels, C16); stand-ins for HintPointerVec::new, HintedName::from_hint_pointer_vec{,_opt}, Rdata::octets, '
               '<&Rdata>::try_from(&[u8]), Name::eq_or_subdomain_of, ArrayVec (incl. last/contains), Iterator::enumerate on the RDATA iterator, '
               'Ttl::min (derived Ord), slice->array conversion, Cow deref. Rewrites: RQ1 (octets accessor renamed), RQ2 (slice->array shim), '
               'RQ3 (closure body hoisted in front of execute_allowing_truncation: Verus has no closures capturing &mut; tied to the callee body by an '
               'anchor), RQ4 (closure annotation, checked). Bodies extracted from /repo on every run.')

PROPS_PART = {
    'C05': dict(
        level='proof',
        level_text='Verus proves for every abstract zone, QNAME inside it, QTYPE and Writer state (no bound) the answer-construction half of '
                   'src/server/query.rs against an RFC 1034 4.3.2 / RFC 2308 / RFC 6604 oracle: the dispatch table of answer / answer_any '
                   '(Found: AA, the RRset in ANSWER, additional-section processing; CNAME: AA, the chain; referral: AA untouched, NS RRset in '
                   'AUTHORITY, glue; NODATA: AA, RCODE untouched, negative SOA; NXDOMAIN: RCODE 3, AA, negative SOA; ANY: every RRset of the node '
                   'once, negative SOA when none; the wrong-zone panic sites are unreachable; source of synthesis recorded); CNAME chains '
                   '(at most 8 links, a repeated owner incl. QNAME or a ninth link or a malformed target never yields Ok, termination, ArrayVec '
                   'capacity never exceeded, RCODE of the last lookup: NXDOMAIN / untouched, exact ANSWER/AUTHORITY record counts on success, '
                   'later lookups checked and in the same zone); referrals (NS in AUTHORITY, in-bailiwick glue mandatory and complete on Ok, '
                   'other addresses optional); negative answers (apex SOA in AUTHORITY with TTL = min(RRset TTL, MINIMUM); read_soa_minimum total, '
                   'ServFail on malformed or missing SOA); additional-section processing for NS/MB/MD/MF/MX/SRV targets in record order; response '
                   'header bits other than AA/RCODE, the question section and the Writer invariant are preserved; no index/slice/unwrap/arith panic.',
        level_note='Whole-response equality with an independent resolver holds only compositionally: this dispatch (over lookup_spec outcomes) '
                   'o zone lookups (C06) o writer operations (C12, which do not expose the owner name of add_*_rrset nor compressed name content). '
                   + QUERY_TRUST,
        verus=[dict(unit=u, which='all') for u in QUERY_UNITS] + [
               # the zone lookups the answers are computed from (property C06's unit; C05 quantifies over any catalog)
               dict(unit='zone', which='all', fns=['lookup', 'lookup_addrs', 'lookup_all', 'lookup_base', 'lookup_impl']),
               dict(unit='server_query_dispatch', which='all', fns=['handle_query', 'handle_non_axfr_query'])],
        native=[dict(bin='bnd_zone', when='quick', bound='see C06: all 2^15 subsets of a 15-record universe x 29 query names x 8 types x options', what='the zone lookups that answers are computed from, against an independent RFC 1034/4592 reference (stand-in shared with C06)'),
                dict(bin='bnd_server_answers', when='quick',
                     bound='64 variants (6 toggles) of a ~75-record zone ap.ex. (alone in a SingleZoneCatalog / with a child zone two labels below an entry-less node, a child zone at the delegation and a class-CH zone in a HashMapTreeCatalog) and a zone bg. with RRsets/referrals overflowing 512/1232 octets (queries to bg. also TSIG-signed) x every owner name, a child of each, 30-38 extra names (mixed case, outside) x 10 QTYPEs (A NS CNAME SOA MX TXT AAAA SRV ANY TYPE257) x QCLASS IN (+CH) x EDNS none/1232/4096/600 x TCP + UDP with response buffers of 1232/65535/70000 octets',
                     what="RCODE, AA and answer/authority/additional sections (multisets of owner-lowercased RRs, RDATA decompressed) of the real server's TCP responses against a reference resolver over a flat record list (RFC 1034 4.3.2, RFC 4592 incl. empty-non-terminal wildcards, RFC 6604, <= 8 CNAME links / loops -> SERVFAIL, referral glue, NS/MX/SRV target addresses incl. AAAA-only targets, negative TTL = min(SOA TTL, MINIMUM)); optional points (additionals for ANY, below cuts, wildcard-synthesized) accepted both ways")],
        kani=[],
        cex={},
        unverified=['handle_message / handle_message_with_context (server units, C03/C08); the precondition at_or_below(labels(qname), zone apex) of answer/answer_any is proved in handle_query (unit server_query_dispatch)',
                    'owner names and compressed name content of the RRs written: not exposed by the writer contracts for add_*_rrset (C12/C13)',
                    'equality of whole response sections (as multisets) with an independent end-to-end resolver: compositional only',
                    'the reverse direction "Err(ServFail) only for loop / ninth link / malformed data / writer error" is not stated for CNAME chains',
                    'HintPointerVec::{new,get}, HintedName::from_hint_pointer_vec{,_opt}: stand-ins (not extracted by the writer units either)'],
        assumptions=['Zone trait methods satisfy the C06/C20 contracts (proved for HashMapTreeZone in unit zone); names handed out by a zone are valid Names',
                     'compression hints recorded by the Writer into a HintPointerVec are label starts of the message (C13 remainder)',
                     'Name equality is equality of case-folded label sequences (C16)',
                     'execute_allowing_truncation invokes its FnOnce argument exactly once, first thing (rewrite RQ3; tied to its body by an anchor)'],
    ),
    'C04': dict(   # query part; merge with the writer part and the server part
        verus=[dict(unit='query_helpers', which='all', fns=['execute_allowing_truncation', 'from', 'add_additional_addresses']),
               dict(unit='query_addl', which='all', fns=['do_referral', 'do_additional_section_processing'])],
        level_text_query='Query part: only writer::Error::Truncation becomes ProcessingError::Truncation (every other writer error is ServFail); '
                         'execute_allowing_truncation swallows exactly Truncation; in do_referral it is applied only to name servers outside the '
                         'delegated zone - an error (Truncation included) while adding in-bailiwick glue is returned, and Ok means every glue RRset '
                         'found was written completely; Truncation reported by do_referral comes from the NS RRset or from glue, never from optional '
                         'additionals; do_additional_section_processing never reports Truncation; every failed add_*_rrset is rolled back.',
        unverified=['TC bit / clear_rrs handling in handle_non_axfr_query (server units)',
                    'UDP response == TCP response whenever it fits (2-safety)'],
    ),
}
