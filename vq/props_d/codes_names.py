"""PROPS entries contributed by the codes_names units (from notes/agent_reports/codes_names.md)."""

PROPS_PART = {
    'C17': dict(
        level='proof',
        level_text='Kani decides every clause on the real crate: Opcode/Rcode::try_from(u8) accept exactly 0..16 and Rcode::try_from(ExtendedRcode) '
                   'exactly values below 16 (loop-free, full domain); for every one of the 65536 values Display->FromStr of Type, Class, Qtype and Qclass '
                   'returns the value (real core::fmt and u16::from_str, unwinding assertions on); TYPEnnn/CLASSnnn (any case of the prefix, leading zeros) '
                   'parse to n for every 16-bit n and fail above; every mnemonic in every mix of upper and lower case parses to its code. '
                   'Verus unit dns_types proves the numeric conversions deductively as well.',
        level_note='The four *_mnemonic_any_case harnesses FAIL on the current code (defect D9: `match Caseless(text) { Caseless("NS") => ..}` is a '
                   'structural, case-sensitive match; "ns".parse::<Type>() is Err) and pass with notes/proposed_fixes/C17_caseless.diff. '
                   'The two bnd_*_fromstr_exact_len10 harnesses (exactness of from_str on every ASCII string <= 10 octets) are bounded and go beyond the property. '
                   'Trusted: Kani/CBMC, rustc MIR of core::fmt / core::num as compiled by Kani.',
        verus=[dict(unit='dns_types', which='all')],
        kani=[
            dict(harness='full_opcode_try_from_u8', module='codes', kind='complete', bound=None, tier='quick', what='Opcode::try_from(u8) is Ok exactly for 0..16 and keeps the value (all 256 inputs)'),
            dict(harness='full_rcode_try_from_u8', module='codes', kind='complete', bound=None, tier='quick', what='Rcode::try_from(u8) is Ok exactly for 0..16 and keeps the value (all 256 inputs)'),
            dict(harness='full_rcode_try_from_extended', module='codes', kind='complete', bound=None, tier='quick', what='Rcode::try_from(ExtendedRcode) is Ok exactly below 16; ExtendedRcode<->u16 identity (all 65536)'),
            dict(harness='full_extended_from_rcode_roundtrip', module='codes', kind='complete', bound=None, tier='quick', what='ExtendedRcode::from(Rcode) is below 16, same value, narrows back to the same Rcode'),
            dict(harness='full_ttl_from_u32_clamp', module='codes', kind='complete', bound=None, tier='quick', what='Ttl::from(u32): top bit set reads as 0, else identity (all 2^32)'),
            dict(harness='full_u16_wrappers_identity', module='codes', kind='complete', bound=None, tier='quick', what='Type/Class/Qtype/Qclass <-> u16 and TYPE<->QTYPE, CLASS<->QCLASS conversions keep the code (all 65536)'),
            dict(harness='full_type_mnemonic_any_case', module='codes', kind='complete', bound='20 mnemonics x every case mask', tier='quick', what='[C17.mnemonic_ci] every TYPE mnemonic in every case mix parses to its code (FAILS today: D9)'),
            dict(harness='full_class_mnemonic_any_case', module='codes', kind='complete', bound='3 mnemonics x every case mask', tier='quick', what='[C17.mnemonic_ci] CLASS mnemonics (FAILS today: D9)'),
            dict(harness='full_qtype_mnemonic_any_case', module='codes', kind='complete', bound='26 mnemonics x every case mask', tier='quick', what='[C17.mnemonic_ci] QTYPE mnemonics incl. the TYPE ones (FAILS today: D9)'),
            dict(harness='full_qclass_mnemonic_any_case', module='codes', kind='complete', bound='6 mnemonics x every case mask', tier='quick', what='[C17.mnemonic_ci] QCLASS mnemonics incl. the CLASS ones (FAILS today: D9)'),
            dict(harness='full_type_rfc3597_every_value', module='codes', kind='complete', bound='"TYPE" in any case + 1..=6 digits', tier='thorough', what='[C17.rfc3597] TYPEn parses to n for every n <= 65535 (leading zeros too) and fails above, via Type and Qtype'),
            dict(harness='full_class_rfc3597_every_value', module='codes', kind='complete', bound='"CLASS" in any case + 1..=5 digits', tier='thorough', what='[C17.rfc3597] CLASSn likewise, via Class and Qclass'),
            dict(harness='full_type_display_fromstr_roundtrip', module='codes', kind='complete', bound=None, tier='thorough', what='[C17.roundtrip] parse(render(Type(v))) == v for all 65536 v (real core::fmt)'),
            dict(harness='full_class_display_fromstr_roundtrip', module='codes', kind='complete', bound=None, tier='thorough', what='[C17.roundtrip] same for Class'),
            dict(harness='full_qtype_display_fromstr_roundtrip', module='codes', kind='complete', bound=None, tier='thorough', what='[C17.roundtrip] same for Qtype'),
            dict(harness='full_qclass_display_fromstr_roundtrip', module='codes', kind='complete', bound=None, tier='thorough', what='[C17.roundtrip] same for Qclass'),
            dict(harness='bnd_class_fromstr_exact_len10', module='codes', kind='bounded', bound='every ASCII string <= 10 octets', tier='thorough', what='Class/Qclass::from_str(s) equals the reference (mnemonic | CLASSnnn | error) - exactness (needs the D9 fix)'),
            dict(harness='bnd_type_fromstr_exact_len10', module='codes', kind='bounded', bound='every ASCII string <= 10 octets', tier='thorough', what='Type/Qtype::from_str(s) equals the reference - exactness (needs the D9 fix)'),
        ],
        cex={},
        native=[dict(bin='bnd_codes_text', when='quick',
                     bound='exhaustive: all 65536 values of TYPE, CLASS, QTYPE, QCLASS; all 2^n upper/lower-case spellings of every mnemonic the crate prints for a value or accepts '
                           'from the RFC lists (20 TYPE, 6 QTYPE, 4 CLASS, 3 QCLASS names)',
                     what='public Display/FromStr of Type, Class, Qtype, Qclass on the native build: Display->FromStr gives the value back; TYPEnnn (Type, Qtype) / CLASSnnn (Class, Qclass) '
                          'parse to nnn; every mnemonic parses case-insensitively and RFC mnemonics denote the RFC value; no panic. Which strings are rejected is not constrained')],
        unverified=['from_str on non-ASCII strings and on strings longer than 10 octets other than the TYPEnnn/CLASSnnn and mnemonic forms (exactness only; every clause of the property is covered completely)',
                    'Display of Opcode, Rcode, ExtendedRcode (not part of the property)'],
        assumptions=['Kani 0.68 / CBMC 6.11 model the compiled core::fmt and core::num code faithfully'],
        kani_timeout=1800,
    ),

    'C16': dict(
        level='proof+bounded',
        level_text='Verus proves, for every input (no bound): NameBuilder::{new,try_push,try_push_slice,next_label,finish,finish_with_suffix} keep the '
                   'representation invariant, accept exactly when labels stay <= 63 octets, the name <= 255 octets and only the last label is null, '
                   'never overflow the 255/128 ArrayVec capacities, leave the state unchanged on error, and meet the safety contract of unsafe new_boxed_name '
                   'at both call sites; parse_escape equals the RFC 4343 2.1 escape reference; <Box<Name> as FromStr>::from_str returns exactly the name '
                   'a recursive RFC 1035 5.1 / RFC 4343 decoder assigns to the text and an error when that decoder rejects it. '
                   'Unit name_core proves, for every input, on the real struct Name { n_labels, data: [u8] } with the views wire()/offsets() DEFINED from data and the '
                   'representation invariant repr_ok (data = label offsets ++ valid wire form): Name::{len, label_offset(s), wire_repr, wire_repr_mut, wire_repr_to, wire_repr_from, '
                   'is_root, is_wildcard, labels, Index, IndexMut, superdomain, eq_or_subdomain_of, eq, partial_cmp, cmp, hash, make_ascii_lowercase, to_owned}, '
                   'Labels::{new, next, next_back, size_hint}, Label::{len, octets, octets_mut, is_null, null, is_asterisk, try_from, to_owned, eq, partial_cmp, cmp, hash}, '
                   'LabelBuf::{from_unchecked, try_from, deref, borrow, eq, partial_cmp, cmp, hash} and the LowercaseName conversions agree with a reference model over the '
                   'label sequence of wire(): eq is label-wise equality up to ASCII case and nothing else, cmp is the RFC 4034 6.1 canonical order (compared from the rightmost '
                   'label, labels as case-folded octet strings, shorter first), hash feeds length octet + case-folded octets of every label; proved lemmas: eq is an equivalence, '
                   'cmp == Equal iff eq, cmp is antisymmetric and transitive, eq names feed identical hash input; superdomain/to_owned meet the safety contract of unsafe '
                   'new_boxed_name; make_ascii_lowercase folds every label and keeps the invariant. Unit name_core_bridge proves that these contracts imply the contracts of the '
                   'trusted Name stand-ins used by the other units (given the type invariant wf() == repr_ok). '
                   'Kani decides on the real crate, complete by the 63-octet type bound: Label::eq is ASCII-case-insensitive octet equality, Label::cmp is the '
                   'RFC 4034 6.1 canonical label order (consistent with eq, antisymmetric), Label::hash feeds length + case-folded octets. '
                   'Bounded Kani (<= 3 labels x <= 2 arbitrary octets): Name eq/cmp/hash, eq_or_subdomain_of, superdomain, label access, wire_repr_to/from, '
                   'make_ascii_lowercase against a reference model (now also proved, see above); from_str against an independent decoder on every ASCII text <= 5 octets; Display->FromStr round trip.',
        level_note='Trusted: Verus/Z3, Kani/CBMC; prelude stand-ins for ArrayVec (incl. DerefMut, TryFrom<&[T]>), str::as_ref, u8::is_ascii(_digit), u8::to_ascii_lowercase, '
                   '<[u8]>::eq_ignore_ascii_case / make_ascii_lowercase, Ordering::is_ne, Option::filter, the Hasher stand-in VqHasher (octets fed); the unsafe bodies: new_boxed_name '
                   '(+ initialize_into, make_fat_pointer(_mut), size_required_for), Name::root, Label::from_unchecked(_mut), Label::asterisk, the repr(transparent) Box casts of LowercaseName '
                   '(contract of each: a value with exactly this layout / the same octets); rewrite rules R12, NB1, NB3, NC1-NC9 (iterator-adaptor chains of eq/cmp/eq_or_subdomain_of/'
                   'superdomain/Label::cmp/hash -> verified helper loops over the real Labels::next/next_back; closure normal form with Verus-checked ensures). In units name_builder/name_text '
                   'the Name/Label/Labels accessors are still used through stand-ins; name_core_bridge shows those stand-in contracts follow from the proved ones. '
                   'The Display (rendering) half is bounded, not proved.',
        verus=[dict(unit='name_builder', which='all'), dict(unit='name_text', which='all'), dict(unit='name_core', which='all'), dict(unit='name_core_bridge', which='all')],
        kani=[
            dict(harness='full_label_eq_is_ascii_ci', module='names', kind='complete', bound='labels <= 63 octets (type bound)', tier='quick', what='[C16.label_eq] Label::eq == same length and equal octets after folding A-Z'),
            dict(harness='full_label_hash_is_folded_octets', module='names', kind='complete', bound='labels <= 63 octets (type bound)', tier='quick', what='[C16.label_hash] hasher input == [len] ++ case-folded octets'),
            dict(harness='full_ref_label_order_laws', module='names', kind='complete', bound='labels <= 63 octets', tier='quick', what='reference order: cmp==Equal iff eq, antisymmetric (with cmp==reference and eq==reference this gives the laws for Label at 63)'),
            dict(harness='full_label_cmp_is_canonical', module='names', kind='complete', bound='labels <= 63 octets (type bound)', tier='thorough', what='[C16.label_cmp] Label::cmp == RFC 4034 6.1 reference; partial_cmp agrees (8 min under load)'),
            dict(harness='full_label_cmp_antisymmetric', module='names', kind='complete', bound='labels <= 63 octets (type bound)', tier='thorough', what='[C16.label_cmp] b.cmp(a) == a.cmp(b).reverse() (8 min under load)'),
            dict(harness='full_label_eq_implies_same_hash_input', module='names', kind='complete', bound='labels <= 63 octets (type bound)', tier='thorough', what='[C16.label_hash] a == b implies identical hasher input (direct form)'),
            dict(harness='bnd_label_cmp_is_canonical_16', module='names', kind='bounded', bound='labels <= 16 octets', tier='quick', what='[C16.label_cmp] Label::cmp == RFC 4034 6.1 reference'),
            dict(harness='bnd_label_cmp_equal_iff_eq_16', module='names', kind='bounded', bound='labels <= 16 octets', tier='quick', what='[C16.label_cmp] cmp==Equal iff eq'),
            dict(harness='bnd_label_cmp_antisymmetric_16', module='names', kind='bounded', bound='labels <= 16 octets', tier='quick', what='[C16.label_cmp] antisymmetry'),
            dict(harness='bnd_labelbuf_agrees_with_label_16', module='names', kind='bounded', bound='labels <= 16 octets', tier='thorough', what='LabelBuf eq/cmp/hash == those of the Label it holds'),
            dict(harness='bnd_name_eq_is_labelwise_ci', module='names', kind='bounded', bound='<= 3 labels x <= 2 arbitrary octets', tier='thorough', what='[C16.name_eq] Name::eq == same label count and pairwise ci-equal labels'),
            dict(harness='bnd_name_eq_or_subdomain_of', module='names', kind='bounded', bound='<= 3 labels x <= 2 arbitrary octets', tier='thorough', what='[C16.subdomain] eq_or_subdomain_of == label-suffix reference'),
            dict(harness='bnd_name_label_access', module='names', kind='bounded', bound='<= 3 labels x <= 2 arbitrary octets', tier='thorough', what='[C16.labels] len, wire_repr, Index, labels(), is_root, wire_repr_to/from == reference'),
            dict(harness='bnd_name_superdomain', module='names', kind='bounded', bound='<= 3 labels x <= 2 arbitrary octets', tier='thorough', what='[C16.superdomain] superdomain(skip) == labels from skip on / None (real allocation)'),
            dict(harness='bnd_name_from_str_matches_reference', module='names', kind='bounded', bound='every ASCII text <= 5 octets', tier='thorough', what='[C16.text_accepts] parse == independent RFC 1035/4343 decoder (real builder + unsafe allocation)'),
            dict(harness='bnd_name_make_ascii_lowercase', module='names', kind='bounded', bound='<= 3 labels x <= 2 arbitrary octets', tier='thorough', what='[C16.lowercase] folds label octets, structure untouched'),
            dict(harness='bnd_name_hash_is_folded_wire', module='names', kind='bounded', bound='<= 3 labels x <= 2 arbitrary octets', tier='thorough', what='[C16.name_hash] hasher input == case-folded wire form'),
            dict(harness='bnd_name_cmp_is_canonical', module='names', kind='bounded', bound='<= 3 labels x <= 2 arbitrary octets', tier='thorough', what='[C16.name_cmp] Name::cmp == RFC 4034 6.1 name order'),
            dict(harness='bnd_name_cmp_consistent_with_eq', module='names', kind='bounded', bound='<= 3 labels x <= 2 arbitrary octets', tier='thorough', what='[C16.name_cmp] cmp==Equal iff eq; antisymmetric'),
        ],
        cex={
            'name_text.name_from_str': [('names', 'bnd_name_from_str_matches_reference')],
            'name_text.parse_escape': [('names', 'bnd_name_from_str_matches_reference')],
            'name_builder.finish': [('names', 'bnd_name_from_str_matches_reference')],
        },
        native=[dict(bin='bnd_name_text', when='quick',
                     bound='982 names: all of <= 2 labels over 26 labels (case pairs, octets next to the letter ranges, ".", "\\", " ", "*", digits, escape look-alikes, 0x00 0x7f 0x80 0xff, '
                           '63-octet labels), all of 3 labels over 6 labels, 255-octet names (4 labels / 127 labels) and case variants; + 40 names whose labels contain binary octets equal to plausible length octets, next to the names whose wire form '
                           'is a raw-octet suffix of theirs (a\\007example.test. / example.test., \\004test. / test., x\\001a. / a., \\001a.b. / a.b., ...; case variants); + 19 names of 66..255 octets made of octets that are escaped in text '
                           '(0x00, 0xff, ".", "\\", 0x07, mixed; text forms up to 1004 characters, incl. exactly 255/256 characters); one by one and in all 964324 ordered pairs; '
                           '2105 texts at the limits (63/64-octet labels, 255/256-octet names, relative / empty-label forms, \\DDD for all 1000 three-digit values, the label/name/label-count limits written with \\DDD and \\X escapes, up to 1008 characters)',
                     what='public Name API on the native build vs a reference model over label lists: Display->FromStr gives the identical wire form and the text denotes the labels '
                          '(RFC 1035 5.1); text acceptance == reference; == iff labels equal ignoring ASCII case; equal names hash alike; cmp == RFC 4034 6.1 canonical order, '
                          'Equal iff ==; eq_or_subdomain_of == label suffix; labels/len/index/is_root/is_wildcard, superdomain(k), wire_repr_to/from, make_ascii_lowercase; no panic')],
        unverified=['body of unsafe fn new_boxed_name (trusted contract; exercised for real only by the bounded Kani harnesses)',
                    'Display for Label/Name (escaping through core::fmt): only the bounded round-trip harness',
                    'bodies of the unsafe pointer casts Label::from_unchecked(_mut), Label::asterisk, Name::root, LowercaseName <-> Name Box casts (trusted contracts in unit name_core)',
                    'impl AsRef<Name> / Borrow<Name> for Box<LowercaseName> (body `&self.0`; Verus cannot type an ensures on these impls), Clone for Box<Name> / Box<LowercaseName>, '
                    'the 64+64 macro-generated From<&[u8; N]> impls of Label/LabelBuf, FromStr for Box<LowercaseName>: not extracted',
                    'that every non-ASCII *string* is rejected needs one UTF-8 well-formedness fact about &str that is not formalised (the contract is stated over octets)'],
        assumptions=['slice lengths are <= isize::MAX (precondition of try_push_slice)',
                     'arrayvec::ArrayVec behaves as its stand-in contract states (incl. DerefMut and TryFrom<&[T]>)',
                     'Name::labels()/label_offsets()/Label::len()/octets() return what the wf() view says (checked bounded by bnd_name_label_access)',
                     'the empty string has no octets and "." is the only string whose UTF-8 form is the single octet 0x2E'],
        kani_timeout=3000,
    ),

}
