"""PROPS entries contributed by the rrl unit (from notes/agent_reports/rrl.md)."""
PROPS_PART = {
    'C26': dict(
        level='proof',
        level_text='Verus proves on the extracted body of Rrl::process_response that, for the entry e0 found at lock() and the entry e1 '
                   'left at release of the bucket selected by the stream key, and ANY elapsed time (nat nanoseconds, no bound): same key => '
                   'Send iff refill(e0.count, rate, whole seconds) < rate*window, e1.count = refill + (1 if sent), last_refill advanced by '
                   'exactly the whole seconds; hash collision => fresh bucket and Send; a limited response is slipped when slip==1 and '
                   'dropped (send_response=false) when slip==0; Slip sets TC and clears the RRs; nothing else in the Context changes; '
                   'RrlParams::new accepts iff every rate*window fits u32 and rate_and_limit_for_category never overflows; no panic.',
        level_note='refill/step are specs over nat (specs/bucket.rs). Trusted: stand-ins for Instant/Duration (nat ns, saturating '
                   'duration_since), Mutex (guard = &mut, lock never poisoned), RandomState::hash_one (uninterpreted h), Writer::clear_rrs/'
                   'set_tc/extended_rcode, Reader::opcode, rand. The random choice for slip>=2 is external (only Slip-or-Drop is proved). '
                   'Precondition: a NOERROR QUERY response being sent has a question (server invariant, not proved here).',
        verus=[dict(unit='rrl', which='all', labels=['C26.'], unlabelled=True)],
        kani=[dict(harness='full_rrl_params_new_accepts_iff_limits_fit', module='rrl', kind='complete', bound=None, tier='quick',
                   what='RrlParams::new (real crate) accepts iff all args non-zero and every rate*window fits u32, exact error otherwise; all u32^4')],
        cex={'rrl.process_response': [('rrl', 'cex_refill_mul_overflow'), ('rrl', 'cex_refill_wrapping_value')]},
        native=[dict(bin='bnd_rrl_streams', when='quick',
                     bound='16 request kinds (incl. header without question, BADVERS, opcode STATUS, TCP) x 2 sources x slip 0/1, three responses each; bursts of rate*window+4 requests for '
                           '(rate, window) in (1,1) (3,2) (2,5) (7,1) on a NOERROR, NXDOMAIN, REFUSED and FORMERR stream; ONE idle period of 2.1 s with window 1 s (rate 1 and rate 2^32-1); '
                           'plus the 49152 request pairs of C27',
                     what='Server::handle_message with RrlParams: slip 0 => a limited response is dropped; slip 1 => it is always sent with TC set and no answer/authority records and nothing but OPT '
                          'in the additional section, also when the request has no question; TCP / non-QUERY responses never withheld or truncated; a burst gets exactly rate*window responses; '
                          'after an idle period longer than the window a burst of 5 gets exactly rate*window = 1 response (judged only if the burst provably lies within the third second; '
                          'otherwise reported as skipped) and rate 2^32-1 neither panics nor withholds; other unexpected outcomes re-tried twice')],
        unverified=['slip >= 2: which limited responses are slipped (rand::thread_rng)',
                    'the precondition "subject && NOERROR && no source of synthesis => question is Some" at the call site src/server/mod.rs:224',
                    'Writer::clear_rrs / set_tc / extended_rcode and Reader::opcode are stand-in contracts here (writer/reader units)'],
        assumptions=['std Instant/Duration arithmetic as documented; an Instant not before the clock origin is representable',
                     'std Mutex: the guard is an exclusive borrow of the entry until it is dropped; lock() is not poisoned',
                     'derive(PartialEq) is structural equality'],
    ),
    'C27': dict(
        level='proof',
        level_text='Verus proves that the Key built by process_response is key_for(canonical source, category, lower-cased QNAME or source of '
                   'synthesis) and that two such keys are equal iff the sources are of the same family and share the configured /len prefix '
                   '(masking == equal leading bits, by bit_vector; IPv4-mapped IPv6 is turned into IPv4 by ReceivedInfo::new), the categories '
                   '(NOERROR / NXDOMAIN / everything else) agree and, for NOERROR only, the 32-bit hashes of the lower-cased name agree; '
                   'subject_to_rrl == (UDP && opcode QUERY && send_response) and a response that is not subject is left untouched.',
        level_note='Documented limitation (also in rrl.rs): streams are identified up to collisions of the 32-bit QNAME hash and of the bucket '
                   'index (hash % size); the contract is about Keys. Trusted: Name/Key Hash impls feed the lower-cased wire form / the fields '
                   'to the hasher; RandomState::hash_one is a deterministic function h; std IpAddr conversions are big-endian.',
        verus=[dict(unit='rrl', which='all', labels=['C27.'])],
        kani=[dict(harness='full_rrl_prefix_len_and_size_ranges', module='rrl', kind='complete', bound=None, tier='quick',
                   what='set_ipv4_prefix_len/set_ipv6_prefix_len/set_size (real crate) accept exactly len<=32 / len<=64 / size!=0, no shift panic; all u8, usize')],
        cex={},
        native=[dict(bin='bnd_rrl_streams', when='quick',
                     bound='ordered pairs of requests on a fresh server each: 16 request kinds (existing QNAME, other letter case, other type = NODATA, with EDNS, second QNAME, two names under one wildcard, '
                           'one under another, two non-existent names, a name outside the zones, EDNS version 1 = BADVERS for two QNAMEs, header without question = FORMERR, opcode STATUS, TCP) ^2 '
                           'x 8 sources (IPv4 same /24, other /24, IPv4-mapped, IPv6 same /56, other /56, IPv4-compatible) ^2 x 3 prefix configurations (24+56, 32+64, 8+32): 49152 pairs',
                     what='Server::handle_message with RrlParams (1 response per stream and window, slip 0): the second response is withheld iff both are UDP QUERYs from the same family and configured prefix '
                          '(IPv4-mapped = IPv4) with the same category - NOERROR: same QNAME ignoring case or same wildcard source of synthesis; NXDOMAIN; any other RCODE incl. extended ones, '
                          'taken from the response sent; unexpected outcomes re-tried twice on a fresh server (buckets refill after 1 s; 32-bit QNAME hash collisions)'),
                dict(bin='bnd_received_info', when='quick',
                     bound='IPv6 sources with octets 0..10 all zero (x all 2^16 values of octets 10..12) / exactly one of the 80 bits set / all ones (x 4 values of octets 10..12), '
                           'x 5 low words (1.2.3.4, 0.0.0.1, 127.0.0.1, 255.255.255.254, 0.0.0.0): 329k pairs of requests',
                     what='ReceivedInfo::new canonicalises exactly ::ffff:a.b.c.d to a.b.c.d, observed through the public API: Server::handle_message with RRL (empty catalog = REFUSED stream, '
                          '1 response per window, slip 0, /32 and /64 prefixes, 1 bucket): after a UDP query from a.b.c.d a UDP query from the IPv6 source goes unanswered iff it is IPv4-mapped; '
                          'TCP never limited; unexpected outcomes re-tried twice (bucket refills after 1 s)')],
        unverified=['impl Hash for Name / Label (case-insensitive hashing) is assumed through HashView (C16)',
                    'how the server fills Context.source_of_synthesis / question (lookup code, other units)'],
        assumptions=['hash collisions: equal 32-bit name hashes or equal bucket indexes merge / evict streams (documented behaviour)'],
    ),
    'C28': dict(
        level='proof',
        level_text='The token-bucket step of C26 is proved for the pair (entry at lock(), entry at release) of ONE acquisition of the bucket '
                   'mutex: a check-then-increment split over two acquisitions cannot satisfy the contract (a second lock() yields an unrelated '
                   'entry). Pure lemma lemma_concurrent_counting: n such steps on one stream, serialised by the mutex within one second of '
                   'the last refill, send exactly min(n, rate*window - c0) responses and count each sent response once.',
        level_note='Concurrency itself is ASSUMED: std Mutex gives mutual exclusion, so the critical sections of concurrent calls are '
                   'serialised; schedules are not explored. The lemma also assumes no colliding stream takes over the bucket in between.',
        verus=[dict(unit='rrl', which='all', labels=['C28', 'C26.step', 'C26.limit', 'C26.refill', 'C26.action_set', 'C26.send_unchanged', 'C26.drop_not_sent'])],
        native=[dict(bin='bnd_rrl_concurrent', when='quick', bound='4 s of rounds: 7 sequential + 4 threads x 2 concurrent requests on a fresh stream, rate 4, window 2, slip 0; rounds >= 0.9 s skipped', what='exactly min(requests, rate*window) responses are sent under real thread interleavings (probabilistic detector of lost/double updates; adapted from the demonstration of seeded change C28-4)')],
        kani=[],
        cex={},
        unverified=['thread schedules / memory model (Kani has no threads; Verus contract is per call)'],
        assumptions=['std::sync::Mutex mutual exclusion; no poisoning'],
    ),

}
