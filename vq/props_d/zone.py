"""PROPS entries contributed by the zone unit (from notes/agent_reports/zone.md)."""
PROPS_PART = {
    'C06': dict(
        level='proof',
        level_text='Verus proves, for every zone tree satisfying the store invariant (established by new, preserved by add), every name and '
                   'both options, that lookup_base/lookup_impl return exactly the outcome of a declarative RFC 1034 4.3.2 step 3 / RFC 4592 3.3 '
                   'oracle over the abstract zone (wrong-zone; referral at the TOPMOST cut with its NS RRset; the node itself incl. empty '
                   'non-terminals; the `*` child of the closest encloser with the source of synthesis reported; name error; cuts ignored when '
                   'searching below cuts), and that lookup / lookup_addrs / lookup_all derive from it the prescribed Found/Cname/NoRecords/'
                   'Referral/NxDomain/WrongZone answer with its TTL and RDATA payload; checked lookups reject names outside the zone; no '
                   'index/arithmetic panic.',
        level_note='`unchecked` lookups require the name to be in the zone (documented LookupOptions contract); under it the level subtraction '
                   'cannot underflow. Trusted: Verus/Z3; stand-ins for Name/Label (labels view, eq_or_subdomain_of, superdomain, Index), '
                   'HashMap<LabelBuf,_>::get, binary_search_by_key, RdataSet views; lookup_all\'s boxed iterator is a stand-in that yields '
                   'the node\'s RRset list (rewrite ZN7). Zone-trait methods are checked as inherent methods. Bodies extracted from /repo on every run.',
        verus=[dict(unit='zone', which='all', fns=['lookup', 'lookup_addrs', 'lookup_all', 'lookup_base', 'lookup_impl'])],
        kani=[],
        native=[dict(bin='bnd_zone', when='quick',
                     bound='all 2^15 zones that are subsets of a 15-record universe under one apex (apex SOA/NS, node with A x2/AAAA/TYPE257 + child, wildcard with A/CNAME and a record below it, '
                           'delegation + glue + a second occluded NS set deeper on the path, CNAME owner; mixed-case owners; <=3-record subsets also under a mixed-case apex) x 29 query names '
                           '(existing, empty non-terminal, wildcard-covered, below cuts, non-existent, mixed case, 6 outside the zone) x 8 types + lookup_addrs + lookup_all x search_below_cuts x checked/unchecked (unchecked only in-zone)',
                     what='public API of the real HashMapTreeZone vs an independent flat-list resolver written from RFC 1034 4.3.2 step 3 / RFC 4592 3.3 (bounded/src/zone_ref.rs): outcome kind, TTL + RDATA payload, '
                          'source of synthesis, topmost cut and its NS RRset, wrong-zone; also iteration/soa/ns of each zone. Not constrained: RDATA order, octet case of stored names, Cname vs Found-without-addresses for lookup_addrs at a CNAME-only node')],
        cex={},
        unverified=['trait dispatch through `dyn Zone`/generic `Z: Zone` and the provided default methods of trait Zone',
                    'the iterator object returned by lookup_all is not executed (stand-in: built from exactly the resolved node\'s RRset list)',
                    'octet case of stored node names (the view identifies names up to ASCII case, as DNS does)'],
        assumptions=['Name/Label stand-in contracts (C14/C16 subject): labels(), len>=1, Index in range, eq_or_subdomain_of == suffix test, '
                     'superdomain == labels.skip, Label::asterisk == "*"',
                     'HashMap<LabelBuf,V> behaves as a map keyed by the case-folded label',
                     'slice::binary_search_by_key as documented for a slice sorted by a total key function'],
    ),
    'C20': dict(
        level='proof',
        level_text='Verus proves that HashMapTreeZone::add returns Ok exactly when the owner is at or below the apex, the class equals the '
                   'zone\'s and the TTL equals that of the record\'s existing RRset (and which error otherwise); that a rejected add leaves the '
                   'whole abstract zone unchanged (no node is created); that an accepted add yields exactly the old zone plus the record, '
                   'with missing ancestors added as empty non-terminals and duplicates dropped (whole-view equality, invariant preserved); '
                   'that get_or_create_descendant changes only the path to the target; that RrsetList::add/lookup keep the sorted-by-type '
                   'invariant and find exactly the RRset of a type; that soa()/ns() are the apex entries of that same view; and that '
                   'Node::Iter::next terminates and performs one pre-order step on its work list (yield head, replace by its children), a '
                   'machine for which pure lemmas show every node incl. empty non-terminals is yielded exactly once when it stops.',
        level_note='iter_by_node / iter_by_rrset (Box<dyn Iterator>, closures, flat_map) are NOT verified: the iteration clauses are carried only '
                   'up to the Node::Iter step contract + walk lemmas; composing the steps into a full traversal is a meta-argument. '
                   '"Duplicate" is Rdata::equals (C19), uninterpreted here. Trusted: stand-ins for HashMap entry/or_insert_with (prophecy '
                   'reading of &mut), values()/Values::next with a fixed enumeration order, mem::replace, Vec::insert (vstd), RdataSetOwned::insert, '
                   'hand-expanded derive(Default/Ord) (bodies verified).',
        verus=[dict(unit='zone', which='all', fns=['add', 'get_or_create_descendant', 'new', 'iter', 'execute_state_machine', 'next', 'soa', 'ns', 'from', 'name', 'class', 'glue_policy', 'lookup'])],
        kani=[],
        native=[dict(bin='bnd_zone_add', when='quick',
                     bound='all add sequences of length <= 4 over a 20-record universe (accepted: new/nested owners creating empty non-terminals, mixed-case owners, duplicates, case-variant NS RDATA, TYPE257, wildcard, delegation + glue, CNAME; '
                           'rejected: owner above/beside the zone, class mismatch at an existing and at new deep owners, TTL mismatch for A and for TYPE257), each from a fresh zone (so every intermediate state is observed); '
                           'sequences of length <= 2 also under a mixed-case apex; after each: full iteration, soa/ns, checked lookups of 20 names x 6 types + addrs + all x search_below_cuts; '
                           'deep zones (iteration + soa/ns only): TXT records at every subset of the 8 leaves of the binary tree of depth 3 below the apex (x 4 runs, the hash-map order is random per zone) '
                           'and at every 29th subset (as a bit set) of the 16 leaves of depth 4, with and without records at the inner nodes; full trees (branches, depth) = (2,3) (2,4) (2,5) (3,3) (4,2) (3,4) '
                           'below the apex and below s.r.ap.ex. (with siblings sib.r.ap.ex., z.ap.ex.), 8 runs each',
                     what='public API of the real HashMapTreeZone vs a flat record list (bounded/src/zone_ref.rs): add Ok/Err (not the error kind) == owner at/below apex and class matches and TTL equals the existing RRset\'s; '
                          'iter_by_node yields every node once incl. empty non-terminals with exactly its de-duplicated RRsets; iter_by_rrset exactly those RRsets; soa()/ns() == apex SOA/NS; '
                          'all lookups equal the reference built from the ACCEPTED records only (a rejected add changes nothing, creates no node)')],
        cex={},
        unverified=['HashMapTreeZone::iter_by_node and iter_by_rrset (boxed dyn iterators over closures/flat_map) and RrsetList::iter: not extracted; '
                    '"iteration yields every node once and exactly the RRsets added" is proved only for the Node::Iter state machine step + pure walk lemmas',
                    'agreement of SOA/NS with iteration follows only through the common view, not through executed iterators',
                    'structural (not just view-level) equality of the tree after a rejected add; octet case of node names'],
        assumptions=['stand-ins of unit zone (prelude/zone_*.rs), see evidence trusted_base',
                     'Rdata::equals is an uninterpreted relation rdata_same (property C19)'],
    ),

}
