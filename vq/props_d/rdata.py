"""PROPS entries contributed by the rdata unit (from notes/agent_reports/rdata.md)."""
PROPS_PART = {
    'C18': dict(
        level='proof+bounded',
        level_text='Verus proves, for all octet strings (no bound, no precondition), that every RDATA validator '
                   '(helpers::validate_name, Rdata::validate_as_{in_a,ch_a,soa,in_wks,hinfo,minfo,mx,txt,in_aaaa,in_srv,opt,tsig}, '
                   'validate_character_string, validate_option) returns Ok exactly when the octets satisfy the wire format of the defining RFC '
                   '(specs/rdata.rs: RFC 1035 3.3/3.4, RFC 1034 3.6 CH A, RFC 2782, RFC 3596, RFC 6891 6.1.2, RFC 8945 4.2), that '
                   'Rdata::validate(class, type) is Ok exactly for valid_form(class, type, octets) (all 20 known pairs routed, everything else accepted), '
                   'and that every decompressing reader (helpers::read_name_rdata, Rdata::read_{ch_a,soa,minfo,mx,in_srv}) and '
                   'helpers::prepare_to_read_rdata are panic-free for ANY cursor and RDLENGTH, return Ok exactly when the reference reader read_spec '
                   '(names decoded by the RFC 1035 4.1.4 reference of C14 inside the message truncated at the end of the RDATA, fields filling RDLENGTH exactly) '
                   'delivers, return exactly its octets, and that these octets are valid uncompressed RDATA of at most 65535 octets; '
                   'UnexpectedEom exactly when cursor+RDLENGTH exceeds the message. '
                   'Unit rdata_ser: serialize_{in_a,ch_a,soa,hinfo,minfo,mx,in_aaaa,in_srv} append exactly the field layout and Rdata::new_* of the same types '
                   'return valid RDATA of their class/type (for valid Name / CharacterString arguments). '
                   'Unit rdata_comp: Rdata::components starts on the whole RDATA with the piece list of the format (RFC 3597 section 4 compressibility), and every '
                   'Components::next step yields a well-formed component whose octets are a prefix of what is left (partition), Err leaves the iterator unchanged. '
                   'The dispatch Rdata::read itself (function-local type aliases, fn-pointer closures, Cow: outside Verus) is checked by Kani on the real code, '
                   'bounded to messages of <= 6 octets with class, type, cursor and RDLENGTH unrestricted: each pair is routed to exactly the reader/validator '
                   'of its format with unchanged arguments, non-decompressed RDATA is borrowed as exactly message[cursor..cursor+rdlength] iff Rdata::validate accepts it.',
        level_note='Trusted: Verus/Z3, CBMC/Kani; prelude stand-ins: Rdata::from_unchecked / ToOwned for Rdata / TryFrom<Vec<u8>> for Box<Rdata> '
                   '(raw-pointer casts of [u8] to the repr(transparent) DST: "same octets", Vec conversion fails iff len > 65535), Name::wire_repr (view accessor), '
                   'be-bytes and slice->array shims, Ipv4Addr/Ipv6Addr::octets as opaque, Result::and; contracts of name::wire::* are taken from unit name_wire (C14, run as part of this check). '
                   'message.len() <= isize::MAX is a precondition of the readers (Rust allocation rule). '
                   'Write -> read round trip through the compressing writer is NOT covered.',
        verus=[dict(unit='rdata', which='all'), dict(unit='rdata_ser', which='all'), dict(unit='rdata_comp', which='all'), dict(unit='name_wire', which='all')],
        kani=[
            dict(harness='bnd_read_routing', module='rdata', kind='bounded',
                 bound='message <= 4 octets; class, type, cursor, RDLENGTH unrestricted; all readers and validators stubbed by recorders (loop-free)',
                 tier='quick', what='Rdata::read calls exactly the reader or validator prescribed for (class, type), with message/cursor/rdlength unchanged resp. exactly '
                                    'message[cursor..cursor+rdlength]; UnexpectedEom iff that range does not exist; callee verdict passed on; never panics'),
            dict(harness='bnd_read_dispatch', module='rdata', kind='bounded',
                 bound='message <= 6 octets, unwind 9; class, type, cursor, RDLENGTH unrestricted; decompressing readers stubbed, real validators',
                 tier='thorough', what='for pairs without decompression Rdata::read returns Cow::Borrowed(message[cursor..cursor+rdlength]) iff the range exists and '
                                       'Rdata::validate(class,type) accepts it (validate == RFC predicate by Verus); never panics'),
        ],
        cex={
            'rdata.prepare_to_read_rdata': [('rdata', 'cex_read_any_cursor_total')],
        },
        native=[dict(bin='bnd_rdata', when='quick',
                     bound='91 class/type pairs (the 20 known ones, class-specific types in 7 classes, unknown types); validate: 18964 RDATA strings = all strings of <= 4 octets '
                           'over {0,1,2,3,4,3f,40,c0,ff} + exemplars of every layout (13 name shapes incl. 63/64-octet labels and 255/256-octet names, character strings of 0/1/255 octets '
                           'and overlong, option lists, 12 TSIG shapes, 65535-octet TXT and OPT) each truncated at every length and extended by one octet; read: 1212 RDATA regions '
                           '(24 name shapes incl. pointers backwards/into a label/forwards/to itself/cut off, expansions to 255 and 256 octets) in a message with two earlier names x 3 continuations '
                           'x 6-10 cursor/RDLENGTH choices (exact, +-1, +-2, 0, 2, 6, shifted cursor), plus 5 messages x 21 cursors up to usize::MAX x 14 RDLENGTHs up to 65535 (5.1M cases); '
                           'long messages: a name at offset T in {255,256,257,511,512,513,768,1024,15872} and a chained name ("sub" + pointer to T) at T+256, every layout with names '
                           '(NS.., MX, SOA, MINFO, CH A, SRV) x 12 name shapes (pointer / label+pointer to T, T+256, T+8, plain, pointers one octet off, to itself) x 2 continuations x '
                           'RDLENGTH exact/+1/-1/-2 (2.2M cases)',
                     what='public Rdata::validate vs the RFC field layouts (bounded/src/wire_ref.rs): same verdict; public Rdata::read: no panic for any cursor/RDLENGTH, Err when the RDATA is not '
                          'inside the message, Ok only with RDATA the reference and validate accept, result equal to the reference reader (octets as they are / names decompressed; '
                          'refusing a compressed SRV target tolerated); error kinds not compared; write->read round trip not covered')],
        unverified=['Rdata::read body is not under a Verus contract (local `type` items, fn-pointer typed closures, Cow<Rdata>): its routing is covered by the bounded Kani harnesses '
                    'bnd_read_routing / bnd_read_dispatch, its callees by Verus; the composition "read == read_spec" for all message lengths is therefore argued, not machine-checked in one piece',
                    'write -> read round trip through the compressing Writer (with or without compression): planned as a bounded Kani harness, not done',
                    'serialize_in_wks / Rdata::new_in_wks (iterator chains), OptBuilder, serialize_tsig / Rdata::new_tsig / TimeSigned (TSIG unit), TxtBuilder (verified in the zone-file unit)',
                    'the unsafe pointer casts in Rdata::from_unchecked, ToOwned::to_owned, TryFrom<Vec<u8>> for Box<Rdata>, TryFrom<&[u8]> for &CharacterString (trusted stand-ins)',
                    'const-generic TryFrom<&[u8; N]> for &Rdata, Rdata::empty (one-line wrappers)'],
        assumptions=['slice lengths are <= isize::MAX (Rust allocation rule), stated as a precondition of the readers',
                     'std Vec::with_capacity / reserve / extend_from_slice / push, slice::get / split_first, Option::ok_or, Result::map_err behave as vstd specifies'],
    ),

}
