"""Properties whose statement spans several unit families: entries composed from the per-family
fragments (the `level_text_*` pieces come from notes/agent_reports/{writer,server,query}.md)."""

PROPS_PART = {
    'C04': dict(
        level='proof',
        level_text='Verus, three layers. Writer: limit = min(requested, buffer) at creation, set_limit clamps to [written + reserved, buffer]; '
                   'the invariant gives cursor <= available <= limit with limit - available exactly the OPT/TSIG reservations, so finish() <= limit '
                   'always; clear_rrs keeps the reservations. Server: handle_message creates the Writer with limit 512 (UDP) / 65,535 (TCP); the OPT '
                   'branch sets the UDP limit to clamp(requestor size, 512, server size) and never touches the TCP limit; nothing after the pre-scan '
                   'changes the limit; Truncation from answering => records dropped and UDP: TC set / TCP: SERVFAIL with AA clear; TC is only ever set '
                   'over UDP and then the response carries no records but OPT/TSIG. Query: only writer Truncation becomes ProcessingError::Truncation; '
                   'execute_allowing_truncation swallows exactly Truncation and in do_referral is applied only to name servers outside the delegated '
                   'zone - an error while adding in-bailiwick glue is returned; additional-section processing never reports Truncation; every failed '
                   'add_*_rrset is rolled back. NOT APPLICABLE part: "the UDP response is identical to the TCP response whenever it fits" relates two '
                   'executions (2-safety) and is not decided.',
        level_note='Trusted: as for C12 (writer units), C03/C08 (server units), C05 (query units); the assumed contract of '
                   'write_compressed_unhinted_name; Zone/Catalog trait stand-ins. The relational UDP==TCP clause is unverified.',
        verus=[dict(unit='writer_core', which='all', fns=['new', 'set_limit', 'try_push', 'set_edns', 'clear_rrs', 'set_tc', 'tc']),
               dict(unit='writer_finish', which='all', fns=['set_tsig', 'finish', 'finish_with_mac']),
               dict(unit='server_msg', which='all', fns=['handle_message', 'handle_message_with_context']),
               dict(unit='server_query_dispatch', which='all', fns=['handle_non_axfr_query']),
               dict(unit='query_helpers', which='all', fns=['execute_allowing_truncation', 'from', 'add_additional_addresses']),
               dict(unit='query_addl', which='all', fns=['do_referral', 'do_additional_section_processing'])],
        kani=[], cex={},
        unverified=['"UDP response identical to the TCP response whenever it fits, otherwise differing only by omitted optional additionals" (2-safety): not a single-run contract',
                    'final(response_buf) is not linked to the Writer buffer (see notes/agent_reports/server.md): byte-level statements are about any buffer satisfying finish\'s postcondition'],
        assumptions=['see C12, C03, C05'],
    ),
    'C02': dict(
        level='proof',
        level_text='Verus. Writer: sections only advance (OutOfOrder exactly otherwise); each successful add bumps exactly its counter by the number '
                   'of RRs appended, each RR with RDLENGTH equal to its RDATA extent; set_edns/set_tsig succeed at most once and count themselves in '
                   'ARCOUNT; finish writes the four counters, emits exactly one OPT (if EDNS) directly after the records and the TSIG RR (if any) as the '
                   'last record, ending at the returned length. Server/query: every response is produced by those operations only (scanning responses: '
                   'header + echoed question, no records; answers: the dispatch contracts of query.rs, each failed add rolled back). Names written are '
                   'valid names (Name invariant) or pointers per C13. NOT decided as one obligation: "decodes completely under an independent decoder" '
                   'for whole responses - it follows compositionally from these contracts plus the assumed compression contract (bounded Kani).',
        level_note='Trusted: as for C12/C13 (writer units incl. the assumed contract of write_compressed_unhinted_name), C03/C08 (server units), C05 (query units).',
        verus=[dict(unit='writer_core', which='all', fns=['change_section_to_answer', 'change_section_to_authority', 'clear_rrs', 'set_edns', 'new']),
               dict(unit='writer_rr', which='all'), dict(unit='writer_ops', which='all'), dict(unit='writer_finish', which='all'),
               dict(unit='server_msg', which='all', fns=['handle_message', 'handle_message_with_context']),
               dict(unit='query_answer', which='all'), dict(unit='query_addl', which='all'), dict(unit='query_cname', which='all')],
        kani=[], cex={},
        unverified=['whole-response decoding theorem (composition of the per-operation contracts)',
                    'write_compressed_unhinted_name: assumed contract, bounded Kani only (thorough tier of C12/C13)'],
        assumptions=['see C12, C13, C03, C05'],
    ),
}
