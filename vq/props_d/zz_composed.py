"""Properties whose statement spans several unit families: entries composed from the per-family
fragments (the `level_text_*` pieces come from notes/agent_reports/{writer,server,query}.md)."""

PROPS_PART = {
    'C04': dict(
        level='proof',
        level_text='Verus, three layers. Writer: limit = min(requested, buffer) at creation, set_limit clamps to [written + reserved, buffer]; '
                   'the invariant gives cursor <= available <= limit with limit - available exactly the OPT/TSIG reservations, so finish() <= limit '
                   'always; clear_rrs keeps the reservations. Server: handle_message creates the Writer with limit 512 (UDP) / 65,535 (TCP); the OPT '
                   'branch sets the UDP limit to clamp(requestor size, 512, server size) and never touches the TCP limit; nothing after the pre-scan '
                   'changes the limit; Truncation from answering => records dropped and UDP: TC set / TCP: SERVFAIL with AA clear; TC is only ever set '
                   'over UDP and then the response carries no records but OPT/TSIG. Query: only writer Truncation becomes ProcessingError::Truncation; '
                   'execute_allowing_truncation swallows exactly Truncation and in do_referral is applied only to name servers outside the delegated '
                   'zone - an error while adding in-bailiwick glue is returned; additional-section processing never reports Truncation; every failed '
                   'add_*_rrset is rolled back. NOT APPLICABLE part: "the UDP response is identical to the TCP response whenever it fits" relates two '
                   'executions (2-safety) and is not decided.',
        level_note='Trusted: as for C12 (writer units), C03/C08 (server units), C05 (query units); the assumed contract of '
                   'write_compressed_unhinted_name; Zone/Catalog trait stand-ins. The relational UDP==TCP clause is unverified.',
        verus=[dict(unit='writer_core', which='all', fns=['new', 'set_limit', 'try_push', 'set_edns', 'clear_rrs', 'set_tc', 'tc']),
               dict(unit='writer_finish', which='all', fns=['set_tsig', 'finish', 'finish_with_mac']),
               dict(unit='server_msg', which='all', fns=['handle_message', 'handle_message_with_context']),
               dict(unit='server_query_dispatch', which='all', fns=['handle_non_axfr_query']),
               dict(unit='query_helpers', which='all', fns=['execute_allowing_truncation', 'from', 'add_additional_addresses']),
               dict(unit='query_addl', which='all', fns=['do_referral', 'do_additional_section_processing'])],
        native=[dict(bin='bnd_server_answers', when='quick',
                     bound='64 variants (6 toggles) of a ~75-record zone ap.ex. (alone in a SingleZoneCatalog / with a child zone two labels below an entry-less node, a child zone at the delegation and a class-CH zone in a HashMapTreeCatalog) and a zone bg. with RRsets/referrals overflowing 512/1232 octets (queries to bg. also TSIG-signed) x every owner name, a child of each, 30-38 extra names (mixed case, outside) x 10 QTYPEs (A NS CNAME SOA MX TXT AAAA SRV ANY TYPE257) x QCLASS IN (+CH) x EDNS none/1232/4096/600 x TCP + UDP with response buffers of 1232/65535/70000 octets',
                     what='UDP length <= 512 / clamp(requestor size, 512, 1232) also with an oversized buffer; TCP never TC; TC => no records; complete (TCP) response fits => UDP response identical; otherwise a UDP response with TC clear has the same RCODE/AA/answer/authority, a sub-multiset of the additional records and all in-bailiwick glue (incl. a name server named like the delegated zone)')],
        kani=[], cex={},
        unverified=['"UDP response identical to the TCP response whenever it fits, otherwise differing only by omitted optional additionals" (2-safety): not a single-run contract',
                    'final(response_buf) is not linked to the Writer buffer (see notes/agent_reports/server.md): byte-level statements are about any buffer satisfying finish\'s postcondition'],
        assumptions=['see C12, C03, C05'],
    ),
    'C02': dict(
        level='proof',
        level_text='Verus. Writer: sections only advance (OutOfOrder exactly otherwise); each successful add bumps exactly its counter by the number '
                   'of RRs appended, each RR with RDLENGTH equal to its RDATA extent; set_edns/set_tsig succeed at most once and count themselves in '
                   'ARCOUNT; finish writes the four counters, emits exactly one OPT (if EDNS) directly after the records and the TSIG RR (if any) as the '
                   'last record, ending at the returned length. Server/query: every response is produced by those operations only (scanning responses: '
                   'header + echoed question, no records; answers: the dispatch contracts of query.rs, each failed add rolled back). Names written are '
                   'valid names (Name invariant) or pointers per C13. NOT decided as one obligation: "decodes completely under an independent decoder" '
                   'for whole responses - it follows compositionally from these contracts plus the assumed compression contract (bounded Kani).',
        level_note='Trusted: as for C12/C13 (writer units incl. the assumed contract of write_compressed_unhinted_name), C03/C08 (server units), C05 (query units).',
        verus=[dict(unit='writer_core', which='all', fns=['change_section_to_answer', 'change_section_to_authority', 'clear_rrs', 'set_edns', 'new']),
               dict(unit='writer_rr', which='all'), dict(unit='writer_ops', which='all'), dict(unit='writer_finish', which='all'),
               dict(unit='server_msg', which='all', fns=['handle_message', 'handle_message_with_context']),
               dict(unit='query_answer', which='all'), dict(unit='query_addl', which='all'), dict(unit='query_cname', which='all')],
        kani=[], cex={},
        native=[dict(bin='bnd_writer', when='quick',
                     bound='see C12 (operation sequences on the Writer incl. set_edns, set_tsig, clear_rrs, multi-record RRsets failing part-way at every limit)',
                     what='writer clauses of C02 on the real Writer: the finished message decodes completely under an independent RFC 1035 decoder, header counts match the questions/records present, '
                          'the message ends exactly after the last record, one OPT directly after the records, the TSIG record last; after clear_rrs nothing refers to discarded data'),
                dict(bin='bnd_server_scan', when='quick',
                     bound='tier A: 16 opcodes x QR x 3 flag sets x 3 values of the 4th header octet x (2 + 18 x 2) question variants (QDCOUNT 0/1/2; compressed, self-pointing, cut-off, 255/256-octet QNAMEs; QTYPE IXFR/AXFR/MAILB/MAILA/ANY; QCLASS ANY/CH) x 5 additional menus x trailing octet 0/1; tier B: 9 answer/authority layouts (A, OPT, TSIG) x every sequence of <= 2 additional records over a 32-item menu (plain/compressed/overrunning/cut records; OPT version 0/1/255, ext-rcode 0x80, DO, sizes 0..65535, non-root / self-pointing owner, broken option framing, overrunning RDLENGTH; TSIG unknown key/algorithm, class IN, TTL 5 / 0x80000000, malformed, compressed owner) and <= 3 over an 8-item menu x 4 opcode/question variants x count tweaks (ARCOUNT+1/-1/65535, ANCOUNT+1) x trailing octet; tier C: every prefix of the tier-B QUERY messages with <= 1 additional record (9 layouts) or 2 (no answer/authority records); tier D: TSIG key/algorithm names of 3..255 octets x 7 EDNS settings x 2 QNAMEs; tier E: 24 QNAMEs x 12 QTYPEs x 7 QCLASSes x 7 opcodes on a nested 3-class catalog; tier F: 23 names x 11 QTYPEs x 3 EDNS settings on zones with malformed RDATA / without SOA; each over UDP and TCP, exactly-sized and oversized response buffer, up to 9 servers (payload 512/1232/4096/65535, with/without keys, RRL off / never limiting / 1 per s)',
                     what='every response of the enumeration decodes completely under the independent decoder (wire_ref.rs/srv_ref.rs): counts match, message ends after the last record, names/pointers valid and backward, OPT at most once and in the additional section, TSIG last'),
                dict(bin='bnd_server_answers', when='quick',
                     bound='64 variants (6 toggles) of a ~75-record zone ap.ex. (alone in a SingleZoneCatalog / with a child zone two labels below an entry-less node, a child zone at the delegation and a class-CH zone in a HashMapTreeCatalog) and a zone bg. with RRsets/referrals overflowing 512/1232 octets (queries to bg. also TSIG-signed) x every owner name, a child of each, 30-38 extra names (mixed case, outside) x 10 QTYPEs (A NS CNAME SOA MX TXT AAAA SRV ANY TYPE257) x QCLASS IN (+CH) x EDNS none/1232/4096/600 x TCP + UDP with response buffers of 1232/65535/70000 octets',
                     what='every response (incl. truncated, SERVFAIL after a CNAME loop, TSIG-signed with a key name sharing labels with discarded RDATA names, RRsets failing part-way at the size limit) decodes completely under the independent decoder; '
                          'every compression pointer of every response points strictly backwards to the first octet of a label of an earlier name (srv_ref::pointer_check); responses of MORE THAN 16384 OCTETS: zone hg. with '
                          'big.hg. MX = 1020/1021/1022 records with exchange big.hg. + 2-4 exchanges sharing suffixes (out-of-zone a^L.uniq.zzz./b.uniq.zzz., in-zone a^L.uniq.hg./b.uniq.hg./B.UNIQ.hg., three labels deep '
                          'a^L.mid.uniq.zzz./b.uniq.zzz./c.b.uniq.zzz.), L = 18..=30 / 1..=24 / 1, 9 so that each label of the first of them lies on either side of offset 16384; over TCP without and with EDNS (234 responses)'),
                dict(bin='bnd_writer_ptr', when='quick',
                     bound='see C13 (same operation sequences as bnd_writer; P4: [question] + one filler record ending at offset 0x3fff-d, d in -2..=26, + all sequences of <= 3 of 10 record/RRset operations: names around and beyond the reach of a 14-bit pointer)',
                     what='"every name is well formed" on the real Writer: each compression pointer of the finished message points strictly backwards to the first octet of a label of a name completed earlier (never into the header, '
                          'never forward, never at a pointer); only counterexamples tagged [C02] count here (the clauses "no pointer inside SRV / Chaosnet A / unknown-type RDATA / when compression is disabled" are C13 only)')],
        unverified=['whole-response decoding theorem (composition of the per-operation contracts)',
                    'write_compressed_unhinted_name: assumed contract, bounded Kani only (thorough tier of C12/C13)'],
        assumptions=['see C12, C13, C03, C05'],
    ),
}
