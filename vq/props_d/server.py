"""PROPS entries contributed by the server units (from notes/agent_reports/server.md).
Drop into vq/props_d/server.py.  C03, C07, C08, C09 are complete entries; C01 is the
panic-freedom entry of the request-handling layer (its `verus` list names every unit whose
safety obligations it aggregates); C10 is the SERVER half (merge `verus` / `unverified` /
`assumptions` with vq/props_d/tsig.py); C04 is the server part (merge with the writer part)."""

SERVER_UNITS = ['server_msg', 'server_query_dispatch', 'server_tsig']

_SERVER_TRUSTED = (
    'Trusted: Verus/Z3. Reader and Writer operations are used through the contracts PROVED in units reader / writer_core / writer_ops / '
    'writer_finish (fragments included mode=assume; those units run as part of this check). ASSUMED callee contracts restated over this '
    'layer\'s vocabulary because the owning units\' environments cannot be loaded next to each other: TSIG reading side '
    '(prelude/server_tsig_standin.rs: ReadTsigRr::try_from / accessors / verify_request, Algorithm::from_name, PreparedTsigRr::new_from_read, '
    'algorithm-name facts) - proved in units tsig / tsig_rdata; Rrl::process_response (prelude/server_rrl.rs: response untouched, or records '
    'dropped + TC, or not sent) - proved in unit rrl; answer / answer_any: the contract text proved in unit query_answer (units/frag/query_answer_contract.vrs, mode=assume), precondition discharged in handle_query; Catalog::lemma_cview_keys (entries filed under their own name) - proved in unit catalog - proved in unit '
    'query_answer; Catalog::lookup = longest suffix (units/frag/server_db.vrs) - proved in unit catalog. std stand-ins (prelude/server_std.rs): '
    'RwLock read with a lock invariant (poisoning ignored), Arc clone/as_ref, SystemTime::now() within the 48-bit TSIG time range, '
    'TimeSigned::try_from(SystemTime), IpAddr opaque, TsigKeyMap as a partial function of the key name, Option::filter, Box<[T]>::from(&[T]); '
    'Name::is_root / LowercaseName::{to_owned, as_ref} (prelude/server_name.rs). Bodies extracted verbatim from /repo on every run; rewrites '
    'R3a (panic! -> unreachable obligation), R3c (expect -> unwrap), R4 (matches!), TS2 (tuple-pattern closure parameter).')

PROPS_PART = {
    'C03': dict(
        level='proof',
        level_text='Verus proves for every request octet string, both transports and every server configuration allowed by the API (no bound): '
                   'Server::handle_message returns Response::None when the request is shorter than 12 octets, has QR set or has QDCOUNT > 1; '
                   'otherwise the Writer state handed to Writer::finish has, in its first four octets, the request\'s ID, QR = 1, the request\'s opcode, '
                   'RD = (request RD and opcode QUERY), RA = 0, Z = 0 (hdr_echo) - established by the header copy in handle_message and preserved by '
                   'every later step (handle_message_with_context, handle_query, handle_non_axfr_query, the TSIG helpers, the rate limiter\'s '
                   'contract: only AA, TC and the RCODE nibble may change); a request with exactly one parseable question has that question '
                   '(decoded QNAME with its case, QTYPE, QCLASS) directly after the header with QDCOUNT = 1 (Writer::add_question with no prior '
                   'name writes the name verbatim), any other request QDCOUNT = 0; and whatever Writer::finish then writes (its proved contract) '
                   'shows exactly these octets (lemma_finished_bytes / bytes_plain).',
        level_note=_SERVER_TRUSTED + ' The link between the caller\'s `response_buf` after the call and the Writer\'s buffer is NOT machine-checked '
                   '(Writer contracts do not state that the inner `&mut [u8]` keeps its identity); the statement is about the Writer state passed to '
                   'finish and about every buffer satisfying finish\'s postcondition. "Octet-for-octet" is stated for the DECODED QNAME: a request '
                   'QNAME that itself uses compression pointers is echoed uncompressed.',
        verus=[dict(unit=u, which='all') for u in SERVER_UNITS]
              + [dict(unit='reader', which='all', fns=['try_from', 'id', 'qr', 'opcode', 'rd', 'qdcount', 'read_question', 'read_u16']), dict(unit='writer_core', which='all', fns=['new', 'id', 'set_id', 'qr', 'set_qr', 'opcode', 'set_opcode', 'rd', 'set_rd', 'ra', 'set_ra', 'aa', 'set_aa', 'tc', 'set_tc', 'rcode', 'set_rcode', 'write', 'write_u16']), dict(unit='writer_ops', which='all', fns=['add_question']),
                 dict(unit='writer_finish', which='all', fns=['finish', 'finish_with_mac']), dict(unit='name_wire', which='all'), dict(unit='dns_types', which='all')],
        native=[dict(bin='bnd_server_scan', when='quick',
                     bound='tier A: 16 opcodes x QR x 3 flag sets x 3 values of the 4th header octet x (2 + 18 x 2) question variants (QDCOUNT 0/1/2; compressed, self-pointing, cut-off, 255/256-octet QNAMEs; QTYPE IXFR/AXFR/MAILB/MAILA/ANY; QCLASS ANY/CH) x 5 additional menus x trailing octet 0/1; tier B: 9 answer/authority layouts (A, OPT, TSIG) x every sequence of <= 2 additional records over a 32-item menu (plain/compressed/overrunning/cut records; OPT version 0/1/255, ext-rcode 0x80, DO, sizes 0..65535, non-root / self-pointing owner, broken option framing, overrunning RDLENGTH; TSIG unknown key/algorithm, class IN, TTL 5 / 0x80000000, malformed, compressed owner) and <= 3 over an 8-item menu x 4 opcode/question variants x count tweaks (ARCOUNT+1/-1/65535, ANCOUNT+1) x trailing octet; tier C: every prefix of the tier-B QUERY messages with <= 1 additional record (9 layouts) or 2 (no answer/authority records); tier D: TSIG key/algorithm names of 3..255 octets x 7 EDNS settings x 2 QNAMEs; tier E: 24 QNAMEs x 12 QTYPEs x 7 QCLASSes x 7 opcodes on a nested 3-class catalog; tier F: 23 names x 11 QTYPEs x 3 EDNS settings on zones with malformed RDATA / without SOA; each over UDP and TCP, exactly-sized and oversized response buffer, up to 9 servers (payload 512/1232/4096/65535, with/without keys, RRL off / never limiting / 1 per s)',
                     what='no response for QR / short / QDCOUNT>1; otherwise ID and opcode echoed, QR set, RD copied only for QUERY, RA and the reserved bits (incl. AD/CD positions) zero, a parseable single question echoed octet-for-octet - compared with the reference walk srv_ref::expectation')],
        kani=[],
        cex={},
        unverified=['identity of the caller\'s response buffer with the Writer\'s buffer after Writer::new (needs prophecy-frame clauses on the Writer contracts)',
                    'Rrl::process_response, answer / answer_any: frame contracts assumed here, proved in units rrl / query_answer'],
        assumptions=['slice lengths <= isize::MAX', 'the response buffer meets the documented size requirement (caller contract of handle_message)'],
    ),
    'C07': dict(
        level='proof',
        level_text='Verus proves (no bound on catalog, names, request): a request that passes the pre-scan with an opcode other than QUERY gets '
                   'RCODE NOTIMP; a QUERY without question FORMERR; QTYPE 251-254 (IXFR, AXFR, MAILB, MAILA) or QCLASS ANY NOTIMP before the catalog is '
                   'consulted; otherwise Catalog::lookup(QNAME, QCLASS) - specified as the entry of that class whose name is the LONGEST SUFFIX of the '
                   'QNAME (oracle longest_suffix, proved for both catalog implementations in unit catalog) - decides: no entry REFUSED, NotYetLoaded / '
                   'FailedToLoad SERVFAIL, Loaded -> handle_non_axfr_query on that entry\'s zone. Each of these error responses is EXACTLY "RCODE set" '
                   'on the response as it was (whole-view frame): no record added, AA clear, ANCOUNT = NSCOUNT = 0, ARCOUNT = OPT/TSIG only. '
                   'handle_non_axfr_query: ServFail -> AA cleared, SERVFAIL, records dropped; Truncation -> records dropped and TCP: SERVFAIL with AA '
                   'clear, UDP: TC set.',
        level_note=_SERVER_TRUSTED,
        verus=[dict(unit='server_query_dispatch', which='all'), dict(unit='server_msg', which='all', fns=['handle_message_with_context', 'handle_message']),
               dict(unit='catalog', which='all'), dict(unit='writer_core', which='all', fns=['set_rcode', 'rcode', 'set_aa', 'aa', 'clear_rrs', 'set_tc'])],
        native=[dict(bin='bnd_server_scan', when='quick',
                     bound='tier A: 16 opcodes x QR x 3 flag sets x 3 values of the 4th header octet x (2 + 18 x 2) question variants (QDCOUNT 0/1/2; compressed, self-pointing, cut-off, 255/256-octet QNAMEs; QTYPE IXFR/AXFR/MAILB/MAILA/ANY; QCLASS ANY/CH) x 5 additional menus x trailing octet 0/1; tier B: 9 answer/authority layouts (A, OPT, TSIG) x every sequence of <= 2 additional records over a 32-item menu (plain/compressed/overrunning/cut records; OPT version 0/1/255, ext-rcode 0x80, DO, sizes 0..65535, non-root / self-pointing owner, broken option framing, overrunning RDLENGTH; TSIG unknown key/algorithm, class IN, TTL 5 / 0x80000000, malformed, compressed owner) and <= 3 over an 8-item menu x 4 opcode/question variants x count tweaks (ARCOUNT+1/-1/65535, ANCOUNT+1) x trailing octet; tier C: every prefix of the tier-B QUERY messages with <= 1 additional record (9 layouts) or 2 (no answer/authority records); tier D: TSIG key/algorithm names of 3..255 octets x 7 EDNS settings x 2 QNAMEs; tier E: 24 QNAMEs x 12 QTYPEs x 7 QCLASSes x 7 opcodes on a nested 3-class catalog; tier F: 23 names x 11 QTYPEs x 3 EDNS settings on zones with malformed RDATA / without SOA; each over UDP and TCP, exactly-sized and oversized response buffer, up to 9 servers (payload 512/1232/4096/65535, with/without keys, RRL off / never limiting / 1 per s)',
                     what='NOTIMP for opcodes other than QUERY and QTYPE IXFR/AXFR/MAILB/MAILA / QCLASS ANY regardless of the catalog; REFUSED / SERVFAIL / answered-from-the-zone by the longest-suffix entry of the QCLASS (reference list model; NOERROR vs NXDOMAIN tells which loaded zone answered); AA clear and no records in these error responses')],
        kani=[],
        cex={},
        unverified=['answer / answer_any (what a Loaded zone answers): C05, unit query_answer (its precondition is now proved in handle_query from the catalog contract)',
                    'the oracle longest_suffix / labels is restated in specs/server.rs (textually the same as specs/catalog.rs, prelude/name_labels.rs): identity of the two texts is by inspection'],
        assumptions=['every catalog stored in the Server satisfies its implementation invariant (lock invariant of RwLock<Arc<C>>)'],
    ),
    'C08': dict(
        level='proof',
        level_text='Verus proves for every request (no bound) that handle_message_with_context agrees with the reference walk prescan(req) '
                   '(specs/server.rs, written from the property text over the reader\'s oracle question_at / rr_skip_at / rr_at): the walk goes '
                   'through QDCOUNT, ANCOUNT+NSCOUNT and ARCOUNT records in message order, each record passed over exactly once (loop invariants '
                   'sc == scan_plain / scan_additional at the cursor), and returns the FIRST of: unparseable question; a counted record that cannot be '
                   'delimited; OPT or TSIG in answer/authority; second OPT; malformed OPT / OPT owner not root; TSIG not last, malformed, CLASS != ANY '
                   'or RAW TTL field != 0; octets after the last counted record; QUERY without question. Whenever the walk says Formerr and no TSIG '
                   'verification failed earlier, the response is the scanning response (header and question echoed, no record, AA/TC clear) with '
                   'RCODE FORMERR and no extended bits - set once and followed by `return`, so nothing replaces it.',
        level_note=_SERVER_TRUSTED,
        verus=[dict(unit='server_msg', which='all'), dict(unit='server_query_dispatch', which='all', fns=['handle_query']),
               dict(unit='reader', which='all'), dict(unit='name_wire', which='all'), dict(unit='writer_core', which='all', fns=['set_rcode', 'rcode', 'set_extended_rcode', 'extended_rcode'])],
        native=[dict(bin='bnd_server_scan', when='quick',
                     bound='tier A: 16 opcodes x QR x 3 flag sets x 3 values of the 4th header octet x (2 + 18 x 2) question variants (QDCOUNT 0/1/2; compressed, self-pointing, cut-off, 255/256-octet QNAMEs; QTYPE IXFR/AXFR/MAILB/MAILA/ANY; QCLASS ANY/CH) x 5 additional menus x trailing octet 0/1; tier B: 9 answer/authority layouts (A, OPT, TSIG) x every sequence of <= 2 additional records over a 32-item menu (plain/compressed/overrunning/cut records; OPT version 0/1/255, ext-rcode 0x80, DO, sizes 0..65535, non-root / self-pointing owner, broken option framing, overrunning RDLENGTH; TSIG unknown key/algorithm, class IN, TTL 5 / 0x80000000, malformed, compressed owner) and <= 3 over an 8-item menu x 4 opcode/question variants x count tweaks (ARCOUNT+1/-1/65535, ANCOUNT+1) x trailing octet; tier C: every prefix of the tier-B QUERY messages with <= 1 additional record (9 layouts) or 2 (no answer/authority records); tier D: TSIG key/algorithm names of 3..255 octets x 7 EDNS settings x 2 QNAMEs; tier E: 24 QNAMEs x 12 QTYPEs x 7 QCLASSes x 7 opcodes on a nested 3-class catalog; tier F: 23 names x 11 QTYPEs x 3 EDNS settings on zones with malformed RDATA / without SOA; each over UDP and TCP, exactly-sized and oversized response buffer, up to 9 servers (payload 512/1232/4096/65535, with/without keys, RRL off / never limiting / 1 per s)',
                     what='the reference walk (first problem in message order: unparseable question, undelimitable record, OPT/TSIG outside additional, second OPT, TSIG not last / wrong class / raw TTL != 0 / malformed, trailing octets, QUERY without question) against the real responses: FORMERR with no answer/authority records, never replaced; earlier BADVERS / TSIG errors take precedence'),
                dict(bin='bnd_server_tsig', when='quick',
                     bound='requests signed by an independent RFC 8945 signer (8 key/algorithm choices x 16 MAC edits x 5 time offsets x fudge 300 x 2 ID/EDNS combinations x UDP/TCP): every one whose TSIG '
                           'verifies (reference verdict) followed by 1 octet (00), 2 octets (c0 0c), 3 octets (00 00 01) or a complete uncounted A record after the TSIG record',
                     what='"octets remain after the last counted record" behind a TSIG record that verifies: the response (checked by srv_ref.rs: decodes, ID/question echoed) has RCODE FORMERR and no '
                          'answer/authority/additional data; only counterexamples tagged [C08] count here (requests whose TSIG fails are C10 business: the TSIG error comes first)')],
        kani=[],
        cex={},
        unverified=['RDATA well-formedness inside rr_at (rdata_read_spec) is the RDATA units\' oracle (C18)'],
        assumptions=['slice lengths <= isize::MAX'],
    ),
    'C09': dict(
        level='proof',
        level_text='Verus proves (no bound): the response has EDNS - Writer::set_edns succeeded with the server\'s payload size, after which '
                   'Writer::finish emits exactly one OPT record (root owner, CLASS = that size, version 0; writer_finish) - if and only if the reference '
                   'walk reaches an OPT record in the additional section (sc.opt), also when that OPT is malformed; set_edns cannot fail there '
                   '(no SERVFAIL path is reachable). validate_opt returns FORMERR for an owner other than the root and BADVERS (16) for a VERSION octet '
                   '!= 0 read from the RAW TTL field (second octet of the field as on the wire), else None; BADVERS is written with '
                   'set_extended_rcode, which cannot fail. Over UDP the size limit becomes clamp(requestor size, 512, server size) as soon as the OPT '
                   'parsed (u16::clamp needs 512 <= server size: Server invariant kept by set_edns_udp_payload_size), over TCP it stays 65,535; '
                   'the finished length never exceeds the limit.',
        level_note=_SERVER_TRUSTED,
        verus=[dict(unit='server_msg', which='all'), dict(unit='writer_core', which='all', fns=['set_edns', 'set_limit', 'set_extended_rcode', 'extended_rcode', 'set_rcode', 'rcode']), dict(unit='writer_finish', which='all', fns=['finish', 'finish_with_mac']),
               dict(unit='reader', which='all', fns=['peek_rr', 'parse', 'take_owner', 'parse_owner', 'raw_ttl', 'rr_type', 'class', 'ttl', 'rdlength', 'skip', 'arcount', 'ancount', 'nscount', 'read_u16', 'read_u32']), dict(unit='dns_types', which='all')],
        native=[dict(bin='bnd_server_scan', when='quick',
                     bound='tier A: 16 opcodes x QR x 3 flag sets x 3 values of the 4th header octet x (2 + 18 x 2) question variants (QDCOUNT 0/1/2; compressed, self-pointing, cut-off, 255/256-octet QNAMEs; QTYPE IXFR/AXFR/MAILB/MAILA/ANY; QCLASS ANY/CH) x 5 additional menus x trailing octet 0/1; tier B: 9 answer/authority layouts (A, OPT, TSIG) x every sequence of <= 2 additional records over a 32-item menu (plain/compressed/overrunning/cut records; OPT version 0/1/255, ext-rcode 0x80, DO, sizes 0..65535, non-root / self-pointing owner, broken option framing, overrunning RDLENGTH; TSIG unknown key/algorithm, class IN, TTL 5 / 0x80000000, malformed, compressed owner) and <= 3 over an 8-item menu x 4 opcode/question variants x count tweaks (ARCOUNT+1/-1/65535, ANCOUNT+1) x trailing octet; tier C: every prefix of the tier-B QUERY messages with <= 1 additional record (9 layouts) or 2 (no answer/authority records); tier D: TSIG key/algorithm names of 3..255 octets x 7 EDNS settings x 2 QNAMEs; tier E: 24 QNAMEs x 12 QTYPEs x 7 QCLASSes x 7 opcodes on a nested 3-class catalog; tier F: 23 names x 11 QTYPEs x 3 EDNS settings on zones with malformed RDATA / without SOA; each over UDP and TCP, exactly-sized and oversized response buffer, up to 9 servers (payload 512/1232/4096/65535, with/without keys, RRL off / never limiting / 1 per s)',
                     what='exactly one OPT (root owner, class = server payload size, version 0) iff an OPT of the additional section was reached (also when it is malformed); BADVERS from the raw TTL field (version bits, also with ext-rcode bit 0x80 set) with no answer records; FORMERR for a non-root / undecodable owner or broken option framing; where both apply either is accepted')],
        kani=[],
        cex={},
        unverified=['the catalog half of Server::wf (every catalog ever stored in the RwLock is well-formed) is a `requires` on the request path: '
                    'RwLock::new / set_catalog are stand-ins without a lock-invariant argument; the payload-size half (>= 512) is now proved: '
                    'established by Server::new (extracted, [C09.size_min]) and kept by set_edns_udp_payload_size'],
        assumptions=['slice lengths <= isize::MAX'],
    ),
    'C01': dict(
        level='proof',
        level_text='Panic-freedom of the request-handling layer. Verus proves that every function of src/server/mod.rs and the dispatch part of '
                   'src/server/query.rs under contract (handle_message, handle_message_with_context, validate_opt, the three TSIG helpers, '
                   'set_tsig_or_truncate, handle_query, handle_non_axfr_query, Context::new, Server::{catalog, tsig_keys, set_edns_udp_payload_size}) '
                   'reaches no panic for any request, transport and configuration: Writer::new(..).unwrap() (from the buffer-size requirement), '
                   'add_question / set_edns failure branches (proved unreachable), .expect("failed to set extended RCODE"), `arcount - 1`, '
                   'panic!("tried to parse a non-TSIG record"), question.as_ref().unwrap() in handle_non_axfr_query and - through the stated '
                   'precondition of the rate limiter - in Rrl::process_response, u16::clamp(512, size), and Writer::set_tsig failing (handled by '
                   'set_tsig_or_truncate since /repo c28a95d: TC instead of unwrap). Every callee precondition (Reader / Writer invariants, TSIG '
                   '"message has >= 12 octets and ARCOUNT >= 1", algorithm matches the record, no TSIG pending, ARCOUNT < 65535) is discharged.',
        level_note=_SERVER_TRUSTED + ' DOCUMENTED CALLER CONTRACT kept as `requires`: handle_message panics by design when response_buf is smaller than '
                   '65,535 (TCP) / the configured EDNS size (UDP). SystemTime -> TimeSigned `.expect()` is discharged from the ASSUMPTION that the '
                   'system clock is within 1970..year 8.9M (48-bit seconds). RwLock poisoning is ignored.',
        verus=[dict(unit=u, which='safety') for u in SERVER_UNITS] + [
               # contracts that callers use to discharge panic sites (unreachable!/unwrap/expect): a violation of
               # one of them re-opens the panic, so ALL their obligations count for C01, not only the safety ones
               dict(unit='tsig', which='all', fns=['try_from_read_rr', 'try_from']),
               dict(unit='dns_types', which='all', fns=['try_from']),
               dict(unit='writer_core', which='all', fns=['new', 'set_edns', 'set_extended_rcode']),
               dict(unit='writer_finish', which='all', fns=['set_tsig']),
               dict(unit='reader', which='all', fns=['try_from', 'peek_rr', 'mark', 'rewind'])]
              + [dict(unit='reader', which='safety'), dict(unit='name_wire', which='safety'), dict(unit='writer_core', which='safety'),
                 dict(unit='writer_names', which='safety'), dict(unit='writer_rr', which='safety'), dict(unit='writer_ops', which='safety'),
                 dict(unit='writer_finish', which='safety'), dict(unit='tsig', which='safety'), dict(unit='tsig_rdata', which='safety'),
                 dict(unit='rrl', which='safety'), dict(unit='catalog', which='safety'),
                 dict(unit='rdata', which='safety'), dict(unit='zone', which='safety'), dict(unit='query_helpers', which='safety'),
                 dict(unit='query_addl', which='safety'), dict(unit='query_cname', which='safety'), dict(unit='query_answer', which='safety')],
        native=[dict(bin='bnd_server_scan', when='quick',
                     bound='tier A: 16 opcodes x QR x 3 flag sets x 3 values of the 4th header octet x (2 + 18 x 2) question variants (QDCOUNT 0/1/2; compressed, self-pointing, cut-off, 255/256-octet QNAMEs; QTYPE IXFR/AXFR/MAILB/MAILA/ANY; QCLASS ANY/CH) x 5 additional menus x trailing octet 0/1; tier B: 9 answer/authority layouts (A, OPT, TSIG) x every sequence of <= 2 additional records over a 32-item menu (plain/compressed/overrunning/cut records; OPT version 0/1/255, ext-rcode 0x80, DO, sizes 0..65535, non-root / self-pointing owner, broken option framing, overrunning RDLENGTH; TSIG unknown key/algorithm, class IN, TTL 5 / 0x80000000, malformed, compressed owner) and <= 3 over an 8-item menu x 4 opcode/question variants x count tweaks (ARCOUNT+1/-1/65535, ANCOUNT+1) x trailing octet; tier C: every prefix of the tier-B QUERY messages with <= 1 additional record (9 layouts) or 2 (no answer/authority records); tier D: TSIG key/algorithm names of 3..255 octets x 7 EDNS settings x 2 QNAMEs; tier E: 24 QNAMEs x 12 QTYPEs x 7 QCLASSes x 7 opcodes on a nested 3-class catalog; tier F: 23 names x 11 QTYPEs x 3 EDNS settings on zones with malformed RDATA / without SOA; each over UDP and TCP, exactly-sized and oversized response buffer, up to 9 servers (payload 512/1232/4096/65535, with/without keys, RRL off / never limiting / 1 per s)',
                     what='Server::handle_message of the real crate never panics (catch_unwind) on any request of the enumeration, incl. TSIG error records around the response size limit with and without EDNS, TSIG records of class IN, zones with malformed RDATA or without SOA, and rate limiting that drops/truncates')],
        kani=[],
        cex={},
        unverified=['answer / answer_any and below (query units, C05), zone lookups (zone units, C06), Rrl::process_response body (unit rrl): '
                    'their panic-freedom is those units\' obligation; here only their preconditions are discharged',
                    'Server::new / set_catalog / set_tsig_keys / set_rrl_params / ReceivedInfo::new (unit rrl) are not part of the request path',
                    'no whole-program Kani run of handle_message on the real crate (kani-compiler failure noted in DESIGN 2.4)'],
        assumptions=['response buffer size requirement (documented)', 'system clock representable in 48 bits', 'RwLock not poisoned',
                     'slice lengths <= isize::MAX'],
    ),
    # SERVER half of C10: merge into the entry of vq/props_d/tsig.py.
    'C10': dict(
        verus=[dict(unit='server_tsig', which='all'), dict(unit='server_msg', which='all', fns=['handle_message_with_context']),
               dict(unit='writer_finish', which='all', fns=['set_tsig', 'finish_with_mac'])],
        level_text_server='Server half. Unit server_tsig proves the three helpers (and set_tsig_or_truncate) against the REAL Writer contracts: '
                   'the result table (Ok -> NOERROR + TSIG error 0 + Response mode over the request MAC, returns true; BadSig -> NOTAUTH/BADSIG/Unsigned; '
                   'BadTime -> NOTAUTH/BADTIME/Response; FormErr -> FORMERR/BADSIG/Unsigned; unknown algorithm, unknown key or key of another '
                   'algorithm -> NOTAUTH/BADKEY/Unsigned), each as a whole-view frame "RCODE set, then exactly this TSIG reserved"; when the TSIG RR '
                   'does not fit (possible only under a UDP limit: with cursor + 574 <= available, always true over TCP, it fits) TC is set and nothing '
                   'reserved. Unit server_msg proves that TSIG handling happens exactly when the reference walk reaches a TSIG record that is the LAST '
                   'additional record with CLASS ANY and raw TTL 0 (else FORMERR), in the order algorithm -> key -> verify, that a request failing '
                   'any step gets no data (refused: no records, AA clear, one row of the table or the TC fallback) and processing stops, and that '
                   'tsig_key is recorded only after verification succeeded.',
        unverified=['TSIG reading side is an assumed contract here (prelude/server_tsig_standin.rs), proved in units tsig / tsig_rdata / tsig_server',
                    'that an authenticated query is then answered "normally" is C05/C07; that finish signs the response is writer_finish + C11'],
        assumptions=['the ReadRr of TYPE TSIG returned by the Reader has RDATA validated by Rdata::validate_as_tsig (C15/C18)'],
    ),
    # SERVER part of C04: merge with the writer part.
    'C04': dict(
        verus=[dict(unit='server_msg', which='all', fns=['handle_message', 'handle_message_with_context']),
               dict(unit='server_query_dispatch', which='all', fns=['handle_non_axfr_query'])],
        level_text_server='Server part: handle_message creates the Writer with limit 512 (UDP) / 65,535 (TCP); the OPT branch sets the UDP limit to '
                   'clamp(requestor size, 512, server size) and never touches the TCP limit; nothing after the pre-scan changes the limit (frame '
                   'resp_kept); the returned length is <= 65,535 and over UDP <= the server size; Truncation from answering -> records dropped and '
                   'UDP: TC set / TCP: SERVFAIL, AA clear; TC is only ever set over UDP and then the response carries no records but OPT/TSIG.',
        unverified=['"UDP response identical to the TCP response when it fits" (2-safety) - not a single-run contract'],
    ),
}
