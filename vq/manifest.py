"""Regenerate /verif/MANIFEST.json from vq/props.py (single source of truth)."""
import json
import os
import subprocess

from . import props

VERIF = os.path.dirname(os.path.dirname(os.path.abspath(__file__)))


def hook_commits():
    try:
        out = subprocess.run(['git', '-C', '/repo', 'log', '--format=%H %s'], capture_output=True, text=True).stdout
    except Exception:
        return []
    return [l.split()[0] for l in out.splitlines() if ' verif hook:' in l]


def technique_of(P):
    parts = []
    if P.get('verus'):
        parts.append('contract-based deductive verification: Verus contracts (requires/ensures/invariants, spec functions, lemmas) '
                     'on functions extracted mechanically from /repo on every run (%d units)' % len(set(v['unit'] for v in P['verus'])))
    k = P.get('kani', [])
    if any(x.get('kind') == 'complete' for x in k):
        parts.append('Kani loop-free / type-bounded full-domain harnesses on the real crate (complete)')
    if any(x.get('kind') == 'bounded' for x in k) or P.get('fallback_kani'):
        parts.append('bounded Kani harnesses (labelled bounded, never counted as proof)')
    if P.get('native'):
        parts.append('native bounded stand-ins through the public API (decide violations only, with a concrete replayable input)')
    return '; '.join(parts)


def main():
    all_ids = [json.loads(l)['id'] for l in open(os.path.join(VERIF, 'properties.jsonl'))]
    checks = []
    for pid in all_ids:
        P = props.PROPS.get(pid)
        if not P:
            continue
        checks.append({
            'property_id': pid,
            'quick_cmd': './check %s --tier quick' % pid,
            'thorough_cmd': './check %s --tier thorough' % pid,
            'evidence_file': 'evidence/%s.json' % pid,
            'replay_cmd_template': './check %s --replay {path}' % pid,
            'engine': 'vq',
            'level_claimed': {'category': props.norm_level(P.get('level', 'proof')), 'text': P['level_text'],
                              'design_ref': P.get('design_ref', 'DESIGN.md section 4, ' + pid)},
            'level_note': P['level_note'],
            'technique': P.get('technique') or technique_of(P),
        })
    na = []
    for pid in all_ids:
        if pid in props.PROPS:
            continue
        na.append({'property_id': pid, 'reason': props.NOT_CLAIMED.get(pid, 'not decided: no contract unit built for this property yet')})
    man = {
        'version': 1,
        'setup_cmd': './setup.sh',
        'hooks': {
            'guard': 'cfg(kani)',
            'enable': 'set automatically by `cargo kani` (no feature or RUSTFLAGS); the Verus route reads source text and needs no hook',
            'baseline_off_cmd': 'cd /repo && cargo test --workspace --no-fail-fast --offline',
            'source_commits': hook_commits(),
            'add_only': True,
        },
        'engines': [{'name': 'vq', 'path': 'vq/', 'serves_properties': [c['property_id'] for c in checks],
                     'kind_free_text': 'mechanical extractor + Verus 0.2026.09.13 (contracts, unbounded) + Kani 0.68 '
                                       '(full-domain loop-free harnesses, counterexamples, bounded stand-ins)'}],
        'checks': checks,
        'not_applicable': na,
        'notes': 'Contracts live in units/*.vrs and units/frag/*.vrs; function bodies are re-extracted from /repo on every run '
                 '(vq/extract.py, rewrite table vq/rewrites.py). Exit 2 = undecided (lost anchor / unsupported construct / solver limit).',
    }
    with open(os.path.join(VERIF, 'MANIFEST.json'), 'w') as f:
        json.dump(man, f, indent=1)
    print('MANIFEST.json: %d checks, %d not claimed' % (len(checks), len(na)))


if __name__ == '__main__':
    main()
