"""Rust-aware text scanning used by the extractor.

`mask(text)` returns a string of the same length in which comments and the
contents of string / char literals are replaced by spaces (newlines kept), so
that brace matching and keyword searches can run on it while every index is
also a valid index into the original text.
"""
import re


class ScanError(Exception):
    pass


def mask(text, keep_strings=False):
    out = list(text)
    n = len(text)
    i = 0

    def blank(a, b):
        for k in range(a, b):
            if out[k] != '\n':
                out[k] = ' '

    while i < n:
        c = text[i]
        if c == '/' and i + 1 < n and text[i + 1] == '/':
            j = text.find('\n', i)
            if j < 0:
                j = n
            blank(i, j)
            i = j
        elif c == '/' and i + 1 < n and text[i + 1] == '*':
            depth = 1
            j = i + 2
            while j < n and depth > 0:
                if text.startswith('/*', j):
                    depth += 1
                    j += 2
                elif text.startswith('*/', j):
                    depth -= 1
                    j += 2
                else:
                    j += 1
            blank(i, j)
            i = j
        elif c == '"' or (c in 'br' and _string_start(text, i)):
            j, raw_hashes, is_raw = _string_open(text, i)
            # j = index of opening quote
            if is_raw:
                close = '"' + '#' * raw_hashes
                k = text.find(close, j + 1)
                if k < 0:
                    raise ScanError('unterminated raw string')
                end = k + len(close)
            else:
                k = j + 1
                while k < n and text[k] != '"':
                    if text[k] == '\\':
                        k += 1
                    k += 1
                end = k + 1
            if not keep_strings:
                blank(j + 1, end - 1 if not is_raw else k)
            i = end
        elif c == "'" or (c == 'b' and i + 1 < n and text[i + 1] == "'" and not _ident_char(text[i - 1] if i else ' ')):
            j = i + 1 if c == 'b' else i
            # j at the quote
            if j + 1 < n and text[j + 1] == '\\':
                k = text.find("'", j + 2)
                # handle '\''
                if text[j + 2] == "'":
                    k = text.find("'", j + 3)
                if not keep_strings:
                    blank(j + 1, k)
                i = k + 1
            elif j + 2 < n and text[j + 2] == "'":
                if not keep_strings:
                    blank(j + 1, j + 2)
                i = j + 3
            else:
                # lifetime or label
                i = j + 1
        else:
            i += 1
    return ''.join(out)


def _ident_char(ch):
    return ch.isalnum() or ch == '_'


def _string_start(text, i):
    if i > 0 and _ident_char(text[i - 1]):
        return False
    m = re.match(r'(b?r#*"|b")', text[i:i + 12])
    return m is not None


def _string_open(text, i):
    m = re.match(r'(b?)(r?)(#*)"', text[i:i + 40])
    if not m:
        raise ScanError('bad string open')
    is_raw = m.group(2) == 'r'
    hashes = len(m.group(3))
    return i + m.end() - 1, hashes, is_raw


def match_brace(masked, open_idx):
    """Index of the brace matching masked[open_idx] (one of ( [ { )."""
    pairs = {'(': ')', '[': ']', '{': '}'}
    o = masked[open_idx]
    c = pairs[o]
    depth = 0
    for k in range(open_idx, len(masked)):
        ch = masked[k]
        if ch == o:
            depth += 1
        elif ch == c:
            depth -= 1
            if depth == 0:
                return k
    raise ScanError('unbalanced %s at %d' % (o, open_idx))


def find_body_open(masked, start):
    """First `{` after `start` at paren/bracket depth 0."""
    depth = 0
    for k in range(start, len(masked)):
        ch = masked[k]
        if ch in '([':
            depth += 1
        elif ch in ')]':
            depth -= 1
        elif ch == '{' and depth == 0:
            return k
        elif ch == ';' and depth == 0:
            return -1
    return -1


def test_mod_ranges(text, masked):
    """Ranges of `#[cfg(test)] mod x { .. }` blocks."""
    res = []
    for m in re.finditer(r'#\[cfg\(test\)\]\s*(pub\s+)?mod\s+\w+\s*\{', masked):
        o = m.end() - 1
        res.append((m.start(), match_brace(masked, o)))
    return res


def impl_blocks(text, masked):
    """List of (header_text, open_idx, close_idx) for impl / trait blocks."""
    res = []
    for m in re.finditer(r'(?m)^[ \t]*(?:unsafe\s+)?(impl|trait|pub trait|pub\(crate\) trait)\b', masked):
        o = find_body_open(masked, m.end())
        if o < 0:
            continue
        hdr = ' '.join(text[m.start():o].split())
        res.append((hdr, o, match_brace(masked, o)))
    return res


class FnLoc:
    def __init__(self, file, text, masked, fn_idx, sig_start, body_open, body_close):
        self.file = file
        self.text = text
        self.masked = masked
        self.fn_idx = fn_idx          # index of `fn`
        self.sig_start = sig_start    # index of first qualifier (pub/unsafe/const)
        self.body_open = body_open
        self.body_close = body_close

    def line_of(self, idx):
        return self.text.count('\n', 0, idx) + 1

    @property
    def signature(self):
        return self.masked[self.fn_idx:self.body_open]

    @property
    def qualifiers(self):
        return self.masked[self.sig_start:self.fn_idx].split()


def locate_fn(file, text, name, impl=None, nth=1):
    """Locate `fn name` (outside test modules). `impl` = substring of the
    whitespace-normalised impl header the function must be directly inside."""
    masked = mask(text)
    tests = test_mod_ranges(text, masked)
    ranges = None
    if impl is not None:
        want = ' '.join(impl.split())
        ranges = [(o, c) for (h, o, c) in impl_blocks(text, masked) if want in h]
        if not ranges:
            raise ScanError('%s: no impl block matching %r' % (file, impl))
    found = []
    for m in re.finditer(r'\bfn\s+' + re.escape(name) + r'\b', masked):
        i = m.start()
        if any(a <= i <= b for a, b in tests):
            continue
        if ranges is not None:
            ok = False
            for (o, c) in ranges:
                if o < i < c and _depth_between(masked, o, i) == 1:
                    ok = True
            if not ok:
                continue
        elif impl is None:
            # free function: must be at depth 0 or only inside `mod`/impl;
            # accept any, disambiguate by nth.
            pass
        found.append(i)
    if len(found) < nth:
        raise ScanError('%s: fn %s%s not found' % (file, name, ' in impl ' + impl if impl else ''))
    if impl is None and len(found) > 1 and nth == 1:
        # prefer depth-0 definition when ambiguous
        d0 = [i for i in found if _depth_between(masked, 0, i) == 0]
        if len(d0) == 1:
            found = d0
        else:
            raise ScanError('%s: fn %s ambiguous (%d candidates); give impl=' % (file, name, len(found)))
    i = found[nth - 1]
    o = find_body_open(masked, i)
    if o < 0:
        raise ScanError('%s: fn %s has no body' % (file, name))
    c = match_brace(masked, o)
    # qualifiers: walk back over pub / pub(crate) / unsafe / const / async / extern
    line_start = masked.rfind('\n', 0, i) + 1
    s = i
    pre = masked[line_start:i]
    mm = re.search(r'((?:pub(?:\([^)]*\))?\s+|unsafe\s+|const\s+|async\s+)*)$', pre)
    if mm:
        s = line_start + mm.start(1)
    return FnLoc(file, text, masked, i, s, o, c)


def _depth_between(masked, a, b):
    d = 0
    for k in range(a, b):
        ch = masked[k]
        if ch == '{':
            d += 1
        elif ch == '}':
            d -= 1
    return d


def locate_item(file, text, kind, name):
    """Locate `struct|enum|const|type Name` item; returns (start, end) covering
    attributes-less item text through closing brace or semicolon."""
    masked = mask(text)
    tests = test_mod_ranges(text, masked)
    for m in re.finditer(r'(?m)^[ \t]*(?:pub(?:\([^)]*\))?\s+)?' + kind + r'\s+' + re.escape(name) + (r'\b(?!\s*<)' if kind == 'impl' else r'\b'), masked):
        if any(a <= m.start() <= b for a, b in tests):
            continue
        # find terminator: `;` or `{..}` whichever first at depth 0
        k = m.end()
        depth = 0
        while k < len(masked):
            ch = masked[k]
            if ch in '([<' and ch != '<':
                depth += 1
            elif ch in ')]':
                depth -= 1
            elif ch == ';' and depth == 0:
                return m.start(), k + 1
            elif ch == '{' and depth == 0:
                if kind in ('type', 'const'):
                    # a braced const-generic argument / block initialiser (`ArrayVec<T, { N - 1 }>`):
                    # such items end at `;`, never at a brace
                    k = match_brace(masked, k)
                else:
                    return m.start(), match_brace(masked, k) + 1
            k += 1
    raise ScanError('%s: %s %s not found' % (file, kind, name))


LOOP_RE = re.compile(r'\b(while|loop|for)\b')


def loop_positions(masked_body):
    """For each loop keyword in textual order: (kw_idx, open_brace_idx)."""
    res = []
    for m in LOOP_RE.finditer(masked_body):
        kw = m.group(1)
        # `for` in `for<'a>` HRTB or `impl X for Y` cannot occur inside bodies we extract
        k = m.end()
        if kw == 'for':
            # need ` in ` before the brace
            pass
        o = find_body_open(masked_body, k)
        if o < 0:
            continue
        res.append((m.start(), o))
    return res
