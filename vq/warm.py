"""Warm the shared Kani target directory (dependency builds)."""
from . import kani_run


def main():
    try:
        with kani_run.Scratch('warm') as sc:
            res, cmd, out = kani_run.run_harnesses(sc, ['warm_noop'], playback=False, timeout=1200)
            print('kani warm-up:', {k: v.status for k, v in res.items()})
    except Exception as e:
        print('kani warm-up skipped:', e)


if __name__ == '__main__':
    main()
