"""Rewrite rules of unit rdata_set (RS*), registered into the closed table by
vq/rewrites.py.  All opt-in (`rules=+RS1,+RS2`)."""
import re
from . import rustscan


def _recv_start(masked, dot):
    """Start of the postfix expression that ends just before index `dot`."""
    k = dot - 1
    depth = 0
    while k >= 0:
        ch = masked[k]
        if ch in ')]}':
            depth += 1
        elif ch in '([{':
            if depth == 0:
                break
            depth -= 1
        elif depth == 0 and (ch in ',;=&' or (ch == '>' and masked[k - 1] == '=')):
            break
        k -= 1
    return k + 1


def r_slice_try_array_ref(text):
    """RS1 (opt-in): `RECV.try_into().ok()` with RECV: &[T] and target &[T; N]
    -> `vq_slice_try_array_ref(RECV)`.  `<&[T; N] as TryFrom<&[T]>>` (and
    `core::array::TryFromSliceError`) cannot be named in this Verus; the shim's
    spec is the std definition: Some(the same octets) iff the slice has exactly
    N elements, else None.  N is inferred from the binding's type as before."""
    n = 0
    while True:
        masked = rustscan.mask(text)
        m = re.search(r'\.\s*try_into\s*\(\s*\)\s*\.\s*ok\s*\(\s*\)', masked)
        if not m:
            break
        rs = _recv_start(masked, m.start())
        recv = text[rs:m.start()]
        lead = len(recv) - len(recv.lstrip())
        rep = recv[:lead] + 'vq_slice_try_array_ref(' + recv.strip() + ')'
        nl = text.count('\n', rs, m.end()) - rep.count('\n')
        text = text[:rs] + rep + ('\n' * max(nl, 0)) + text[m.end():]
        n += 1
    return text, n


def r_ne_bytes(text):
    """RS2 (opt-in): `u16::from_ne_bytes(X)` -> `ne16_from(X)` and
    `RECV.to_ne_bytes()` -> `ne16_to(RECV)` (same reason as R2: the std
    signature is const-generic).  Native byte order is platform dependent, so
    the shims' spec is an UNINTERPRETED bijection-half: only
    from_ne_bytes(to_ne_bytes(x)) == x is assumed (true on every platform)."""
    text, n = re.subn(r'\bu16::from_ne_bytes\s*\(', 'ne16_from(', text)
    while True:
        masked = rustscan.mask(text)
        m = re.search(r'\.\s*to_ne_bytes\s*\(\s*\)', masked)
        if not m:
            break
        rs = _recv_start(masked, m.start())
        recv = text[rs:m.start()]
        lead = len(recv) - len(recv.lstrip())
        rep = recv[:lead] + 'ne16_to(' + recv.strip() + ')'
        nl = text.count('\n', rs, m.end()) - rep.count('\n')
        text = text[:rs] + rep + ('\n' * max(nl, 0)) + text[m.end():]
        n += 1
    return text, n


RULES = {
    'RS1': r_slice_try_array_ref,
    'RS2': r_ne_bytes,
}
REGEX_RULES = {}
