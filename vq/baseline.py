"""Record, for every /repo source file some unit extracts from, the set of function names that
exist now (units/baseline_fns.json).  Re-run only when contracts are (re)written for the tree."""
import glob
import json
import os

from . import extract

VERIF = os.path.dirname(os.path.dirname(os.path.abspath(__file__)))


def main():
    files = {}
    ops = {}
    for u in sorted(glob.glob(os.path.join(VERIF, 'units', '*.vrs'))):
        ex = extract.Extractor()
        try:
            ex.process_file(os.path.relpath(u, VERIF))
        except Exception as e:
            print('skip', u, e)
            continue
        for rel, text in ex._src_cache.items():
            files[rel] = sorted(extract.file_functions(text))
        for m in ex.functions:
            if 'ops_key' in m:
                ops[m['ops_key']] = {'ops': m['ops'], 'closures': m['closures'], 'arith': m['arith']}
    with open(extract.BASELINE_FNS, 'w') as f:
        json.dump(files, f, indent=0, sort_keys=True)
    with open(extract.BASELINE_OPS, 'w') as f:
        json.dump(ops, f, indent=0, sort_keys=True)
    print('baseline for %d files, %d functions under contract' % (len(files), len(ops)))


if __name__ == '__main__':
    main()
