"""Rewrite rules of unit name_builder / name_text (C16); registered from vq/rewrites.py.

NB1  wildcard closure parameter: `|_| EXPR` -> `|_vq_unused| EXPR`.  Verus
     accepts only variables as closure parameters.  A wildcard pattern and an
     unused named binding differ only in when the argument is dropped (at once
     vs. at the end of the closure body); the arguments concerned are
     `arrayvec::CapacityError<u8>` values (no Drop impl, no side effect), so the
     executable meaning is unchanged.
NB3  reference pattern in `while let`: `while let Some(&x) = EXPR {` ->
     `while let Some(vq_ref_x) = EXPR { let x = *vq_ref_x;`.  Verus does not
     support `&` patterns.  Matching a `&T` value against the pattern `&x` binds
     `x` to a copy of the referent (T: Copy is required by rustc for this to
     compile), which is exactly `let x = *r;`.
"""
import re
from . import rustscan


def r_wildcard_closure_param(text):
    """NB1: `|_| EXPR` -> `|_vq_unused| EXPR` (wildcard closure parameter named; argument has no Drop impl)."""
    masked = rustscan.mask(text)
    spans = [(m.start(), m.end(), '|_vq_unused|') for m in re.finditer(r'\|\s*_\s*\|', masked)]
    if not spans:
        return text, 0
    out, last = [], 0
    for s, e, r in spans:
        out.append(text[last:s])
        out.append(r)
        last = e
    out.append(text[last:])
    return ''.join(out), len(spans)


RULES = {
    'NB1': r_wildcard_closure_param,
}

REGEX_RULES = {
    'NB3': (r'while let Some\(&(\w+)\) = ([^{]*?)\s*\{', r'while let Some(vq_ref_\1) = \2 { let \1 = *vq_ref_\1;',
            'NB3: `while let Some(&x) = E {` -> `while let Some(vq_ref_x) = E { let x = *vq_ref_x;` (definition of a reference pattern on a Copy referent)'),
}
