// SPEC (oracle) for zone validation (property C21).  Written from the property
// text, RFC 1035 5.2 (+ Erratum 5626), RFC 1034 3.6.2 / 4.2.1, RFC 4592 4.2 and the
// documentation of `GluePolicy` -- NOT from the code.  It is a *declarative* reference
// checker over the abstract zone of specs/zone.rs (`ZoneV`: owner name -> type -> RRset;
// `resolve` = RFC 1034 4.3.2 step 3 with wildcards): a predicate "issue `i` is present
// in zone `z`".  Nothing here iterates, looks anything up through an API or knows about
// hash sets.
pub mod spec_validation {
    use vstd::prelude::*;
    use crate::spec_zone::*;

    pub const TYPE_MX: u16 = 15;
    pub const CLASS_CH: u16 = 3;

    /// A reported issue, names seen as case-folded label sequences (the identity under
    /// which `Name` is compared and hashed).
    pub ghost enum IssueV {
        MissingApexSoa,
        TooManyApexSoas,
        MissingApexNs,
        /// an in-zone name server (NSDNAME of an NS record) without an address
        MissingNsAddress(NameK),
        /// an in-zone mail exchanger (EXCHANGE of an MX record) without an address
        MissingMxAddress(NameK),
        /// a delegation's name server that needs glue under the zone's policy and has none
        MissingGlue(NameK),
        /// the owner has more than one CNAME record
        DuplicateCname(NameK),
        /// the owner has a CNAME record and a record of another type
        OtherRecordsAtCname(NameK),
        /// the (wildcard) owner has an NS RRset
        NsAtWildcard(NameK),
    }

    /// The zone's glue policy (`GluePolicy` documentation): wide = glue is required iff the
    /// name server is in ANY zone below the parent; narrow = iff it is in the child zone
    /// named by the owner of the NS record.
    pub ghost enum PolicyV { Narrow, Wide }

    /// Property text: "Only the MX-address and NS-at-wildcard issues are warnings."
    pub open spec fn is_error_spec(i: IssueV) -> bool {
        !(i is MissingMxAddress || i is NsAtWildcard)
    }

    /// The domain name encoded by an uncompressed wire-format name that fills the whole
    /// octet string (RFC 1035 3.1), as case-folded labels; None if the octets are not
    /// exactly one valid name.  Decided by the name parser (property C14); uninterpreted here.
    pub uninterp spec fn wire_name(s: Seq<u8>) -> Option<NameK>;

    /// RFC 1035 3.3.11: NS RDATA is NSDNAME.
    pub open spec fn ns_target(rdata: Seq<u8>) -> Option<NameK> { wire_name(rdata) }

    /// RFC 1035 3.3.9: MX RDATA is a 16-bit PREFERENCE followed by EXCHANGE.
    pub open spec fn mx_target(rdata: Seq<u8>) -> Option<NameK> {
        if rdata.len() >= 2 { wire_name(rdata.skip(2)) } else { None }
    }

    /// Address RR types exist for the Internet and Chaosnet classes only (RFC 1035 3.4.1,
    /// RFC 1034 3.6); the address checks are vacuous in other classes.
    pub open spec fn class_has_addrs_spec(c: u16) -> bool { c == CLASS_IN || c == CLASS_CH }

    /// The node owns an address usable in class `c`: A in any class, AAAA only in IN.
    pub open spec fn node_has_addr(z: ZoneV, c: u16, node: NameK) -> bool {
        z.nodes[node].contains_key(TYPE_A) || (c == CLASS_IN && z.nodes[node].contains_key(TYPE_AAAA))
    }

    /// `target` is an IN-ZONE name WITHOUT ADDRESSES: the zone is authoritative for it (it is
    /// at or below the apex and not beneath a delegation) and resolving it -- wildcards
    /// included -- yields no address record or a name error.
    pub open spec fn in_zone_no_addr(z: ZoneV, c: u16, target: NameK) -> bool {
        match resolve(z, target, false) {
            Resolution::Node { node, wildcard } => !node_has_addr(z, c, node),
            Resolution::NxDomain => true,
            Resolution::Referral { cut } => false,
            Resolution::WrongZone => false,
        }
    }

    /// Glue is REQUIRED for name server `target` of the delegation at `owner`: the name
    /// server lies beneath a delegation of this zone, and -- narrow policy -- that
    /// delegation is the one at `owner` (the name server is in the child zone itself).
    pub open spec fn glue_required(z: ZoneV, p: PolicyV, owner: NameK, target: NameK) -> bool {
        match resolve(z, target, false) {
            Resolution::Referral { cut } => p is Wide || cut == owner,
            _ => false,
        }
    }

    /// Glue is PRESENT: looking below the cuts, the name server has an address record.
    pub open spec fn glue_present(z: ZoneV, c: u16, target: NameK) -> bool {
        match resolve(z, target, true) {
            Resolution::Node { node, wildcard } => node_has_addr(z, c, node),
            _ => false,
        }
    }

    /// Some RDATA of the RRset names `t` as its NS target.
    pub open spec fn ns_names(rdatas: Seq<Seq<u8>>, t: NameK) -> bool {
        exists|k: int| 0 <= k < rdatas.len() && ns_target(#[trigger] rdatas[k]) == Some(t)
    }

    /// Some RDATA of the RRset names `t` as its mail exchanger.
    pub open spec fn mx_names(rdatas: Seq<Seq<u8>>, t: NameK) -> bool {
        exists|k: int| 0 <= k < rdatas.len() && mx_target(#[trigger] rdatas[k]) == Some(t)
    }

    /// Issue `i` is present AT NODE `owner` (whose RRsets are `d`) of zone `z` with class `c`
    /// and glue policy `p`.  The three apex-level issues are not node issues.
    pub open spec fn node_issue(z: ZoneV, c: u16, p: PolicyV, owner: NameK, d: NodeV, i: IssueV) -> bool {
        match i {
            // "multiple CNAMEs"
            IssueV::DuplicateCname(n) => n == owner && d.contains_key(TYPE_CNAME) && d[TYPE_CNAME].rdatas.len() > 1,
            // "CNAMEs with other data"
            IssueV::OtherRecordsAtCname(n) => n == owner && d.contains_key(TYPE_CNAME)
                && exists|t: u16| t != TYPE_CNAME && #[trigger] d.contains_key(t),
            // "NS records at wildcard names" (RFC 4592 2.1.1: the leftmost label is `*`)
            IssueV::NsAtWildcard(n) => n == owner && d.contains_key(TYPE_NS) && owner.len() >= 1 && owner[0] == asterisk(),
            // "in-zone ... mail exchangers without addresses"
            IssueV::MissingMxAddress(t) => class_has_addrs_spec(c) && d.contains_key(TYPE_MX)
                && mx_names(d[TYPE_MX].rdatas, t) && in_zone_no_addr(z, c, t),
            // "in-zone name servers ... without addresses" -- delegations; the apex NS RRset is an apex check
            IssueV::MissingNsAddress(t) => class_has_addrs_spec(c) && owner != z.apex && d.contains_key(TYPE_NS)
                && ns_names(d[TYPE_NS].rdatas, t) && in_zone_no_addr(z, c, t),
            // "missing glue under the zone's glue policy"
            IssueV::MissingGlue(t) => class_has_addrs_spec(c) && owner != z.apex && d.contains_key(TYPE_NS)
                && ns_names(d[TYPE_NS].rdatas, t) && glue_required(z, p, owner, t) && !glue_present(z, c, t),
            IssueV::MissingApexSoa => false,
            IssueV::TooManyApexSoas => false,
            IssueV::MissingApexNs => false,
        }
    }

    /// Issue `i` is one of the APEX issues of the zone (RFC 1035 5.2 checks 2 and 5, and the
    /// address check for the zone's own name servers).
    pub open spec fn apex_issue(z: ZoneV, c: u16, i: IssueV) -> bool {
        let d = z.nodes[z.apex];
        match i {
            // "a missing or multiple apex SOA"
            IssueV::MissingApexSoa => !d.contains_key(TYPE_SOA),
            IssueV::TooManyApexSoas => d.contains_key(TYPE_SOA) && d[TYPE_SOA].rdatas.len() > 1,
            // "a missing apex NS"
            IssueV::MissingApexNs => !d.contains_key(TYPE_NS),
            // "in-zone name servers ... without addresses" for the apex NS RRset
            IssueV::MissingNsAddress(t) => class_has_addrs_spec(c) && d.contains_key(TYPE_NS)
                && ns_names(d[TYPE_NS].rdatas, t) && in_zone_no_addr(z, c, t),
            _ => false,
        }
    }

    /// THE REFERENCE CHECKER: issue `i` is present in the zone.
    pub open spec fn zone_issue(z: ZoneV, c: u16, p: PolicyV, i: IssueV) -> bool {
        apex_issue(z, c, i)
        || exists|n: NameK| #[trigger] z.nodes.contains_key(n) && node_issue(z, c, p, n, z.nodes[n], i)
    }

    /// Validation cannot interpret the zone: some RDATA it has to read a name from is not a
    /// valid name (apex NS, delegation NS, MX -- only where the address checks apply).
    pub open spec fn node_bad_rdata(z: ZoneV, c: u16, owner: NameK, d: NodeV) -> bool {
        class_has_addrs_spec(c) && (
            (d.contains_key(TYPE_MX) && exists|k: int| 0 <= k < d[TYPE_MX].rdatas.len() && mx_target(#[trigger] d[TYPE_MX].rdatas[k]) is None)
            || (owner != z.apex && d.contains_key(TYPE_NS) && exists|k: int| 0 <= k < d[TYPE_NS].rdatas.len() && ns_target(#[trigger] d[TYPE_NS].rdatas[k]) is None)
        )
    }

    pub open spec fn apex_bad_rdata(z: ZoneV, c: u16) -> bool {
        let d = z.nodes[z.apex];
        class_has_addrs_spec(c) && d.contains_key(TYPE_NS)
            && exists|k: int| 0 <= k < d[TYPE_NS].rdatas.len() && ns_target(#[trigger] d[TYPE_NS].rdatas[k]) is None
    }

    /// Validation gives up (`Error::InvalidRdata`) exactly for zones with such RDATA.
    pub open spec fn zone_bad_rdata(z: ZoneV, c: u16) -> bool {
        apex_bad_rdata(z, c)
        || exists|n: NameK| #[trigger] z.nodes.contains_key(n) && node_bad_rdata(z, c, n, z.nodes[n])
    }

    // ------------------------------------------------------------------
    // Sanity of the reference: the narrow-policy clause against the wording of `GluePolicy`
    // ------------------------------------------------------------------

    /// `t` at or below `o` has the same ancestors as `o` up to `o`'s depth.
    pub proof fn lemma_anc_below(t: NameK, o: NameK, j: int)
        requires at_or_below(t, o), 0 <= j <= o.len(),
        ensures anc(t, j) == anc(o, j),
    {
        let k = t.len() - o.len();
        assert(t.skip(k) == o);
        assert(t.skip(k).skip(o.len() - j) =~= t.skip(t.len() - j));
    }

    /// "The narrow glue policy: glue is required if and only if the nameserver is in the child
    /// zone (specified by the owner of the NS record)."  For a delegation `o` that is a real
    /// zone cut of `z` (not itself beneath another cut), the reference clause
    /// `glue_required(z, Narrow, o, t)` says exactly that: `t` is at or below `o`.
    pub proof fn lemma_narrow_policy_reading(z: ZoneV, o: NameK, t: NameK)
        requires
            zone_wf(z),
            at_or_below(t, z.apex),
            resolve(z, o, false) == (Resolution::Referral { cut: o }),
        ensures
            glue_required(z, PolicyV::Narrow, o, t) <==> at_or_below(t, o),
    {
        // the delegation point of `o` is `o` itself, at depth o.len()
        assert(at_or_below(o, z.apex) && has_cut(z, o));
        let jo = choose|j: int| topmost_cut_at(z, o, j);
        assert(exists|j: int| topmost_cut_at(z, o, j)) by { lemma_topmost_exists(z, o); }
        assert(anc(o, jo) == o);
        assert(jo == o.len()) by {
            assert(anc(o, jo).len() == jo);
        }
        if at_or_below(t, o) {
            lemma_anc_below(t, o, o.len() as int);
            assert(o.skip(0) =~= o);
            assert(anc(t, o.len() as int) == o);
            assert(cut_at(z, t, o.len() as int));
            lemma_topmost_exists(z, t);
            let jt = choose|j: int| topmost_cut_at(z, t, j);
            assert(jt <= o.len());
            if jt < o.len() {
                lemma_anc_below(t, o, jt);
                assert(cut_at(z, o, jt));
                assert(false);
            }
            assert(anc(t, jt) == o);
        }
        if glue_required(z, PolicyV::Narrow, o, t) {
            let jt = choose|j: int| topmost_cut_at(z, t, j);
            assert(has_cut(z, t));
            lemma_topmost_exists(z, t);
            assert(anc(t, jt) == o);
            assert(anc(t, jt).len() == jt);
            assert(at_or_below(t, o));
        }
    }

    /// A name with a cut on its path has a topmost one (well-ordering of the depths).
    pub proof fn lemma_topmost_exists(z: ZoneV, n: NameK)
        requires has_cut(z, n),
        ensures exists|j: int| topmost_cut_at(z, n, j),
    {
        let j0 = choose|j: int| cut_at(z, n, j);
        lemma_topmost_from(z, n, j0);
    }

    pub proof fn lemma_topmost_from(z: ZoneV, n: NameK, j: int)
        requires cut_at(z, n, j),
        ensures exists|k: int| topmost_cut_at(z, n, k),
        decreases j
    {
        if exists|i: int| i < j && cut_at(z, n, i) {
            let i = choose|i: int| i < j && cut_at(z, n, i);
            assert(i > z.apex.len() >= 0);
            lemma_topmost_from(z, n, i);
        } else {
            assert(topmost_cut_at(z, n, j));
        }
    }
}
