// SPEC (oracle) for C31 "Reloading keeps every zone on its own latest good data".
// Written from the property text, not from the code.
//
//   * a catalog is a map (class, name) -> entry, names as canonical label sequences (`Name::key`);
//     `lookup` = entry whose name is the LONGEST SUFFIX of the queried name, `get` = entry with
//     EXACTLY that name, `insert` files the entry under its own class and name (same shape as the
//     C22 oracle in specs/catalog.rs: longest_suffix / exact / entry_key / view_keys_ok).
//   * T (per configured zone z, with prev = the previous catalog's entry filed under EXACTLY z):
//       - if the zone file's metadata cannot be read: previous data if prev is Loaded, else FailedToLoad;
//       - else the entry is prev itself (unchanged-file shortcut, only if prev is Loaded), or
//       - Loaded(fresh zone) if the load succeeded,
//       - else previous data if prev is Loaded, else FailedToLoad
//     and the new catalog holds entries for exactly the configured zones.
pub mod spec_zones {
    use vstd::prelude::*;
    use std::sync::Arc;
    use crate::zr_std::*;
    use crate::quandary::class::Class;
    use crate::quandary::name::Name;
    use crate::quandary::db::HashMapTreeZone;
    use crate::quandary::db::catalog::Entry;
    use crate::config::ZoneConfig;
    use crate::zones::{Metadata, load_outcome};

    pub type Path = Seq<Seq<u8>>;
    pub type Key = (Class, Path);
    pub type E = Entry<HashMapTreeZone, Metadata>;
    pub type CatView = Map<Key, E>;

    pub open spec fn entry_key(e: E) -> Key {
        match e {
            Entry::Loaded(z, _) => (z.class_spec(), z.name_spec().key()),
            Entry::NotYetLoaded(n, c, _) => (c, n.key()),
            Entry::FailedToLoad(n, c, _) => (c, n.key()),
        }
    }

    /// `get`: "the entry's name must match exactly"
    pub open spec fn exact(view: CatView, class: Class, n: Path) -> Option<E> {
        if view.contains_key((class, n)) { Some(view[(class, n)]) } else { None }
    }

    /// `lookup`: scan the suffixes of `n` from the longest (`n` itself) to the shortest; the first
    /// one filed under `class` wins.
    pub open spec fn ls_from(view: CatView, class: Class, n: Path, from: int) -> Option<E>
        decreases n.len() - from
    {
        if from < 0 || from >= n.len() { None }
        else if view.contains_key((class, n.skip(from))) { Some(view[(class, n.skip(from))]) }
        else { ls_from(view, class, n, from + 1) }
    }
    pub open spec fn longest_suffix(view: CatView, class: Class, n: Path) -> Option<E> {
        ls_from(view, class, n, 0)
    }

    pub open spec fn opt_deref<T>(r: Option<&T>) -> Option<T> {
        match r { Some(e) => Some(*e), None => None }
    }

    /// Catalogs the daemon builds: every entry is filed under its own class and name, and there is
    /// no NotYetLoaded placeholder (the daemon never creates one).
    pub open spec fn catalog_ok(view: CatView) -> bool {
        forall|k: Key| #[trigger] view.contains_key(k) ==> entry_key(view[k]) == k && !(view[k] is NotYetLoaded)
    }

    // ---------------------------------------------------------------- the property
    pub open spec fn zkey(z: ZoneConfig) -> Key { (z.class.0, z.name.0.key()) }

    /// The previous catalog's entry whose class and name are EXACTLY those of z.
    pub open spec fn prev_exact(loaded: Option<CatView>, z: ZoneConfig) -> Option<E> {
        match loaded {
            Some(v) => exact(v, z.class.0, z.name.0.key()),
            None => None,
        }
    }

    /// "from its previously served data if it failed, and with SERVFAIL if it has never loaded"
    pub open spec fn fallback_ok(z: ZoneConfig, prev: Option<E>, e: E) -> bool {
        if prev is Some && prev->Some_0 is Loaded { e == prev->Some_0 }
        else { e is FailedToLoad && entry_key(e) == zkey(z) }
    }

    /// "from its newly loaded data if its file loaded and validated"
    pub open spec fn fresh_ok(z: ZoneConfig, e: E) -> bool {
        &&& load_outcome(z) is Ok
        &&& e is Loaded
        &&& *e->Loaded_0 == load_outcome(z)->Ok_0
        &&& e->Loaded_1.path == z.path
        &&& e->Loaded_1.mtime == (match fs::fs_mtime(z.path) { Ok(t) => Some(t), Err(_) => None::<SystemTime> })
    }

    /// The zone file's metadata could not be read (the load is not attempted).
    pub open spec fn metadata_failed(z: ZoneConfig) -> bool {
        fs::fs_mtime(z.path) is Err && fs::fs_mtime(z.path)->Err_0.kind_spec() != io::ErrorKind::Unsupported
    }

    /// T for one configured zone.
    pub open spec fn zone_entry_ok(z: ZoneConfig, prev: Option<E>, e: E) -> bool {
        if metadata_failed(z) { fallback_ok(z, prev, e) }
        else {
            ||| (prev is Some && prev->Some_0 is Loaded && fs::fs_mtime(z.path) is Ok && e == prev->Some_0) // unchanged-file shortcut
            ||| (load_outcome(z) is Ok && fresh_ok(z, e))
            ||| (load_outcome(z) is Err && fallback_ok(z, prev, e))
        }
    }

    pub open spec fn distinct_zones(zs: Seq<ZoneConfig>) -> bool {
        forall|i: int, j: int| 0 <= i < j < zs.len() ==> zkey(zs[i]) != zkey(zs[j])
    }

    /// One loop step: filing zone n's entry under zone n's own key extends the domain by exactly that
    /// key and leaves the entries of the earlier (distinct) zones alone.
    pub proof fn lemma_dom_step(pre: CatView, post: CatView, zs: Seq<ZoneConfig>, n: int, e: E)
        requires
            0 <= n < zs.len(),
            dom_is(pre, zs, n),
            post == pre.insert(zkey(zs[n]), e),
        ensures
            dom_is(post, zs, n + 1),
    {
        assert forall|k: Key| #[trigger] post.contains_key(k) <==> exists|i: int| 0 <= i < n + 1 && #[trigger] zkey(zs[i]) == k by {
            if post.contains_key(k) {
                if k == zkey(zs[n]) {
                    assert(0 <= n < n + 1 && zkey(zs[n]) == k);
                } else {
                    assert(pre.contains_key(k));
                    let i = choose|i: int| 0 <= i < n && #[trigger] zkey(zs[i]) == k;
                    assert(0 <= i < n + 1 && zkey(zs[i]) == k);
                }
            }
            if exists|i: int| 0 <= i < n + 1 && #[trigger] zkey(zs[i]) == k {
                let i = choose|i: int| 0 <= i < n + 1 && #[trigger] zkey(zs[i]) == k;
                if i < n {
                    assert(0 <= i < n && zkey(zs[i]) == k);
                    assert(pre.contains_key(k));
                }
            }
        }
    }

    /// exactly the first n configured zones have entries
    pub open spec fn dom_is(view: CatView, zs: Seq<ZoneConfig>, n: int) -> bool {
        forall|k: Key| #[trigger] view.contains_key(k) <==> exists|i: int| 0 <= i < n && #[trigger] zkey(zs[i]) == k
    }
}
