// SPEC (oracle) for domain names on the wire: RFC 1035 sections 3.1 and 4.1.4.
// Written from the RFC / property text, not from the code.
pub mod spec_name {
    use vstd::prelude::*;

    /// `s[i..]` is a sequence of complete, non-null labels (each 1..=63 octets)
    /// ending exactly at `s.len()`.
    pub open spec fn labels_ok(s: Seq<u8>, i: int) -> bool
        decreases s.len() - i
    {
        if i < 0 || i > s.len() { false }
        else if i == s.len() { true }
        else if i + s[i] as int + 1 > s.len() { false }
        else { 1 <= s[i] <= 63 && labels_ok(s, i + s[i] as int + 1) }
    }

    /// Start offsets of the labels walked by `labels_ok`.
    pub open spec fn label_starts(s: Seq<u8>, i: int) -> Seq<int>
        decreases s.len() - i
    {
        if i < 0 || i >= s.len() { Seq::empty() }
        else if i + s[i] as int + 1 > s.len() { seq![i] }
        else { seq![i] + label_starts(s, i + s[i] as int + 1) }
    }

    /// A valid uncompressed name: non-null labels of at most 63 octets, then the
    /// null label, at most 255 octets in total.
    pub open spec fn valid_name(s: Seq<u8>) -> bool {
        1 <= s.len() <= 255 && s.last() == 0 && labels_ok(s.drop_last(), 0)
    }

    /// Octet offsets as mathematical integers.
    pub open spec fn offs(s: Seq<u8>) -> Seq<int> { Seq::new(s.len(), |k: int| s[k] as int) }

    /// Label start offsets of a valid name (including the final null label).
    pub open spec fn name_offsets(s: Seq<u8>) -> Seq<int> {
        label_starts(s.drop_last(), 0).push(s.len() - 1)
    }

    /// Length of the uncompressed name at the start of `b` (labels <= 63 up to
    /// and including the first null label), with no length limit applied.
    pub open spec fn ulen_from(b: Seq<u8>, i: int) -> Option<int>
        decreases b.len() - i
    {
        if i < 0 || i >= b.len() { None }
        else if b[i] > 63 { None }
        else if b[i] == 0 { Some(i + 1) }
        else if i + b[i] as int + 1 > b.len() { None }
        else { ulen_from(b, i + b[i] as int + 1) }
    }

    /// RFC 1035 3.1: the uncompressed name at the start of `b`, if any.
    pub open spec fn ulen(b: Seq<u8>) -> Option<int> {
        match ulen_from(b, 0) {
            Some(n) => if n <= 255 { Some(n) } else { None },
            None => None,
        }
    }

    pub open spec fn ptr_val(b0: u8, b1: u8) -> int {
        ((b0 as int) % 64) * 256 + (b1 as int)
    }

    pub open spec fn is_ptr(o: u8) -> bool { o >= 192 }

    /// RFC 1035 4.1.4 decoder.  `cs` = start of the current chunk (pointers
    /// must point strictly before it), `i` = read position, `acc` = labels
    /// decoded so far, `fc` = length of the first chunk once known (-1 before).
    /// Result: (uncompressed wire form, number of contiguous octets at `start`).
    pub open spec fn dec_at(b: Seq<u8>, cs: int, i: int, acc: Seq<u8>, fc: int, start: int) -> Option<(Seq<u8>, int)>
        decreases cs, b.len() - i
    {
        if i < 0 || i >= b.len() || cs < 0 || cs > i { None }
        else {
            let o = b[i];
            if is_ptr(o) {
                if i + 1 >= b.len() { None } else {
                    let p = ptr_val(b[i], b[i + 1]);
                    if p >= cs { None }
                    else { dec_at(b, p, p, acc, if fc < 0 { i + 2 - start } else { fc }, start) }
                }
            } else if o > 63 { None }
            else if o == 0 {
                if acc.len() + 1 > 255 { None }
                else { Some((acc.push(0u8), if fc < 0 { i + 1 - start } else { fc })) }
            } else {
                let end = i + o as int + 1;
                if end >= b.len() { None }
                else if acc.len() + o as int + 1 > 255 { None }
                else { dec_at(b, cs, end, acc + b.subrange(i, end), fc, start) }
            }
        }
    }

    pub open spec fn dec(b: Seq<u8>, start: int) -> Option<(Seq<u8>, int)> {
        dec_at(b, start, start, Seq::empty(), -1, start)
    }

    /// First chunk of a possibly compressed name at the start of `b`, as far as
    /// it can be judged without following pointers: Some(n) when the labels
    /// (each <= 63) run up to a null label or a complete two-octet pointer
    /// inside `b`, the chunk being n octets long, and the labels seen (plus one
    /// octet for the terminator) do not already exceed 255 octets.
    pub open spec fn skip_from(b: Seq<u8>, i: int) -> Option<int>
        decreases b.len() - i
    {
        if i < 0 || i >= b.len() { None }
        else if is_ptr(b[i]) { if i + 1 < b.len() && i + 1 <= 255 { Some(i + 2) } else { None } }
        else if b[i] > 63 { None }
        else if b[i] == 0 { if i + 1 <= 255 { Some(i + 1) } else { None } }
        else if i + b[i] as int + 1 > b.len() { None }
        else { skip_from(b, i + b[i] as int + 1) }
    }

    // ---------------------------------------------------------------- lemmas

    /// Appending one complete non-null label keeps `labels_ok` and appends its
    /// start offset.
    pub proof fn lemma_append_label(p: Seq<u8>, l: Seq<u8>, i: int)
        requires
            0 <= i <= p.len(),
            labels_ok(p, i),
            l.len() >= 2, 1 <= l[0] <= 63, l.len() == l[0] as int + 1,
        ensures
            labels_ok(p + l, i),
            label_starts(p + l, i) == label_starts(p, i).push(p.len() as int),
        decreases p.len() - i
    {
        let q = p + l;
        if i == p.len() {
            assert(q[i] == l[0]);
            assert(labels_ok(q, i + q[i] as int + 1));
            assert(label_starts(q, q.len() as int) == Seq::<int>::empty());
            assert(label_starts(p, i) == Seq::<int>::empty());
            assert(label_starts(q, i) =~= seq![i] + label_starts(q, i + q[i] as int + 1));
            assert(label_starts(q, i) =~= Seq::<int>::empty().push(p.len() as int));
        } else {
            assert(q[i] == p[i]);
            lemma_append_label(p, l, i + p[i] as int + 1);
            assert(label_starts(q, i) =~= seq![i] + label_starts(q, i + q[i] as int + 1));
            assert(label_starts(p, i) =~= seq![i] + label_starts(p, i + p[i] as int + 1));
            assert(label_starts(q, i) =~= label_starts(p, i).push(p.len() as int));
        }
    }

    /// The length found by `ulen_from` lies beyond the start position.
    pub proof fn lemma_ulen_bounds(b: Seq<u8>, i: int)
        requires ulen_from(b, i) is Some,
        ensures i < ulen_from(b, i)->Some_0 <= b.len(),
        decreases b.len() - i
    {
        if 0 <= i < b.len() && b[i] != 0 && b[i] <= 63 && i + b[i] as int + 1 <= b.len() {
            lemma_ulen_bounds(b, i + b[i] as int + 1);
        }
    }

    /// No first chunk can terminate at or beyond offset 255.
    pub proof fn lemma_skip_none(b: Seq<u8>, i: int)
        requires i >= 255,
        ensures skip_from(b, i) is None,
        decreases b.len() - i
    {
        if i < b.len() && !is_ptr(b[i]) && b[i] <= 63 && b[i] != 0 && i + b[i] as int + 1 <= b.len() {
            lemma_skip_none(b, i + b[i] as int + 1);
        }
    }

    /// The first-chunk length reported by the reference decoder lies inside the buffer.
    pub proof fn lemma_dec_at_bounds(b: Seq<u8>, cs: int, i: int, acc: Seq<u8>, fc: int, start: int)
        requires
            dec_at(b, cs, i, acc, fc, start) is Some,
            fc < 0 ==> (cs == start && start <= i),
            fc >= 0 ==> (1 <= fc && start + fc <= b.len()),
        ensures
            1 <= dec_at(b, cs, i, acc, fc, start)->Some_0.1,
            start + dec_at(b, cs, i, acc, fc, start)->Some_0.1 <= b.len(),
            fc >= 0 ==> dec_at(b, cs, i, acc, fc, start)->Some_0.1 == fc,
        decreases cs, b.len() - i
    {
        let o = b[i];
        if is_ptr(o) {
            let p = ptr_val(b[i], b[i + 1]);
            lemma_dec_at_bounds(b, p, p, acc, if fc < 0 { i + 2 - start } else { fc }, start);
        } else if o != 0 {
            let end = i + o as int + 1;
            lemma_dec_at_bounds(b, cs, end, acc + b.subrange(i, end), fc, start);
        }
    }

    pub proof fn lemma_dec_bounds(b: Seq<u8>, start: int)
        requires dec(b, start) is Some,
        ensures 1 <= dec(b, start)->Some_0.1, start + dec(b, start)->Some_0.1 <= b.len(), 0 <= start < b.len(),
    {
        lemma_dec_at_bounds(b, start, start, Seq::empty(), -1, start);
    }

    /// A first chunk found by `skip_from` ends after its start and inside the buffer.
    pub proof fn lemma_skip_bounds(b: Seq<u8>, i: int)
        requires skip_from(b, i) is Some,
        ensures i < skip_from(b, i)->Some_0 <= b.len(),
        decreases b.len() - i
    {
        if 0 <= i < b.len() && !is_ptr(b[i]) && b[i] <= 63 && b[i] != 0 && i + b[i] as int + 1 <= b.len() {
            lemma_skip_bounds(b, i + b[i] as int + 1);
        }
    }

    /// Where both succeed, skipping (no pointer following) and full decoding agree
    /// on the length of the first chunk.
    pub proof fn lemma_skip_dec_agree_at(b: Seq<u8>, c: int, i: int, acc: Seq<u8>)
        requires
            0 <= c <= i,
            dec_at(b, c, i, acc, -1, c) is Some,
            skip_from(b.subrange(c, b.len() as int), i - c) is Some,
        ensures
            dec_at(b, c, i, acc, -1, c)->Some_0.1 == skip_from(b.subrange(c, b.len() as int), i - c)->Some_0,
        decreases b.len() - i
    {
        let sub = b.subrange(c, b.len() as int);
        assert(sub[i - c] == b[i]);
        let o = b[i];
        if is_ptr(o) {
            let p = ptr_val(b[i], b[i + 1]);
            lemma_dec_at_bounds(b, p, p, acc, i + 2 - c, c);
        } else if o != 0 {
            let end = i + o as int + 1;
            lemma_skip_dec_agree_at(b, c, end, acc + b.subrange(i, end));
        }
    }

    pub proof fn lemma_skip_dec_agree(b: Seq<u8>, c: int)
        requires 0 <= c, dec(b, c) is Some, skip_from(b.subrange(c, b.len() as int), 0) is Some,
        ensures dec(b, c)->Some_0.1 == skip_from(b.subrange(c, b.len() as int), 0)->Some_0,
    {
        lemma_skip_dec_agree_at(b, c, c, Seq::empty());
    }

    /// Number of labels is bounded by half the length (each label >= 2 octets).
    pub proof fn lemma_starts_len(p: Seq<u8>, i: int)
        requires 0 <= i <= p.len(), labels_ok(p, i),
        ensures 2 * label_starts(p, i).len() <= p.len() - i,
        decreases p.len() - i
    {
        if i < p.len() {
            lemma_starts_len(p, i + p[i] as int + 1);
        }
    }
}
