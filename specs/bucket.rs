// SPEC (oracle) for the response-rate-limiting token bucket (properties C26, C28).
// Written from the property text and the public documentation of `RrlParams`
// ("Each second, the counter is decremented by the appropriate rate ... The limit
// is determined by multiplying the appropriate rate by `window`"), NOT from the
// code.  Everything is over `nat`: there is no wrap-around and no saturation
// other than the floor at zero.
pub mod spec_bucket {
    use vstd::prelude::*;

    /// Nanoseconds per second.
    pub open spec fn ns_per_s() -> nat { 1_000_000_000 }

    /// Refill: `count` responses are outstanding, `rate` tokens come back per
    /// whole elapsed second:  max(0, count - rate*whole_secs).
    pub open spec fn refill(count: nat, rate: nat, whole_secs: nat) -> nat {
        if count >= rate * whole_secs { (count - rate * whole_secs) as nat } else { 0 }
    }

    /// Whole seconds between the last refill and `now` (a monotone clock never
    /// runs backwards; if it did, no time is taken to have passed).
    pub open spec fn whole_secs(last_ns: nat, now_ns: nat) -> nat {
        if now_ns >= last_ns { ((now_ns - last_ns) / ns_per_s() as int) as nat } else { 0 }
    }

    /// State of one bucket: responses counted and the instant (ns) of the last refill.
    pub struct Bucket { pub count: nat, pub last_ns: nat }

    pub struct StepResult { pub sent: bool, pub next: Bucket }

    /// One atomic step of the token bucket at time `now_ns`:
    /// refill for the whole seconds elapsed, advance the refill instant by
    /// exactly those seconds, send iff the refilled count is below the limit,
    /// count the response iff sent.
    pub open spec fn step(b: Bucket, rate: nat, limit: nat, now_ns: nat) -> StepResult {
        let d = whole_secs(b.last_ns, now_ns);
        let c = refill(b.count, rate, d);
        let sent = c < limit;
        StepResult {
            sent,
            next: Bucket { count: if sent { c + 1 } else { c }, last_ns: b.last_ns + d * ns_per_s() },
        }
    }

    /// Bucket after the requests arriving at `times` (in that order).
    pub open spec fn run_bucket(b: Bucket, rate: nat, limit: nat, times: Seq<nat>) -> Bucket
        decreases times.len()
    {
        if times.len() == 0 { b }
        else { step(run_bucket(b, rate, limit, times.drop_last()), rate, limit, times.last()).next }
    }

    /// Number of responses sent among the requests arriving at `times`.
    pub open spec fn run_sent(b: Bucket, rate: nat, limit: nat, times: Seq<nat>) -> nat
        decreases times.len()
    {
        if times.len() == 0 { 0 }
        else {
            run_sent(b, rate, limit, times.drop_last())
            + if step(run_bucket(b, rate, limit, times.drop_last()), rate, limit, times.last()).sent { 1nat } else { 0nat }
        }
    }

    /// All requests arrive before one whole second has elapsed since the last refill.
    pub open spec fn within_one_second(b: Bucket, times: Seq<nat>) -> bool {
        forall|i: int| 0 <= i < times.len() ==> #[trigger] whole_secs(b.last_ns, times[i]) == 0
    }

    pub open spec fn min_nat(a: nat, b: nat) -> nat { if a <= b { a } else { b } }
    pub open spec fn room(limit: nat, c0: nat) -> nat { if limit >= c0 { (limit - c0) as nat } else { 0 } }

    /// refill never increases the count, is the identity for zero elapsed
    /// seconds, and composes additively in the elapsed time.
    pub proof fn lemma_refill_basic(count: nat, rate: nat, a: nat, b: nat)
        ensures
            refill(count, rate, 0) == count,
            refill(count, rate, a) <= count,
            refill(refill(count, rate, a), rate, b) == refill(count, rate, a + b),
    {
        assert(rate * 0 == 0) by (nonlinear_arith);
        assert(rate * (a + b) == rate * a + rate * b) by (nonlinear_arith);
        assert(rate * a >= 0 && rate * b >= 0) by (nonlinear_arith);
    }

    /// [C28.counting] n atomic steps of one stream within one second, starting
    /// from count c0, send exactly min(n, limit - c0) responses (limit - c0
    /// floored at 0), every sent response is counted exactly once, and the refill
    /// instant does not move.  "Atomic" = each step sees the bucket left by the
    /// previous one, which is what the per-bucket Mutex provides.
    pub proof fn lemma_count_within_one_second(b: Bucket, rate: nat, limit: nat, times: Seq<nat>)
        requires within_one_second(b, times),
        ensures
            run_sent(b, rate, limit, times) == min_nat(times.len(), room(limit, b.count)),
            run_bucket(b, rate, limit, times).count == b.count + run_sent(b, rate, limit, times),
            run_bucket(b, rate, limit, times).last_ns == b.last_ns,
        decreases times.len()
    {
        if times.len() > 0 {
            let init = times.drop_last();
            assert(within_one_second(b, init)) by {
                assert forall|i: int| 0 <= i < init.len() implies #[trigger] whole_secs(b.last_ns, init[i]) == 0 by {
                    assert(init[i] == times[i]);
                }
            }
            lemma_count_within_one_second(b, rate, limit, init);
            let mid = run_bucket(b, rate, limit, init);
            assert(whole_secs(mid.last_ns, times.last()) == 0) by {
                assert(times.last() == times[times.len() - 1]);
            }
            lemma_refill_basic(mid.count, rate, 0, 0);
            assert(0 * ns_per_s() == 0) by (nonlinear_arith);
        }
    }

    /// A bucket that has been idle for at least `count / rate` (rounded up)
    /// whole seconds is empty again, whatever the length of the idle period.
    pub proof fn lemma_long_idle_empties(count: nat, rate: nat, secs: nat)
        requires rate >= 1, secs >= count,
        ensures refill(count, rate, secs) == 0,
    {
        assert(rate * secs >= secs) by (nonlinear_arith) requires rate >= 1;
    }
}
