// SPEC (oracle) for response-stream identification (property C27).
// Written from the property text, the public documentation of `RrlParams`
// and RFC 4291 section 2.5.5.2 (IPv4-mapped IPv6 addresses), not from the code.
pub mod spec_rrl {
    use vstd::prelude::*;
    use crate::rrl_std::net::*;

    /// Two IPv4 addresses (as big-endian u32) lie in the same /len network:
    /// their leading `len` bits agree.  0 <= len <= 32.
    pub open spec fn same_prefix32(a: u32, b: u32, len: nat) -> bool {
        len == 0 || (a >> ((32 - len) as u32)) == (b >> ((32 - len) as u32))
    }

    /// Two IPv6 addresses (their upper 64 bits as big-endian u64) lie in the
    /// same /len network, 0 <= len <= 64.
    pub open spec fn same_prefix64(a: u64, b: u64, len: nat) -> bool {
        len == 0 || (a >> ((64 - len) as u64)) == (b >> ((64 - len) as u64))
    }

    /// The network mask with `len` leading one bits.
    pub open spec fn netmask32(len: nat) -> u32 {
        if len == 0 { 0 } else { 0xffff_ffffu32 << ((32 - len) as u32) }
    }
    pub open spec fn netmask64(len: nat) -> u64 {
        if len == 0 { 0 } else { 0xffff_ffff_ffff_ffffu64 << ((64 - len) as u64) }
    }

    /// Masking with the /len netmask identifies exactly the /len networks.
    pub proof fn lemma_mask32_is_prefix(a: u32, b: u32, len: nat)
        requires len <= 32,
        ensures ((a & netmask32(len)) == (b & netmask32(len))) <==> same_prefix32(a, b, len),
    {
        if len > 0 {
            let s: u32 = (32 - len) as u32;
            assert(((a & (0xffff_ffffu32 << s)) == (b & (0xffff_ffffu32 << s))) <==> ((a >> s) == (b >> s)))
                by (bit_vector) requires s < 32;
        } else {
            assert(a & 0 == 0 && b & 0 == 0) by (bit_vector);
        }
    }
    pub proof fn lemma_mask64_is_prefix(a: u64, b: u64, len: nat)
        requires len <= 64,
        ensures ((a & netmask64(len)) == (b & netmask64(len))) <==> same_prefix64(a, b, len),
    {
        if len > 0 {
            let s: u64 = (64 - len) as u64;
            assert(((a & (0xffff_ffff_ffff_ffffu64 << s)) == (b & (0xffff_ffff_ffff_ffffu64 << s))) <==> ((a >> s) == (b >> s)))
                by (bit_vector) requires s < 64;
        } else {
            assert(a & 0 == 0 && b & 0 == 0) by (bit_vector);
        }
    }

    /// RFC 4291 2.5.5.2: `::ffff:a.b.c.d` — 80 zero bits, 16 one bits, then the IPv4 address.
    pub open spec fn is_v4_mapped(bits: u128) -> bool { (bits >> 32) == 0xffff }
    pub open spec fn mapped_v4(bits: u128) -> u32 { (bits & 0xffff_ffff) as u32 }

    /// The octet view of RFC 4291 2.5.5.2: an address is IPv4-mapped iff its first
    /// ten octets are zero and the next two are 0xff; the IPv4 address is the last four.
    pub proof fn lemma_v4_mapped_octets(b: u128, o: Seq<u8>)
        requires
            o.len() == 16,
            forall|i: int| 0 <= i < 16 ==> o[i] == #[trigger] octet128(b, i),
        ensures
            is_v4_mapped(b) <==> ((forall|i: int| 0 <= i < 10 ==> o[i] == 0) && o[10] == 0xff && o[11] == 0xff),
            mapped_v4(b) == ((o[12] as u32) << 24) | ((o[13] as u32) << 16) | ((o[14] as u32) << 8) | (o[15] as u32),
    {
        let (o0, o1, o2, o3, o4, o5, o6, o7) = (o[0], o[1], o[2], o[3], o[4], o[5], o[6], o[7]);
        let (o8, o9, o10, o11, o12, o13, o14, o15) = (o[8], o[9], o[10], o[11], o[12], o[13], o[14], o[15]);
        assert(o0 == octet128(b, 0) && o1 == octet128(b, 1) && o2 == octet128(b, 2) && o3 == octet128(b, 3));
        assert(o4 == octet128(b, 4) && o5 == octet128(b, 5) && o6 == octet128(b, 6) && o7 == octet128(b, 7));
        assert(o8 == octet128(b, 8) && o9 == octet128(b, 9) && o10 == octet128(b, 10) && o11 == octet128(b, 11));
        assert(o12 == octet128(b, 12) && o13 == octet128(b, 13) && o14 == octet128(b, 14) && o15 == octet128(b, 15));
        assert(((b >> 32) == 0xffff) <==> (o0 == 0 && o1 == 0 && o2 == 0 && o3 == 0 && o4 == 0 && o5 == 0 && o6 == 0
                && o7 == 0 && o8 == 0 && o9 == 0 && o10 == 0xff && o11 == 0xff)) by (bit_vector)
            requires
                o0 == ((b >> 120u128) & 0xff) as u8, o1 == ((b >> 112u128) & 0xff) as u8,
                o2 == ((b >> 104u128) & 0xff) as u8, o3 == ((b >> 96u128) & 0xff) as u8,
                o4 == ((b >> 88u128) & 0xff) as u8, o5 == ((b >> 80u128) & 0xff) as u8,
                o6 == ((b >> 72u128) & 0xff) as u8, o7 == ((b >> 64u128) & 0xff) as u8,
                o8 == ((b >> 56u128) & 0xff) as u8, o9 == ((b >> 48u128) & 0xff) as u8,
                o10 == ((b >> 40u128) & 0xff) as u8, o11 == ((b >> 32u128) & 0xff) as u8;
        assert(((b & 0xffff_ffff) as u32) == ((o12 as u32) << 24) | ((o13 as u32) << 16) | ((o14 as u32) << 8) | (o15 as u32)) by (bit_vector)
            requires
                o12 == ((b >> 24u128) & 0xff) as u8, o13 == ((b >> 16u128) & 0xff) as u8,
                o14 == ((b >> 8u128) & 0xff) as u8, o15 == ((b >> 0u128) & 0xff) as u8;
        if o0 == 0 && o1 == 0 && o2 == 0 && o3 == 0 && o4 == 0 && o5 == 0 && o6 == 0 && o7 == 0 && o8 == 0 && o9 == 0 {
            assert forall|i: int| 0 <= i < 10 implies o[i] == 0 by {
                if i == 0 {} else if i == 1 {} else if i == 2 {} else if i == 3 {} else if i == 4 {}
                else if i == 5 {} else if i == 6 {} else if i == 7 {} else if i == 8 {} else {}
            }
        }
    }

    /// Canonical source address: IPv4-mapped IPv6 counts as IPv4.
    pub open spec fn canon(ip: IpAddr) -> IpAddr {
        match ip {
            IpAddr::V4(a) => ip,
            IpAddr::V6(a) => if is_v4_mapped(a.bits) { IpAddr::V4(Ipv4Addr { bits: mapped_v4(a.bits) }) } else { ip },
        }
    }

    /// The destination-network part of a stream: (is IPv6, masked address).
    pub open spec fn dest_net(ip: IpAddr, v4mask: u32, v6mask: u64) -> (bool, u64) {
        match ip {
            IpAddr::V4(a) => (false, (a.bits & v4mask) as u64),
            IpAddr::V6(a) => (true, ((a.bits >> 64) as u64) & v6mask),
        }
    }

    /// Same destination network under prefix lengths (l4, l6).
    pub open spec fn same_net(a: IpAddr, b: IpAddr, l4: nat, l6: nat) -> bool {
        match (a, b) {
            (IpAddr::V4(x), IpAddr::V4(y)) => same_prefix32(x.bits, y.bits, l4),
            (IpAddr::V6(x), IpAddr::V6(y)) => same_prefix64((x.bits >> 64) as u64, (y.bits >> 64) as u64, l6),
            _ => false,
        }
    }

    pub proof fn lemma_dest_net_is_same_net(a: IpAddr, b: IpAddr, l4: nat, l6: nat)
        requires l4 <= 32, l6 <= 64,
        ensures (dest_net(a, netmask32(l4), netmask64(l6)) == dest_net(b, netmask32(l4), netmask64(l6))) <==> same_net(a, b, l4, l6),
    {
        match (a, b) {
            (IpAddr::V4(x), IpAddr::V4(y)) => {
                lemma_mask32_is_prefix(x.bits, y.bits, l4);
                let m = netmask32(l4);
                assert(((x.bits & m) as u64 == (y.bits & m) as u64) <==> ((x.bits & m) == (y.bits & m)));
            },
            (IpAddr::V6(x), IpAddr::V6(y)) => {
                lemma_mask64_is_prefix((x.bits >> 64) as u64, (y.bits >> 64) as u64, l6);
            },
            _ => {},
        }
    }

    /// ASCII lower-casing of one octet (RFC 4343).
    pub open spec fn lower(b: u8) -> u8 { if 65 <= b <= 90 { (b + 32) as u8 } else { b } }
    /// Lower-cased wire form of a name, as fed to the hasher.
    pub open spec fn lower_seq(s: Seq<u8>) -> Seq<int> { Seq::new(s.len(), |i: int| lower(s[i]) as int) }
}
