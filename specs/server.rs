// SPEC (oracle) for the request-handling layer (properties C03, C07, C08, C09,
// C10 server half).  Written from the PROPERTY TEXTS and RFC 1035 4.1.1 / RFC
// 6891 6.1 / RFC 8945 5, not from the code.  Pure functions over octet
// sequences; the record-level vocabulary (`question_at`, `rr_at`, `rr_skip_at`)
// is the reader's oracle specs/msg.rs.
pub mod spec_server {
    use vstd::prelude::*;
    use crate::spec_name::*;
    use crate::spec_msg::*;

    // ------------------------------------------------------------------ header (RFC 1035 4.1.1)
    //   octet 2:  QR(0x80) OPCODE(0x78) AA(0x04) TC(0x02) RD(0x01)
    //   octet 3:  RA(0x80) Z(0x70) RCODE(0x0f)
    pub open spec fn h_qr(b: Seq<u8>) -> bool { b[2] & 0x80 != 0 }
    pub open spec fn h_opcode(b: Seq<u8>) -> u8 { (b[2] & 0x78) >> 3 }
    pub open spec fn h_aa(b: Seq<u8>) -> bool { b[2] & 0x04 != 0 }
    pub open spec fn h_tc(b: Seq<u8>) -> bool { b[2] & 0x02 != 0 }
    pub open spec fn h_rd(b: Seq<u8>) -> bool { b[2] & 0x01 != 0 }
    pub open spec fn h_ra(b: Seq<u8>) -> bool { b[3] & 0x80 != 0 }
    pub open spec fn h_z(b: Seq<u8>) -> u8 { b[3] & 0x70 }
    pub open spec fn h_rcode(b: Seq<u8>) -> u8 { b[3] & 0x0f }
    pub open spec fn h_count(b: Seq<u8>, at: int) -> int { (b[at] as int) * 256 + (b[at + 1] as int) }

    pub open spec fn opcode_query() -> u8 { 0 }
    pub open spec fn rc_noerror() -> u8 { 0 }
    pub open spec fn rc_formerr() -> u8 { 1 }
    pub open spec fn rc_servfail() -> u8 { 2 }
    pub open spec fn rc_nxdomain() -> u8 { 3 }
    pub open spec fn rc_notimp() -> u8 { 4 }
    pub open spec fn rc_refused() -> u8 { 5 }
    pub open spec fn rc_notauth() -> u8 { 9 }
    pub open spec fn xrc_badvers() -> int { 16 }
    pub open spec fn tsig_badsig() -> u16 { 16 }
    pub open spec fn tsig_badkey() -> u16 { 17 }
    pub open spec fn tsig_badtime() -> u16 { 18 }
    pub open spec fn type_opt() -> u16 { 41 }
    pub open spec fn type_tsig() -> u16 { 250 }
    pub open spec fn class_any() -> u16 { 255 }

    /// [C03] "A response carries the request's ID and opcode with QR set, copies RD only for
    /// opcode QUERY, and never sets RA or the reserved header bits": `resp` (first four octets)
    /// echoes the request header `req`.
    pub open spec fn hdr_echo(resp: Seq<u8>, req: Seq<u8>) -> bool {
        &&& resp.len() >= 12 && req.len() >= 12
        &&& resp[0] == req[0] && resp[1] == req[1]
        &&& h_qr(resp)
        &&& h_opcode(resp) == h_opcode(req)
        &&& h_rd(resp) == (h_rd(req) && h_opcode(req) == opcode_query())
        &&& !h_ra(resp)
        &&& h_z(resp) == 0
    }

    /// The part of the first four octets that request processing after the header copy may
    /// change: AA, TC and the RCODE nibble.  Everything [C03] speaks about is outside.
    pub open spec fn hdr_fixed_same(a: Seq<u8>, b: Seq<u8>) -> bool {
        &&& a.len() == b.len()
        &&& a[0] == b[0] && a[1] == b[1]
        &&& a[2] & 0xf9 == b[2] & 0xf9
        &&& a[3] & 0xf0 == b[3] & 0xf0
    }

    pub proof fn lemma_hdr_echo_frame(a: Seq<u8>, b: Seq<u8>, req: Seq<u8>)
        requires hdr_echo(a, req), hdr_fixed_same(a, b),
        ensures hdr_echo(b, req),
    {
        let x = a[2]; let y = b[2]; let p = a[3]; let q = b[3];
        assert(x & 0xf9 == y & 0xf9 ==> (x & 0x80 == y & 0x80) && ((x & 0x78) >> 3 == (y & 0x78) >> 3) && (x & 0x01 == y & 0x01)) by (bit_vector);
        assert(p & 0xf0 == q & 0xf0 ==> (p & 0x80 == q & 0x80) && (p & 0x70 == q & 0x70)) by (bit_vector);
    }

    pub proof fn lemma_hdr_fixed_trans(a: Seq<u8>, b: Seq<u8>, c: Seq<u8>)
        requires hdr_fixed_same(a, b), hdr_fixed_same(b, c),
        ensures hdr_fixed_same(a, c),
    {}

    // ------------------------------------------------------------------ catalog (C07 / C22)
    // "answered from the catalog entry of its class whose name is the longest suffix of the
    // QNAME".  Same oracle as specs/catalog.rs (`longest_suffix`) and prelude/name_labels.rs
    // (`labels`): restated here because those files pull in the catalog implementation types.

    /// ASCII lower-casing of one octet (RFC 4343).
    pub open spec fn lower(b: u8) -> u8 { if 65 <= b && b <= 90 { (b + 32) as u8 } else { b } }
    pub open spec fn lower_seq(s: Seq<u8>) -> Seq<u8> { Seq::new(s.len(), |i: int| lower(s[i])) }
    /// Octets of the label whose length octet is at offset `o` of the wire form `w`.
    pub open spec fn label_at(w: Seq<u8>, o: int) -> Seq<u8> { w.subrange(o + 1, o + 1 + w[o] as int) }
    /// Case-folded labels of an uncompressed name, label 0 first, the null label last.
    pub open spec fn wire_labels(w: Seq<u8>) -> Seq<Seq<u8>> {
        Seq::new(name_offsets(w).len(), |i: int| lower_seq(label_at(w, name_offsets(w)[i])))
    }
    pub type Path = Seq<Seq<u8>>;

    /// Scan the suffixes of `n` from the longest (`n` itself) to the shortest (the root): the
    /// first one filed under `class` wins.
    pub open spec fn ls_from<E>(view: Map<(u16, Path), E>, class: u16, n: Path, from: int) -> Option<E>
        decreases n.len() - from
    {
        if from < 0 || from >= n.len() { None }
        else if view.contains_key((class, n.skip(from))) { Some(view[(class, n.skip(from))]) }
        else { ls_from(view, class, n, from + 1) }
    }
    pub open spec fn longest_suffix<E>(view: Map<(u16, Path), E>, class: u16, n: Path) -> Option<E> {
        ls_from(view, class, n, 0)
    }

    /// `s` is a (non-strict) suffix of `n` in label terms: `n` is equal to or a subdomain of `s`
    /// (same text as prelude/name_labels.rs `is_suffix`; specs/zone.rs `at_or_below(n, s)` is the same formula).
    pub open spec fn is_suffix(s: Path, n: Path) -> bool {
        s.len() <= n.len() && n.skip(n.len() - s.len()) == s
    }

    /// Declarative reading of `ls_from` (PROVED; same statement and proof as specs/catalog.rs
    /// `lemma_ls_from_char`, here over `Map` / `u16` classes): the result is filed under a suffix
    /// of `n`, and no longer suffix of `n` is filed under `class`.
    pub proof fn lemma_ls_from_char<E>(view: Map<(u16, Path), E>, class: u16, n: Path, from: int)
        requires 0 <= from,
        ensures
            match ls_from(view, class, n, from) {
                Some(e) => exists|i: int| from <= i < n.len() && #[trigger] view.contains_key((class, n.skip(i))) && view[(class, n.skip(i))] == e
                    && is_suffix(n.skip(i), n)
                    && (forall|j: int| from <= j < i ==> !#[trigger] view.contains_key((class, n.skip(j)))),
                None => forall|j: int| from <= j < n.len() ==> !#[trigger] view.contains_key((class, n.skip(j))),
            },
        decreases n.len() - from
    {
        if from >= n.len() {
        } else if view.contains_key((class, n.skip(from))) {
            assert(n.skip(n.len() - n.skip(from).len()) =~= n.skip(from));
        } else {
            lemma_ls_from_char(view, class, n, from + 1);
            match ls_from(view, class, n, from + 1) {
                Some(e) => {
                    let i = choose|i: int| from + 1 <= i < n.len() && #[trigger] view.contains_key((class, n.skip(i))) && view[(class, n.skip(i))] == e
                        && is_suffix(n.skip(i), n)
                        && (forall|j: int| from + 1 <= j < i ==> !#[trigger] view.contains_key((class, n.skip(j))));
                    assert(forall|j: int| from <= j < i ==> !#[trigger] view.contains_key((class, n.skip(j)))) by {
                        assert forall|j: int| from <= j < i implies !#[trigger] view.contains_key((class, n.skip(j))) by {
                            if j == from {} else {}
                        }
                    }
                }
                None => {
                    assert forall|j: int| from <= j < n.len() implies !#[trigger] view.contains_key((class, n.skip(j))) by {
                        if j == from {} else {}
                    }
                }
            }
        }
    }

    /// [C07] QTYPEs that get NOTIMP: IXFR 251, AXFR 252, MAILB 253, MAILA 254.
    pub open spec fn qtype_unsupported(t: u16) -> bool { 251 <= t <= 254 }
    pub open spec fn qclass_any() -> u16 { 255 }
    pub open spec fn qtype_any() -> u16 { 255 }

    // ------------------------------------------------------------------ pre-scan (C03, C08, C09, C10)
    // "The server reports the first problem in message order".  `prescan(req)` walks the request in
    // message order - question (QDCOUNT), answer + authority (ANCOUNT + NSCOUNT records), additional
    // (ARCOUNT records), end of message - and returns the FIRST of the outcomes the property texts list.
    // Records that are only passed over are delimited with `rr_skip_at` (no pointer following, no RDATA
    // validation); OPT and TSIG records are decoded with `rr_at`.

    pub enum Outcome {
        /// [C03] "requests ... with more than one question get no response at all"
        NoResponse,
        /// [C08] FORMERR: question cannot be parsed; a counted record cannot be delimited; OPT / TSIG outside
        /// the additional section; more than one OPT; TSIG not last / wrong class / wrong TTL / malformed;
        /// a QUERY without question; octets after the last counted record.  [C09] also: OPT owner not the root,
        /// OPT record malformed.
        Formerr,
        /// [C09] "an EDNS version other than 0 is answered with extended RCODE BADVERS"
        Badvers,
        /// nothing wrong: opcode-specific handling decides
        Proceed,
    }

    pub struct Scan {
        pub out: Outcome,
        /// [C09] offset of "an OPT record [in the additional section] that processing reached"
        pub opt: Option<int>,
        /// [C10] offset of the TSIG record (last record, CLASS ANY, TTL 0, well-formed RDATA) whose
        /// verification processing reached: it happens BEFORE `out` is reported, and a failed
        /// verification is reported instead of `out` ("only an EDNS version error or TSIG error
        /// detected earlier in the message may be reported instead").
        pub tsig: Option<int>,
    }

    pub open spec fn qdcount_of(req: Seq<u8>) -> u16 { u16_at(req, 4) }
    pub open spec fn ancount_of(req: Seq<u8>) -> u16 { u16_at(req, 6) }
    pub open spec fn nscount_of(req: Seq<u8>) -> u16 { u16_at(req, 8) }
    pub open spec fn arcount_of(req: Seq<u8>) -> u16 { u16_at(req, 10) }

    /// RFC 6891 6.1.3: the OPT TTL field is EXTENDED-RCODE (8 bits), VERSION (8 bits), flags (16 bits);
    /// `fixed` = offset of the record's TYPE field, the TTL field starts 4 octets later.
    pub open spec fn opt_version(req: Seq<u8>, fixed: int) -> u8 { req[fixed + 5] }

    pub open spec fn scan_stop(out: Outcome, opt: Option<int>, tsig: Option<int>) -> Scan { Scan { out, opt, tsig } }

    /// End of the counted records at `c`.
    pub open spec fn scan_end(req: Seq<u8>, c: int, opt: Option<int>, tsig: Option<int>) -> Scan {
        if c != req.len() { scan_stop(Outcome::Formerr, opt, tsig) }                       // octets after the last counted record
        else if h_opcode(req) == opcode_query() && qdcount_of(req) == 0 { scan_stop(Outcome::Formerr, opt, tsig) } // QUERY without question
        else { scan_stop(Outcome::Proceed, opt, tsig) }
    }

    /// `left` records of the additional section remain, the next one at `c`; `opt` = OPT reached so far.
    pub open spec fn scan_additional(req: Seq<u8>, c: int, left: nat, opt: Option<int>) -> Scan
        decreases left
    {
        if left == 0 { scan_end(req, c, opt, None) }
        else {
            match rr_skip_at(req, c) {
                None => scan_stop(Outcome::Formerr, opt, None),                                  // cannot be delimited
                Some(p) => {
                    let t = u16_at(req, p.0);
                    if t == type_opt() {
                        if opt is Some { scan_stop(Outcome::Formerr, opt, None) }                // more than one OPT
                        else {
                            match rr_at(req, c) {
                                None => scan_stop(Outcome::Formerr, Some(c), None),               // malformed OPT (reached)
                                Some(rr) =>
                                    if rr.owner != seq![0u8] { scan_stop(Outcome::Formerr, Some(c), None) } // owner not the root
                                    else if opt_version(req, p.0) != 0 { scan_stop(Outcome::Badvers, Some(c), None) }
                                    else { scan_additional(req, p.1, (left - 1) as nat, Some(c)) },
                            }
                        }
                    } else if t == type_tsig() {
                        if left != 1 { scan_stop(Outcome::Formerr, opt, None) }                  // TSIG not last
                        else {
                            match rr_at(req, c) {
                                None => scan_stop(Outcome::Formerr, opt, None),                   // malformed TSIG
                                Some(rr) =>
                                    // RFC 8945 4.2: CLASS must be ANY and TTL must be 0 - the TTL FIELD as it is on the
                                    // wire (`rr.ttl` is already normalised per RFC 2181 8, which maps 0x80000000.. to 0)
                                    if rr.class != class_any() || u32_at(req, p.0 + 4) != 0 { scan_stop(Outcome::Formerr, opt, None) }
                                    else { scan_end(req, p.1, opt, Some(c)) },
                            }
                        }
                    } else { scan_additional(req, p.1, (left - 1) as nat, opt) }
                },
            }
        }
    }

    /// `left` records of the answer + authority sections remain, the next one at `c`.
    pub open spec fn scan_plain(req: Seq<u8>, c: int, left: nat) -> Scan
        decreases left
    {
        if left == 0 { scan_additional(req, c, arcount_of(req) as nat, None) }
        else {
            match rr_skip_at(req, c) {
                None => scan_stop(Outcome::Formerr, None, None),                                  // cannot be delimited
                Some(p) =>
                    if u16_at(req, p.0) == type_opt() || u16_at(req, p.0) == type_tsig() { scan_stop(Outcome::Formerr, None, None) } // OPT / TSIG outside additional
                    else { scan_plain(req, p.1, (left - 1) as nat) },
            }
        }
    }

    /// The whole walk, for a request of at least 12 octets with QR clear.
    pub open spec fn prescan(req: Seq<u8>) -> Scan {
        if qdcount_of(req) > 1 { scan_stop(Outcome::NoResponse, None, None) }
        else if qdcount_of(req) == 1 && question_at(req, 12) is None { scan_stop(Outcome::Formerr, None, None) } // question cannot be parsed
        else {
            let c = if qdcount_of(req) == 1 { question_at(req, 12)->Some_0.end } else { 12 };
            scan_plain(req, c, (ancount_of(req) as nat + nscount_of(req) as nat) as nat)
        }
    }

    /// [C09 / C04] "the requestor's advertised payload size clamped to [512, the server's configured size]".
    pub open spec fn clamp_size(theirs: u16, server: u16) -> u16 {
        if theirs < 512 { 512 } else if theirs > server { server } else { theirs }
    }
}
