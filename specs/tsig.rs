// SPEC (oracle) for TSIG, RFC 8945 (properties C11, C10).  Written from the RFC,
// not from the code:
//   4.2     TSIG RDATA layout (Algorithm Name, Time Signed, Fudge, MAC Size, MAC,
//           Original ID, Error, Other Len, Other Data);
//   4.3     digest components: 4.3.1 request MAC, 4.3.2 DNS message, 4.3.3 TSIG
//           variables, 4.3.3.1 TSIG timers; 5.3.1 subsequent messages;
//   5.2     order of the server's checks (key, MAC [5.2.2.1 truncation], time);
//   5.2.2.1 admissible MAC sizes;  5.2.3 time window;  6 algorithm output sizes.
// Canonical name form: RFC 4034 6.2 (upper-case US-ASCII letters -> lower case).
// The keyed hash itself (HMAC, RFC 2104) is NOT specified here: it is an
// uninterpreted function in prelude/tsig_hmac.rs (a cryptographic assumption).
pub mod spec_tsig {
    use vstd::prelude::*;

    // ------------------------------------------------------------ integers on the wire

    /// Octet number `k` (0 = least significant) of the non-negative integer `v`.
    pub open spec fn octet(v: int, k: nat) -> u8
        decreases k
    {
        if k == 0 { (v % 256) as u8 } else { octet(v / 256, (k - 1) as nat) }
    }

    /// Unsigned 16-bit integer in network order (most significant octet first).
    pub open spec fn u16_be(v: int) -> Seq<u8> {
        seq![octet(v, 1), octet(v, 0)]
    }

    /// Unsigned 48-bit integer in network order (RFC 8945 4.2 "Time Signed").
    pub open spec fn u48_be(v: int) -> Seq<u8> {
        seq![octet(v, 5), octet(v, 4), octet(v, 3), octet(v, 2), octet(v, 1), octet(v, 0)]
    }

    /// Unsigned 64-bit integer in network order.
    pub open spec fn u64_be(v: int) -> Seq<u8> {
        seq![octet(v, 7), octet(v, 6), octet(v, 5), octet(v, 4), octet(v, 3), octet(v, 2), octet(v, 1), octet(v, 0)]
    }

    /// Value of two octets in network order at `s[i], s[i+1]`.
    pub open spec fn be16_at(s: Seq<u8>, i: int) -> int {
        (s[i] as int) * 256 + (s[i + 1] as int)
    }

    /// Value of six octets in network order at `s[i] .. s[i+5]`.
    pub open spec fn be48_at(s: Seq<u8>, i: int) -> int {
        (((((s[i] as int) * 256 + (s[i + 1] as int)) * 256 + (s[i + 2] as int)) * 256
            + (s[i + 3] as int)) * 256 + (s[i + 4] as int)) * 256 + (s[i + 5] as int)
    }

    /// 2^48.
    pub spec const U48_LIMIT: int = 0x1_0000_0000_0000;

    // ------------------------------------------------------------ canonical names

    /// RFC 4034 6.2: "all uppercase US-ASCII letters in the owner name of the RR
    /// are replaced by the corresponding lowercase US-ASCII letters".
    pub open spec fn lower_octet(o: u8) -> u8 {
        if 0x41 <= o <= 0x5a { (o + 0x20) as u8 } else { o }
    }

    /// Canonical (RFC 4034 6.2) form of an uncompressed wire-format name.  A
    /// label length octet is at most 63 and therefore never a letter, so folding
    /// every octet is the same as folding the octets of every label.
    pub open spec fn canonical_name(wire: Seq<u8>) -> Seq<u8> {
        Seq::new(wire.len(), |i: int| lower_octet(wire[i]))
    }

    pub open spec fn is_canonical(wire: Seq<u8>) -> bool { canonical_name(wire) == wire }

    // ------------------------------------------------------------ 4.2 TSIG RDATA

    /// RFC 8945 4.2: the TSIG RDATA.
    pub open spec fn tsig_rdata(algorithm: Seq<u8>, time_signed: int, fudge: u16, mac: Seq<u8>, original_id: u16, error: u16, other: Seq<u8>) -> Seq<u8> {
        algorithm + u48_be(time_signed) + u16_be(fudge as int) + u16_be(mac.len() as int) + mac
            + u16_be(original_id as int) + u16_be(error as int) + u16_be(other.len() as int) + other
    }

    /// Length of the TSIG RDATA: name + 6 + 2 + 2 + MAC + 2 + 2 + 2 + other.
    pub open spec fn tsig_rdata_len(algorithm_len: int, mac_len: int, other_len: int) -> int {
        algorithm_len + 16 + mac_len + other_len
    }

    /// RFC 1035 3.2.1: an RR with an uncompressed owner is NAME, TYPE(2), CLASS(2),
    /// TTL(4), RDLENGTH(2), RDATA.
    pub open spec fn rr_len(owner_len: int, rdata_len: int) -> int { owner_len + 10 + rdata_len }

    /// TSIG error 18 (BADTIME), RFC 8945 section 3 / 5.2.3.
    pub spec const BADTIME: u16 = 18;

    /// RFC 8945 5.2.3: a BADTIME response carries the server's time (48 bit) as
    /// Other Data, Other Len 6; otherwise Other Len is 0 (4.2).
    pub open spec fn other_len_for(error: u16) -> int { if error == BADTIME { 6 } else { 0 } }

    /// The fields of a received TSIG RDATA `s` (4.2) whose algorithm name occupies `a` octets.
    pub open spec fn f_time_signed(s: Seq<u8>, a: int) -> int { be48_at(s, a) }
    pub open spec fn f_fudge(s: Seq<u8>, a: int) -> int { be16_at(s, a + 6) }
    pub open spec fn f_mac_size(s: Seq<u8>, a: int) -> int { be16_at(s, a + 8) }
    pub open spec fn f_mac(s: Seq<u8>, a: int) -> Seq<u8> { s.subrange(a + 10, a + 10 + f_mac_size(s, a)) }
    pub open spec fn f_original_id(s: Seq<u8>, a: int) -> int { be16_at(s, a + 10 + f_mac_size(s, a)) }
    pub open spec fn f_error(s: Seq<u8>, a: int) -> int { be16_at(s, a + 12 + f_mac_size(s, a)) }
    pub open spec fn f_other_len(s: Seq<u8>, a: int) -> int { be16_at(s, a + 14 + f_mac_size(s, a)) }
    pub open spec fn f_other(s: Seq<u8>, a: int) -> Seq<u8> { s.subrange(a + 16 + f_mac_size(s, a), s.len() as int) }

    /// `s` is laid out as 4.2 prescribes, the algorithm name occupying `a` octets:
    /// all fixed fields present, MAC and Other Data exactly as long as announced.
    pub open spec fn rdata_layout_ok(s: Seq<u8>, a: int) -> bool {
        &&& 1 <= a
        &&& a + 10 <= s.len()
        &&& a + 16 + f_mac_size(s, a) <= s.len()
        &&& s.len() == a + 16 + f_mac_size(s, a) + f_other_len(s, a)
    }

    // ------------------------------------------------------------ 4.3 digest components

    /// 4.3.1 "Request MAC": "MAC Size (2 octets, network order), MAC Data"; the
    /// same form is used for the prior MAC of 5.3.1.
    pub open spec fn mac_component(mac: Seq<u8>) -> Seq<u8> { u16_be(mac.len() as int) + mac }

    /// The DNS message header is 12 octets (RFC 1035 4.1.1); ID at 0..2, ARCOUNT at 10..12.
    pub open spec fn arcount_of(m: Seq<u8>) -> int { be16_at(m, 10) }

    /// `m` is the message as transmitted up to, but not including, the TSIG RR; its
    /// header still counts the TSIG RR.  (A message carrying a TSIG RR has ARCOUNT >= 1.)
    pub open spec fn message_ok(m: Seq<u8>) -> bool { m.len() >= 12 && arcount_of(m) >= 1 }

    /// 4.3.2 "DNS Message": the message "after the TSIG RR has been removed, the
    /// ARCOUNT decremented, and the message ID replaced by the original message ID".
    pub open spec fn digest_message(m: Seq<u8>, original_id: u16) -> Seq<u8> {
        let id = u16_be(original_id as int);
        let ar = u16_be(arcount_of(m) - 1);
        m.update(0, id[0]).update(1, id[1]).update(10, ar[0]).update(11, ar[1])
    }

    /// 4.3.3 the TSIG variables.
    pub struct TsigVars {
        /// key name, uncompressed wire form (any case)
        pub key_name: Seq<u8>,
        /// algorithm name, uncompressed wire form (any case)
        pub algorithm: Seq<u8>,
        /// seconds since the epoch, 0 <= t < 2^48
        pub time_signed: int,
        pub fudge: u16,
        pub error: u16,
        pub other: Seq<u8>,
    }

    /// Class ANY (255), RFC 1035 3.2.5.
    pub spec const CLASS_ANY: int = 255;

    /// 4.3.3: NAME (canonical wire format), CLASS (MUST be ANY), TTL (MUST be 0),
    /// Algorithm Name (canonical wire format), Time Signed, Fudge, Error, Other
    /// Len, Other Data.
    pub open spec fn tsig_variables(v: TsigVars) -> Seq<u8> {
        canonical_name(v.key_name)
            + u16_be(CLASS_ANY)
            + seq![0u8, 0u8, 0u8, 0u8]
            + canonical_name(v.algorithm)
            + u48_be(v.time_signed)
            + u16_be(v.fudge as int)
            + u16_be(v.error as int)
            + u16_be(v.other.len() as int)
            + v.other
    }

    /// 4.3.3.1: Time Signed, Fudge.
    pub open spec fn tsig_timers(v: TsigVars) -> Seq<u8> {
        u48_be(v.time_signed) + u16_be(v.fudge as int)
    }

    /// Digest input of a request (4.3: DNS message, TSIG variables).
    pub open spec fn request_input(m: Seq<u8>, original_id: u16, v: TsigVars) -> Seq<u8> {
        digest_message(m, original_id) + tsig_variables(v)
    }

    /// Digest input of a response / the first message of a multi-message
    /// response (4.3, 5.3.1: request MAC, DNS message, TSIG variables).
    pub open spec fn response_input(request_mac: Seq<u8>, m: Seq<u8>, original_id: u16, v: TsigVars) -> Seq<u8> {
        mac_component(request_mac) + digest_message(m, original_id) + tsig_variables(v)
    }

    /// Digest input of a subsequent message (5.3.1: prior MAC, DNS message, TSIG timers).
    pub open spec fn subsequent_input(prior_mac: Seq<u8>, m: Seq<u8>, original_id: u16, v: TsigVars) -> Seq<u8> {
        mac_component(prior_mac) + digest_message(m, original_id) + tsig_timers(v)
    }

    // ------------------------------------------------------------ 5.2 verification

    /// 5.2.2.1: a MAC Size greater than the output length, or less than the
    /// larger of 10 octets and half the output length, is a format error.
    pub open spec fn mac_size_ok(output_len: int, mac_size: int) -> bool {
        mac_size <= output_len && mac_size >= 10 && 2 * mac_size >= output_len
    }

    /// 5.2.3: the server time must lie in Time Signed +/- Fudge.
    pub open spec fn time_ok(now: int, time_signed: int, fudge: int) -> bool {
        time_signed - fudge <= now <= time_signed + fudge
    }

    pub enum Outcome { Accept, FormErr, BadSig, BadTime }

    /// 5.2 "the server MUST perform the following checks in the following order:
    /// check key, check MAC, check time values, check truncation policy".  The
    /// key check is the caller's; the MAC check comprises the size rules of
    /// 5.2.2.1 (FORMERR) and the comparison of the possibly truncated MAC (BADSIG);
    /// then the time check (BADTIME).  No local truncation policy beyond 5.2.2.1.
    pub open spec fn verify_outcome(output_len: int, mac: Seq<u8>, computed: Seq<u8>, now: int, time_signed: int, fudge: int) -> Outcome {
        if !mac_size_ok(output_len, mac.len() as int) { Outcome::FormErr }
        else if mac != computed.subrange(0, mac.len() as int) { Outcome::BadSig }
        else if !time_ok(now, time_signed, fudge) { Outcome::BadTime }
        else { Outcome::Accept }
    }

    // ------------------------------------------------------------ lemmas

    /// One step of positional notation in base 256.
    pub proof fn lemma_base256(hi: int, lo: int)
        requires 0 <= lo < 256,
        ensures (hi * 256 + lo) % 256 == lo, (hi * 256 + lo) / 256 == hi,
    {
    }

    pub proof fn lemma_octet_unfold(v: int, k: nat)
        requires k > 0,
        ensures octet(v, k) == octet(v / 256, (k - 1) as nat),
    {
    }

    /// Six octets are the network-order form of their own value.
    pub proof fn lemma_u48_roundtrip(s: Seq<u8>, i: int)
        requires 0 <= i, i + 6 <= s.len(),
        ensures
            0 <= be48_at(s, i) < U48_LIMIT,
            u48_be(be48_at(s, i)) == s.subrange(i, i + 6),
    {
        let (a, b, c, d, e, f) = (s[i] as int, s[i + 1] as int, s[i + 2] as int, s[i + 3] as int, s[i + 4] as int, s[i + 5] as int);
        let v1 = a;
        let v2 = v1 * 256 + b;
        let v3 = v2 * 256 + c;
        let v4 = v3 * 256 + d;
        let v5 = v4 * 256 + e;
        let v6 = v5 * 256 + f;
        assert(v6 == be48_at(s, i));
        lemma_base256(v5, f); lemma_base256(v4, e); lemma_base256(v3, d); lemma_base256(v2, c); lemma_base256(v1, b); lemma_base256(0, a);
        assert(octet(v6, 0) == f as u8);
        lemma_octet_unfold(v6, 1); assert(octet(v6, 1) == octet(v5, 0));
        lemma_octet_unfold(v6, 2); lemma_octet_unfold(v5, 1); assert(octet(v6, 2) == octet(v4, 0));
        lemma_octet_unfold(v6, 3); lemma_octet_unfold(v5, 2); lemma_octet_unfold(v4, 1); assert(octet(v6, 3) == octet(v3, 0));
        lemma_octet_unfold(v6, 4); lemma_octet_unfold(v5, 3); lemma_octet_unfold(v4, 2); lemma_octet_unfold(v3, 1); assert(octet(v6, 4) == octet(v2, 0));
        lemma_octet_unfold(v6, 5); lemma_octet_unfold(v5, 4); lemma_octet_unfold(v4, 3); lemma_octet_unfold(v3, 2); lemma_octet_unfold(v2, 1);
        assert(octet(v6, 5) == octet(v1, 0));
        assert(u48_be(v6) =~= s.subrange(i, i + 6));
        assert(0 <= v1 < 0x100);
        assert(0 <= v2 < 0x1_0000);
        assert(0 <= v3 < 0x100_0000);
        assert(0 <= v4 < 0x1_0000_0000);
        assert(0 <= v5 < 0x100_0000_0000);
    }

    /// The network-order form of a 48-bit value has that value.
    pub proof fn lemma_u48_value(v: int)
        requires 0 <= v < U48_LIMIT,
        ensures u48_be(v).len() == 6, be48_at(u48_be(v), 0) == v,
    {
        let q1 = v / 256; let q2 = q1 / 256; let q3 = q2 / 256; let q4 = q3 / 256; let q5 = q4 / 256;
        lemma_octet_unfold(v, 1);
        lemma_octet_unfold(v, 2); lemma_octet_unfold(q1, 1);
        lemma_octet_unfold(v, 3); lemma_octet_unfold(q1, 2); lemma_octet_unfold(q2, 1);
        lemma_octet_unfold(v, 4); lemma_octet_unfold(q1, 3); lemma_octet_unfold(q2, 2); lemma_octet_unfold(q3, 1);
        lemma_octet_unfold(v, 5); lemma_octet_unfold(q1, 4); lemma_octet_unfold(q2, 3); lemma_octet_unfold(q3, 2); lemma_octet_unfold(q4, 1);
        assert(octet(v, 0) as int == v % 256);
        assert(octet(v, 1) as int == q1 % 256);
        assert(octet(v, 2) as int == q2 % 256);
        assert(octet(v, 3) as int == q3 % 256);
        assert(octet(v, 4) as int == q4 % 256);
        assert(octet(v, 5) as int == q5 % 256);
        assert(q5 < 256);
        assert(q5 % 256 == q5);
        assert(q4 == q5 * 256 + q4 % 256);
        assert(q3 == q4 * 256 + q3 % 256);
        assert(q2 == q3 * 256 + q2 % 256);
        assert(q1 == q2 * 256 + q1 % 256);
        assert(v == q1 * 256 + v % 256);
    }

    /// The two leading octets of a 64-bit value are zero exactly when it fits in 48 bits.
    pub proof fn lemma_u64_high_octets(v: int)
        requires 0 <= v < 0x1_0000_0000_0000_0000,
        ensures (octet(v, 7) == 0 && octet(v, 6) == 0) <==> v < U48_LIMIT,
    {
        let q1 = v / 256; let q2 = q1 / 256; let q3 = q2 / 256; let q4 = q3 / 256; let q5 = q4 / 256; let q6 = q5 / 256; let q7 = q6 / 256;
        lemma_octet_unfold(v, 6); lemma_octet_unfold(q1, 5); lemma_octet_unfold(q2, 4); lemma_octet_unfold(q3, 3); lemma_octet_unfold(q4, 2); lemma_octet_unfold(q5, 1);
        lemma_octet_unfold(v, 7); lemma_octet_unfold(q1, 6); lemma_octet_unfold(q2, 5); lemma_octet_unfold(q3, 4); lemma_octet_unfold(q4, 3); lemma_octet_unfold(q5, 2); lemma_octet_unfold(q6, 1);
        assert(octet(v, 6) as int == q6 % 256);
        assert(octet(v, 7) as int == q7 % 256);
        assert(q1 < 0x100_0000_0000_0000);
        assert(q2 < 0x1_0000_0000_0000);
        assert(q3 < 0x100_0000_0000);
        assert(q4 < 0x1_0000_0000);
        assert(q5 < 0x100_0000);
        assert(q6 < 0x1_0000);
        assert(q7 < 0x100);
        assert((q6 == 0) <==> (q5 < 0x100));
        assert((q5 < 0x100) <==> (q4 < 0x1_0000));
        assert((q4 < 0x1_0000) <==> (q3 < 0x100_0000));
        assert((q3 < 0x100_0000) <==> (q2 < 0x1_0000_0000));
        assert((q2 < 0x1_0000_0000) <==> (q1 < 0x100_0000_0000));
        assert((q1 < 0x100_0000_0000) <==> (v < 0x1_0000_0000_0000));
    }

    pub proof fn lemma_u16_roundtrip(s: Seq<u8>, i: int)
        requires 0 <= i, i + 2 <= s.len(),
        ensures 0 <= be16_at(s, i) < 65536, u16_be(be16_at(s, i)) == s.subrange(i, i + 2),
    {
        let (a, b) = (s[i] as int, s[i + 1] as int);
        lemma_base256(a, b); lemma_base256(0, a);
        lemma_octet_unfold(a * 256 + b, 1);
        assert(u16_be(be16_at(s, i)) =~= s.subrange(i, i + 2));
    }

    /// Both octets of a 16-bit value, explicitly.
    pub proof fn lemma_u16_be(v: int)
        requires 0 <= v < 65536,
        ensures u16_be(v).len() == 2, u16_be(v)[0] as int == v / 256, u16_be(v)[1] as int == v % 256, be16_at(u16_be(v), 0) == v,
    {
        lemma_octet_unfold(v, 1);
    }

    /// Canonical form is idempotent and keeps the length.
    pub proof fn lemma_canonical_idem(w: Seq<u8>)
        ensures is_canonical(canonical_name(w)), canonical_name(w).len() == w.len(),
    {
        assert(canonical_name(canonical_name(w)) =~= canonical_name(w));
    }

    /// 4.3.2 restated as a concatenation: original ID, header octets 2..10,
    /// ARCOUNT - 1, everything after the header.
    pub proof fn lemma_digest_message_concat(m: Seq<u8>, original_id: u16)
        requires m.len() >= 12,
        ensures
            digest_message(m, original_id)
                == u16_be(original_id as int) + m.subrange(2, 10) + u16_be(arcount_of(m) - 1) + m.subrange(12, m.len() as int),
    {
        assert(digest_message(m, original_id)
            =~= u16_be(original_id as int) + m.subrange(2, 10) + u16_be(arcount_of(m) - 1) + m.subrange(12, m.len() as int));
    }

    /// Tampering: two transmitted messages of the same length that differ in any
    /// octet other than the (replaced) message ID give different digest messages,
    /// hence different digest inputs with the same variables.  (That a different
    /// input gives a different MAC is the collision resistance of HMAC - a
    /// cryptographic assumption, not proved.)
    pub proof fn lemma_tamper_changes_input(m1: Seq<u8>, m2: Seq<u8>, original_id: u16, v: TsigVars, k: int)
        requires
            message_ok(m1), message_ok(m2), m1.len() == m2.len(),
            2 <= k < m1.len(), m1[k] != m2[k],
        ensures
            digest_message(m1, original_id) != digest_message(m2, original_id),
            request_input(m1, original_id, v) != request_input(m2, original_id, v),
    {
        let d1 = digest_message(m1, original_id);
        let d2 = digest_message(m2, original_id);
        assert(d1.len() == d2.len());
        if k == 10 || k == 11 {
            let a1 = arcount_of(m1) - 1;
            let a2 = arcount_of(m2) - 1;
            assert(0 <= a1 < 65535 && 0 <= a2 < 65535);
            if d1 == d2 {
                assert(d1[10] == d2[10] && d1[11] == d2[11]);
                lemma_u16_be(a1); lemma_u16_be(a2);
                assert(a1 == a2);
                assert(false);
            }
        } else {
            assert(d1[k] == m1[k] && d2[k] == m2[k]);
        }
        let r1 = request_input(m1, original_id, v);
        let r2 = request_input(m2, original_id, v);
        if r1 == r2 {
            assert(r1.subrange(0, d1.len() as int) =~= d1);
            assert(r2.subrange(0, d2.len() as int) =~= d2);
            assert(false);
        }
    }

    /// Tampering with the TSIG RR: a different original ID changes the digest message ...
    pub proof fn lemma_tamper_original_id(m: Seq<u8>, id1: u16, id2: u16)
        requires message_ok(m), id1 != id2,
        ensures digest_message(m, id1) != digest_message(m, id2),
    {
        lemma_u16_be(id1 as int); lemma_u16_be(id2 as int);
        let d1 = digest_message(m, id1);
        let d2 = digest_message(m, id2);
        if d1 == d2 {
            assert(d1[0] == d2[0] && d1[1] == d2[1]);
            assert(false);
        }
    }

    /// ... and different TSIG variables (key name, algorithm, time signed, fudge,
    /// error, other data - anything that changes their 4.3.3 encoding) change the
    /// digest input of the same message.
    pub proof fn lemma_tamper_variables(m: Seq<u8>, original_id: u16, v1: TsigVars, v2: TsigVars)
        requires tsig_variables(v1) != tsig_variables(v2),
        ensures request_input(m, original_id, v1) != request_input(m, original_id, v2),
    {
        let d = digest_message(m, original_id);
        let r1 = request_input(m, original_id, v1);
        let r2 = request_input(m, original_id, v2);
        if r1 == r2 {
            assert(r1.subrange(d.len() as int, r1.len() as int) =~= tsig_variables(v1));
            assert(r2.subrange(d.len() as int, r2.len() as int) =~= tsig_variables(v2));
            assert(false);
        }
    }
}
