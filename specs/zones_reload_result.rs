// SPEC (C31): the contract of `zones::{load, reload}` (= `load_impl`) as ONE predicate, so that callers
// (unit zones_reload_run: src/bin/quandaryd/run.rs) can name "the catalog a (re)load returns".
// It is the conjunction of the three postconditions proved for `load_impl` in unit zones_reload,
// i.e. T of specs/zones_reload.rs for every configured zone plus "entries for exactly the configured zones".
pub mod spec_zones_result {
    use vstd::prelude::*;
    use crate::config::ZoneConfig;
    use crate::spec_zones::*;

    /// What `load_impl` needs: the configuration loader rejects duplicated zones, `zones_failed`
    /// is an i32 counter, and the previous catalog (if any) was itself built by `load_impl`.
    pub open spec fn load_pre(zs: Seq<ZoneConfig>, prev: Option<CatView>) -> bool {
        &&& distinct_zones(zs)
        &&& zs.len() < 0x7fff_ffff
        &&& (prev is Some ==> catalog_ok(prev->Some_0))
    }

    /// `r` is a catalog that a (re)load of the configured zones `zs` over the previous catalog
    /// `prev` returns: entries for exactly the configured zones (zones removed from the
    /// configuration are absent), and each configured zone is filed under its own name and class
    /// with fresh data / ITS OWN previous Loaded data / a FailedToLoad placeholder (`zone_entry_ok`).
    pub open spec fn load_result_ok(zs: Seq<ZoneConfig>, prev: Option<CatView>, r: CatView) -> bool {
        &&& catalog_ok(r)
        &&& dom_is(r, zs, zs.len() as int)
        &&& forall|i: int| 0 <= i < zs.len() ==> r.contains_key(zkey(#[trigger] zs[i]))
                && zone_entry_ok(zs[i], prev_exact(prev, zs[i]), r[zkey(zs[i])])
    }
}
