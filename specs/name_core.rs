// SPEC (oracle) for the accessor layer of `crate::name::{Name, Label, LabelBuf}`
// (property C16).  Written from the property text and the RFCs, not from the code:
//   * RFC 1035 3.1: a name is a sequence of labels; on the wire each label is a
//     length octet followed by that many octets, the last label is the null label.
//   * RFC 1034 3.1 / RFC 4343: comparison of labels ignores ASCII case (A-Z only).
//   * RFC 4034 6.1: canonical order - names are compared label by label from the
//     rightmost label; labels as left-justified octet strings with upper-case
//     ASCII letters treated as lower case; absence of an octet / of a label sorts first.
pub mod spec_name_core {
    use vstd::prelude::*;
    use core::cmp::Ordering;
    use crate::spec_name::*;
    use crate::spec_name_builder::*;

    // ------------------------------------------------------------ case folding

    /// ASCII lower-casing of one octet (RFC 4343): only 'A'..='Z' change.
    pub open spec fn lower(b: u8) -> u8 { if 65 <= b && b <= 90 { (b + 32) as u8 } else { b } }
    pub open spec fn lower_seq(s: Seq<u8>) -> Seq<u8> { Seq::new(s.len(), |i: int| lower(s[i])) }

    /// Two octet strings are equal up to ASCII case - and nothing else: same
    /// length, and octet by octet equal after folding A-Z.
    pub open spec fn ci_eq(a: Seq<u8>, b: Seq<u8>) -> bool {
        a.len() == b.len() && forall|i: int| 0 <= i < a.len() ==> lower(#[trigger] a[i]) == lower(b[i])
    }

    pub proof fn lemma_ci_eq_lower(a: Seq<u8>, b: Seq<u8>)
        ensures ci_eq(a, b) == (lower_seq(a) == lower_seq(b)),
    {
        if ci_eq(a, b) {
            assert(lower_seq(a) =~= lower_seq(b));
        }
        if lower_seq(a) == lower_seq(b) {
            assert(lower_seq(a).len() == a.len() && lower_seq(b).len() == b.len());
            assert forall|i: int| 0 <= i < a.len() implies lower(#[trigger] a[i]) == lower(b[i]) by {
                assert(lower_seq(a)[i] == lower(a[i]));
                assert(lower_seq(b)[i] == lower(b[i]));
            }
        }
    }

    /// `ci_eq` is an equivalence relation.
    pub proof fn lemma_ci_eq_equiv(a: Seq<u8>, b: Seq<u8>, c: Seq<u8>)
        ensures
            ci_eq(a, a),
            ci_eq(a, b) == ci_eq(b, a),
            ci_eq(a, b) && ci_eq(b, c) ==> ci_eq(a, c),
    {
        lemma_ci_eq_lower(a, a);
        lemma_ci_eq_lower(a, b);
        lemma_ci_eq_lower(b, a);
        lemma_ci_eq_lower(b, c);
        lemma_ci_eq_lower(a, c);
    }

    // ------------------------------------------------------------ labels of a wire-form name

    /// Octets of the label whose length octet is at offset `o` of the wire form `w`.
    pub open spec fn label_at(w: Seq<u8>, o: int) -> Seq<u8> { w.subrange(o + 1, o + 1 + w[o] as int) }

    /// The labels of the valid wire-form name `w`, label 0 (leftmost) first, the
    /// null (root) label last; octets as stored (case preserved).
    pub open spec fn raw_labels(w: Seq<u8>) -> Seq<Seq<u8>> {
        Seq::new(name_offsets(w).len(), |i: int| label_at(w, name_offsets(w)[i]))
    }

    /// The same, ASCII-lower-cased: the key under which names are compared.
    pub open spec fn wire_labels(w: Seq<u8>) -> Seq<Seq<u8>> {
        Seq::new(name_offsets(w).len(), |i: int| lower_seq(label_at(w, name_offsets(w)[i])))
    }

    /// Label-wise equality up to ASCII case: same number of labels, pairwise `ci_eq`.
    pub open spec fn labels_ci_eq(a: Seq<Seq<u8>>, b: Seq<Seq<u8>>) -> bool {
        a.len() == b.len() && forall|i: int| 0 <= i < a.len() ==> ci_eq(#[trigger] a[i], b[i])
    }

    /// `s` is a (non-strict) suffix of `n` in label terms, up to ASCII case: the
    /// name with labels `n` is equal to or a subdomain of the one with labels `s`.
    pub open spec fn labels_ci_suffix(s: Seq<Seq<u8>>, n: Seq<Seq<u8>>) -> bool {
        s.len() <= n.len() && forall|j: int| 0 <= j < s.len() ==> ci_eq(#[trigger] n[n.len() - 1 - j], s[s.len() - 1 - j])
    }

    pub proof fn lemma_labels_ci_eq_equiv(a: Seq<Seq<u8>>, b: Seq<Seq<u8>>, c: Seq<Seq<u8>>)
        ensures
            labels_ci_eq(a, a),
            labels_ci_eq(a, b) == labels_ci_eq(b, a),
            labels_ci_eq(a, b) && labels_ci_eq(b, c) ==> labels_ci_eq(a, c),
    {
        assert forall|i: int| 0 <= i < a.len() implies ci_eq(#[trigger] a[i], a[i]) by { lemma_ci_eq_equiv(a[i], a[i], a[i]); }
        if labels_ci_eq(a, b) {
            assert forall|i: int| 0 <= i < b.len() implies ci_eq(#[trigger] b[i], a[i]) by { lemma_ci_eq_equiv(a[i], b[i], b[i]); }
        }
        if labels_ci_eq(b, a) {
            assert forall|i: int| 0 <= i < a.len() implies ci_eq(#[trigger] a[i], b[i]) by { lemma_ci_eq_equiv(b[i], a[i], a[i]); }
        }
        if labels_ci_eq(a, b) && labels_ci_eq(b, c) {
            assert forall|i: int| 0 <= i < a.len() implies ci_eq(#[trigger] a[i], c[i]) by { lemma_ci_eq_equiv(a[i], b[i], c[i]); }
        }
    }

    /// Names are equal up to case exactly when their folded label sequences are identical.
    pub proof fn lemma_labels_ci_eq_folded(a: Seq<u8>, b: Seq<u8>)
        ensures labels_ci_eq(raw_labels(a), raw_labels(b)) == (wire_labels(a) == wire_labels(b)),
    {
        let ra = raw_labels(a);
        let rb = raw_labels(b);
        let fa = wire_labels(a);
        let fb = wire_labels(b);
        assert(fa.len() == ra.len() && fb.len() == rb.len());
        if labels_ci_eq(ra, rb) {
            assert forall|i: int| 0 <= i < fa.len() implies fa[i] == fb[i] by {
                assert(ci_eq(ra[i], rb[i]));
                lemma_ci_eq_lower(ra[i], rb[i]);
            }
            assert(fa =~= fb);
        }
        if fa == fb {
            assert forall|i: int| 0 <= i < ra.len() implies ci_eq(#[trigger] ra[i], rb[i]) by {
                assert(fa[i] == lower_seq(ra[i]));
                assert(fb[i] == lower_seq(rb[i]));
                lemma_ci_eq_lower(ra[i], rb[i]);
            }
        }
    }

    // ------------------------------------------------------------ RFC 4034 6.1 canonical order

    pub open spec fn cmp_int(a: int, b: int) -> Ordering {
        if a < b { Ordering::Less } else if a == b { Ordering::Equal } else { Ordering::Greater }
    }

    pub open spec fn ord_rev(o: Ordering) -> Ordering {
        match o { Ordering::Less => Ordering::Greater, Ordering::Equal => Ordering::Equal, Ordering::Greater => Ordering::Less }
    }

    /// Labels as left-justified octet strings, upper-case ASCII letters treated as
    /// lower case; absence of an octet sorts before any octet.
    pub open spec fn label_cmp(a: Seq<u8>, b: Seq<u8>) -> Ordering
        decreases a.len()
    {
        if a.len() == 0 && b.len() == 0 { Ordering::Equal }
        else if a.len() == 0 { Ordering::Less }
        else if b.len() == 0 { Ordering::Greater }
        else if lower(a[0]) < lower(b[0]) { Ordering::Less }
        else if lower(a[0]) > lower(b[0]) { Ordering::Greater }
        else { label_cmp(a.skip(1), b.skip(1)) }
    }

    /// Names (label sequences, leftmost label first) sorted by their most
    /// significant = rightmost labels first; absence of a label sorts first.
    pub open spec fn name_cmp(a: Seq<Seq<u8>>, b: Seq<Seq<u8>>) -> Ordering
        decreases a.len()
    {
        if a.len() == 0 && b.len() == 0 { Ordering::Equal }
        else if a.len() == 0 { Ordering::Less }
        else if b.len() == 0 { Ordering::Greater }
        else {
            match label_cmp(a.last(), b.last()) {
                Ordering::Equal => name_cmp(a.drop_last(), b.drop_last()),
                o => o,
            }
        }
    }

    /// `label_cmp` skips a common (case-folded) prefix.
    pub proof fn lemma_label_cmp_prefix(a: Seq<u8>, b: Seq<u8>, k: int)
        requires
            0 <= k <= a.len(), k <= b.len(),
            forall|i: int| 0 <= i < k ==> lower(#[trigger] a[i]) == lower(b[i]),
        ensures label_cmp(a, b) == label_cmp(a.skip(k), b.skip(k)),
        decreases k
    {
        if k == 0 {
            assert(a.skip(0) =~= a);
            assert(b.skip(0) =~= b);
        } else {
            assert(lower(a[0]) == lower(b[0]));
            let a1 = a.skip(1);
            let b1 = b.skip(1);
            assert forall|i: int| 0 <= i < k - 1 implies lower(#[trigger] a1[i]) == lower(b1[i]) by {
                assert(a1[i] == a[i + 1]);
                assert(b1[i] == b[i + 1]);
            }
            lemma_label_cmp_prefix(a1, b1, k - 1);
            assert(a1.skip(k - 1) =~= a.skip(k));
            assert(b1.skip(k - 1) =~= b.skip(k));
        }
    }

    /// What `label_cmp` is at the first position where the folded octets differ,
    /// and when there is none.
    pub proof fn lemma_label_cmp_at(a: Seq<u8>, b: Seq<u8>, k: int)
        requires
            0 <= k <= a.len(), k <= b.len(),
            forall|i: int| 0 <= i < k ==> lower(#[trigger] a[i]) == lower(b[i]),
        ensures
            (k < a.len() && k < b.len() && lower(a[k]) != lower(b[k])) ==> label_cmp(a, b) == cmp_int(lower(a[k]) as int, lower(b[k]) as int),
            (k == a.len() || k == b.len()) ==> label_cmp(a, b) == cmp_int(a.len() as int, b.len() as int),
    {
        lemma_label_cmp_prefix(a, b, k);
        let a1 = a.skip(k);
        let b1 = b.skip(k);
        if k < a.len() && k < b.len() {
            assert(a1[0] == a[k]);
            assert(b1[0] == b[k]);
        }
    }

    /// [C16 order/eq consistency, label level] `cmp == Equal` exactly when equal up to case.
    pub proof fn lemma_label_cmp_equal(a: Seq<u8>, b: Seq<u8>)
        ensures (label_cmp(a, b) == Ordering::Equal) == ci_eq(a, b),
        decreases a.len()
    {
        if a.len() == 0 || b.len() == 0 {
        } else {
            let a1 = a.skip(1);
            let b1 = b.skip(1);
            lemma_label_cmp_equal(a1, b1);
            if ci_eq(a, b) {
                assert(lower(a[0]) == lower(b[0]));
                assert forall|i: int| 0 <= i < a1.len() implies lower(#[trigger] a1[i]) == lower(b1[i]) by {
                    assert(a1[i] == a[i + 1]);
                    assert(b1[i] == b[i + 1]);
                }
            }
            if lower(a[0]) == lower(b[0]) && ci_eq(a1, b1) {
                assert forall|i: int| 0 <= i < a.len() implies lower(#[trigger] a[i]) == lower(b[i]) by {
                    if i > 0 {
                        assert(a1[i - 1] == a[i]);
                        assert(b1[i - 1] == b[i]);
                    }
                }
            }
        }
    }

    /// Antisymmetry: swapping the arguments reverses the result.
    pub proof fn lemma_label_cmp_antisym(a: Seq<u8>, b: Seq<u8>)
        ensures label_cmp(b, a) == ord_rev(label_cmp(a, b)),
        decreases a.len()
    {
        if a.len() > 0 && b.len() > 0 {
            lemma_label_cmp_antisym(a.skip(1), b.skip(1));
        }
    }

    /// Transitivity (with the Equal cases, i.e. `label_cmp` is a total preorder whose
    /// equivalence is `ci_eq`).
    pub proof fn lemma_label_cmp_trans(a: Seq<u8>, b: Seq<u8>, c: Seq<u8>)
        ensures
            label_cmp(a, b) == Ordering::Equal ==> label_cmp(a, c) == label_cmp(b, c),
            label_cmp(b, c) == Ordering::Equal ==> label_cmp(a, c) == label_cmp(a, b),
            label_cmp(a, b) == Ordering::Less && label_cmp(b, c) == Ordering::Less ==> label_cmp(a, c) == Ordering::Less,
            label_cmp(a, b) == Ordering::Greater && label_cmp(b, c) == Ordering::Greater ==> label_cmp(a, c) == Ordering::Greater,
        decreases a.len()
    {
        if a.len() > 0 && b.len() > 0 && c.len() > 0 {
            lemma_label_cmp_trans(a.skip(1), b.skip(1), c.skip(1));
        }
    }

    /// `name_cmp` skips a common run of (case-insensitively equal) rightmost labels.
    pub proof fn lemma_name_cmp_suffix(a: Seq<Seq<u8>>, b: Seq<Seq<u8>>, k: int)
        requires
            0 <= k <= a.len(), k <= b.len(),
            forall|j: int| 0 <= j < k ==> label_cmp(#[trigger] a[a.len() - 1 - j], b[b.len() - 1 - j]) == Ordering::Equal,
        ensures name_cmp(a, b) == name_cmp(a.take(a.len() - k), b.take(b.len() - k)),
        decreases k
    {
        if k == 0 {
            assert(a.take(a.len() as int) =~= a);
            assert(b.take(b.len() as int) =~= b);
        } else {
            assert(label_cmp(a[a.len() - 1 - 0], b[b.len() - 1 - 0]) == Ordering::Equal);
            let a1 = a.drop_last();
            let b1 = b.drop_last();
            assert forall|j: int| 0 <= j < k - 1 implies label_cmp(#[trigger] a1[a1.len() - 1 - j], b1[b1.len() - 1 - j]) == Ordering::Equal by {
                assert(a1[a1.len() - 1 - j] == a[a.len() - 1 - (j + 1)]);
                assert(b1[b1.len() - 1 - j] == b[b.len() - 1 - (j + 1)]);
            }
            lemma_name_cmp_suffix(a1, b1, k - 1);
            assert(a1.take(a1.len() - (k - 1)) =~= a.take(a.len() - k));
            assert(b1.take(b1.len() - (k - 1)) =~= b.take(b.len() - k));
        }
    }

    /// What `name_cmp` is at the first label (from the right) that differs, and
    /// when one name runs out of labels.
    pub proof fn lemma_name_cmp_at(a: Seq<Seq<u8>>, b: Seq<Seq<u8>>, k: int)
        requires
            0 <= k <= a.len(), k <= b.len(),
            forall|j: int| 0 <= j < k ==> label_cmp(#[trigger] a[a.len() - 1 - j], b[b.len() - 1 - j]) == Ordering::Equal,
        ensures
            (k < a.len() && k < b.len() && label_cmp(a[a.len() - 1 - k], b[b.len() - 1 - k]) != Ordering::Equal)
                ==> name_cmp(a, b) == label_cmp(a[a.len() - 1 - k], b[b.len() - 1 - k]),
            (k == a.len() || k == b.len()) ==> name_cmp(a, b) == cmp_int(a.len() as int, b.len() as int),
    {
        lemma_name_cmp_suffix(a, b, k);
        let a1 = a.take(a.len() - k);
        let b1 = b.take(b.len() - k);
        if k < a.len() && k < b.len() {
            assert(a1.last() == a[a.len() - 1 - k]);
            assert(b1.last() == b[b.len() - 1 - k]);
        }
    }

    /// [C16 order/eq consistency] `name_cmp == Equal` exactly when the names are equal up to case.
    pub proof fn lemma_name_cmp_equal(a: Seq<Seq<u8>>, b: Seq<Seq<u8>>)
        ensures (name_cmp(a, b) == Ordering::Equal) == labels_ci_eq(a, b),
        decreases a.len()
    {
        if a.len() == 0 || b.len() == 0 {
        } else {
            let a1 = a.drop_last();
            let b1 = b.drop_last();
            lemma_name_cmp_equal(a1, b1);
            lemma_label_cmp_equal(a.last(), b.last());
            if labels_ci_eq(a, b) {
                assert(ci_eq(a[a.len() - 1], b[a.len() - 1]));
                assert forall|i: int| 0 <= i < a1.len() implies ci_eq(#[trigger] a1[i], b1[i]) by {
                    assert(a1[i] == a[i]);
                    assert(b1[i] == b[i]);
                    assert(ci_eq(a[i], b[i]));
                }
            }
            if ci_eq(a.last(), b.last()) && labels_ci_eq(a1, b1) {
                assert forall|i: int| 0 <= i < a.len() implies ci_eq(#[trigger] a[i], b[i]) by {
                    if i < a1.len() {
                        assert(a1[i] == a[i]);
                        assert(b1[i] == b[i]);
                        assert(ci_eq(a1[i], b1[i]));
                    }
                }
            }
        }
    }

    pub proof fn lemma_name_cmp_antisym(a: Seq<Seq<u8>>, b: Seq<Seq<u8>>)
        ensures name_cmp(b, a) == ord_rev(name_cmp(a, b)),
        decreases a.len()
    {
        if a.len() > 0 && b.len() > 0 {
            lemma_label_cmp_antisym(a.last(), b.last());
            lemma_name_cmp_antisym(a.drop_last(), b.drop_last());
        }
    }

    pub proof fn lemma_name_cmp_trans(a: Seq<Seq<u8>>, b: Seq<Seq<u8>>, c: Seq<Seq<u8>>)
        ensures
            name_cmp(a, b) == Ordering::Equal ==> name_cmp(a, c) == name_cmp(b, c),
            name_cmp(b, c) == Ordering::Equal ==> name_cmp(a, c) == name_cmp(a, b),
            name_cmp(a, b) == Ordering::Less && name_cmp(b, c) == Ordering::Less ==> name_cmp(a, c) == Ordering::Less,
            name_cmp(a, b) == Ordering::Greater && name_cmp(b, c) == Ordering::Greater ==> name_cmp(a, c) == Ordering::Greater,
        decreases a.len()
    {
        if a.len() > 0 && b.len() > 0 && c.len() > 0 {
            lemma_label_cmp_trans(a.last(), b.last(), c.last());
            lemma_name_cmp_trans(a.drop_last(), b.drop_last(), c.drop_last());
        }
    }

    // ------------------------------------------------------------ hashing

    /// What one label feeds to the hasher: its length octet, then its folded octets.
    pub open spec fn label_hash_input(l: Seq<u8>) -> Seq<u8> { seq![l.len() as u8] + lower_seq(l) }

    /// What a name feeds: its labels in order.
    pub open spec fn labels_hash_input(ls: Seq<Seq<u8>>) -> Seq<u8>
        decreases ls.len()
    {
        if ls.len() == 0 { Seq::empty() } else { labels_hash_input(ls.drop_last()) + label_hash_input(ls.last()) }
    }

    /// [C16 hash/eq consistency] equal (up to case) labels feed identical input.
    pub proof fn lemma_label_hash_eq(a: Seq<u8>, b: Seq<u8>)
        requires ci_eq(a, b),
        ensures label_hash_input(a) == label_hash_input(b),
    {
        lemma_ci_eq_lower(a, b);
    }

    /// [C16 hash/eq consistency] equal (up to case) names feed identical input.
    pub proof fn lemma_labels_hash_eq(a: Seq<Seq<u8>>, b: Seq<Seq<u8>>)
        requires labels_ci_eq(a, b),
        ensures labels_hash_input(a) == labels_hash_input(b),
        decreases a.len()
    {
        if a.len() > 0 {
            let a1 = a.drop_last();
            let b1 = b.drop_last();
            assert forall|i: int| 0 <= i < a1.len() implies ci_eq(#[trigger] a1[i], b1[i]) by {
                assert(a1[i] == a[i]);
                assert(b1[i] == b[i]);
                assert(ci_eq(a[i], b[i]));
            }
            lemma_labels_hash_eq(a1, b1);
            assert(ci_eq(a[a.len() - 1], b[a.len() - 1]));
            lemma_label_hash_eq(a.last(), b.last());
        }
    }

    /// Nothing but case is ignored by the hash input of one label (labels of at most 255 octets).
    pub proof fn lemma_label_hash_inj(a: Seq<u8>, b: Seq<u8>)
        requires a.len() <= 255, b.len() <= 255, label_hash_input(a) == label_hash_input(b),
        ensures ci_eq(a, b),
    {
        let ha = label_hash_input(a);
        let hb = label_hash_input(b);
        assert(ha.len() == a.len() + 1);
        assert(hb.len() == b.len() + 1);
        assert forall|i: int| 0 <= i < a.len() implies lower(#[trigger] a[i]) == lower(b[i]) by {
            assert(ha[i + 1] == lower_seq(a)[i]);
            assert(hb[i + 1] == lower_seq(b)[i]);
        }
    }

    /// The hash input read from the left: first label first.
    pub proof fn lemma_labels_hash_input_left(ls: Seq<Seq<u8>>)
        requires ls.len() > 0,
        ensures labels_hash_input(ls) == label_hash_input(ls[0]) + labels_hash_input(ls.skip(1)),
        decreases ls.len()
    {
        if ls.len() == 1 {
            assert(ls.drop_last() =~= Seq::<Seq<u8>>::empty());
            assert(ls.skip(1) =~= Seq::<Seq<u8>>::empty());
            assert(labels_hash_input(ls.drop_last()) =~= Seq::<u8>::empty());
            assert(labels_hash_input(ls) =~= label_hash_input(ls[0]) + Seq::<u8>::empty());
        } else {
            let d = ls.drop_last();
            lemma_labels_hash_input_left(d);
            assert(d.skip(1) =~= ls.skip(1).drop_last());
            assert(ls.skip(1).last() == ls.last());
            assert(d[0] == ls[0]);
            assert(labels_hash_input(ls) =~= label_hash_input(ls[0]) + (labels_hash_input(ls.skip(1).drop_last()) + label_hash_input(ls.last())));
        }
    }

    /// [C16 hash ignores nothing but case] names (labels of at most 255 octets) that feed the
    /// hasher identical octets are equal up to ASCII case: the length octets make the input a prefix code.
    pub proof fn lemma_labels_hash_inj(a: Seq<Seq<u8>>, b: Seq<Seq<u8>>)
        requires
            forall|i: int| 0 <= i < a.len() ==> (#[trigger] a[i]).len() <= 255,
            forall|i: int| 0 <= i < b.len() ==> (#[trigger] b[i]).len() <= 255,
            labels_hash_input(a) == labels_hash_input(b),
        ensures labels_ci_eq(a, b),
        decreases a.len()
    {
        if a.len() == 0 {
            if b.len() > 0 {
                lemma_labels_hash_input_left(b);
                assert(label_hash_input(b[0]).len() >= 1);
            }
        } else {
            lemma_labels_hash_input_left(a);
            if b.len() == 0 {
                assert(label_hash_input(a[0]).len() >= 1);
            } else {
                lemma_labels_hash_input_left(b);
                let ha = label_hash_input(a[0]);
                let hb = label_hash_input(b[0]);
                let ra = labels_hash_input(a.skip(1));
                let rb = labels_hash_input(b.skip(1));
                assert(a[0].len() <= 255 && b[0].len() <= 255);
                assert((ha + ra)[0] == ha[0] && (hb + rb)[0] == hb[0]);
                assert(ha[0] == a[0].len() as u8 && hb[0] == b[0].len() as u8);
                assert(a[0].len() == b[0].len());
                assert(ha.len() == hb.len());
                assert forall|j: int| 0 <= j < ha.len() implies ha[j] == hb[j] by {
                    assert((ha + ra)[j] == ha[j]);
                    assert((hb + rb)[j] == hb[j]);
                }
                assert(ha =~= hb);
                assert(ra =~= (ha + ra).skip(ha.len() as int));
                assert(rb =~= (hb + rb).skip(hb.len() as int));
                lemma_label_hash_inj(a[0], b[0]);
                let a1 = a.skip(1);
                let b1 = b.skip(1);
                assert forall|i: int| 0 <= i < a1.len() implies (#[trigger] a1[i]).len() <= 255 by { assert(a1[i] == a[i + 1]); }
                assert forall|i: int| 0 <= i < b1.len() implies (#[trigger] b1[i]).len() <= 255 by { assert(b1[i] == b[i + 1]); }
                lemma_labels_hash_inj(a1, b1);
                assert forall|i: int| 0 <= i < a.len() implies ci_eq(#[trigger] a[i], b[i]) by {
                    if i > 0 {
                        assert(a1[i - 1] == a[i]);
                        assert(b1[i - 1] == b[i]);
                        assert(ci_eq(a1[i - 1], b1[i - 1]));
                    }
                }
            }
        }
    }

    // ------------------------------------------------------------ structure of a valid name

    /// `labels_ok` / `label_starts` from the k-th start on.
    pub proof fn lemma_starts_from(p: Seq<u8>, s: int, k: int)
        requires 0 <= s <= p.len(), labels_ok(p, s), 0 <= k < label_starts(p, s).len(),
        ensures
            labels_ok(p, label_starts(p, s)[k]),
            label_starts(p, label_starts(p, s)[k]) =~= label_starts(p, s).skip(k),
        decreases k
    {
        let nx = s + p[s] as int + 1;
        assert(label_starts(p, s) =~= seq![s] + label_starts(p, nx));
        if k == 0 {
            assert(label_starts(p, s).skip(0) =~= label_starts(p, s));
        } else {
            lemma_starts_from(p, nx, k - 1);
            assert(label_starts(p, s)[k] == label_starts(p, nx)[k - 1]);
            assert(label_starts(p, s).skip(k) =~= label_starts(p, nx).skip(k - 1));
        }
    }

    /// Labels walked from `i` in `p` are the labels walked from 0 in `p.skip(i)`.
    pub proof fn lemma_unshift(p: Seq<u8>, i: int, j: int)
        requires 0 <= i <= j <= p.len(), labels_ok(p, j),
        ensures
            labels_ok(p.skip(i), j - i),
            label_starts(p.skip(i), j - i) =~= shift(label_starts(p, j), -i),
        decreases p.len() - j
    {
        let q = p.skip(i);
        if j < p.len() {
            assert(q[j - i] == p[j]);
            lemma_unshift(p, i, j + p[j] as int + 1);
            assert(label_starts(p, j) =~= seq![j] + label_starts(p, j + p[j] as int + 1));
            assert(label_starts(q, j - i) =~= seq![j - i] + label_starts(q, j - i + q[j - i] as int + 1));
        } else {
            assert(label_starts(p, j) =~= Seq::<int>::empty());
            assert(label_starts(q, j - i) =~= Seq::<int>::empty());
        }
    }

    /// The suffix of a valid name from its k-th label on is a valid name; its label
    /// offsets are the remaining ones, re-based; its labels are the remaining labels.
    pub proof fn lemma_suffix_name(s: Seq<u8>, k: int)
        requires valid_name(s), 0 <= k < name_offsets(s).len(),
        ensures
            valid_name(s.skip(name_offsets(s)[k])),
            name_offsets(s.skip(name_offsets(s)[k])) =~= shift(name_offsets(s).skip(k), -name_offsets(s)[k]),
            raw_labels(s.skip(name_offsets(s)[k])) =~= raw_labels(s).skip(k),
            wire_labels(s.skip(name_offsets(s)[k])) =~= wire_labels(s).skip(k),
    {
        let p = s.drop_last();
        let st = label_starts(p, 0);
        let no = name_offsets(s);
        let o = no[k];
        let t = s.skip(o);
        assert(no =~= st.push(s.len() - 1));
        lemma_name_step(s, k);
        assert(o == pref(s, k));
        assert(t.len() >= 1);
        assert(t.last() == s.last());
        assert(t.drop_last() =~= p.skip(o));
        if k < st.len() {
            lemma_starts_from(p, 0, k);
            lemma_unshift(p, o, o);
            assert(label_starts(p.skip(o), 0) =~= shift(st.skip(k), -o));
            assert(name_offsets(t) =~= shift(st.skip(k), -o).push(t.len() - 1));
            assert(shift(no.skip(k), -o) =~= shift(st.skip(k), -o).push(t.len() - 1));
        } else {
            assert(o == s.len() - 1);
            assert(p.skip(o) =~= Seq::<u8>::empty());
            assert(label_starts(p.skip(o), 0) =~= Seq::<int>::empty());
            assert(name_offsets(t) =~= seq![0int]);
            assert(shift(no.skip(k), -o) =~= seq![0int]);
        }
        let nt = name_offsets(t);
        assert(nt.len() == no.len() - k);
        assert forall|i: int| 0 <= i < nt.len() implies label_at(t, nt[i]) == label_at(s, no[k + i]) by {
            lemma_name_step(s, k + i);
            lemma_name_step(t, i);
            assert(nt[i] == pref(t, i));
            assert(nt[i] == no[k + i] - o);
            assert(t[nt[i]] == s[no[k + i]]);
            assert(label_at(t, nt[i]) =~= label_at(s, no[k + i]));
        }
        assert(raw_labels(t) =~= raw_labels(s).skip(k));
        assert(wire_labels(t) =~= wire_labels(s).skip(k));
    }

    /// Octets that do not look like letters are left alone by a change of case,
    /// so the label structure (length octets are <= 63) is not touched by it.
    pub open spec fn same_structure(p: Seq<u8>, q: Seq<u8>) -> bool {
        p.len() == q.len() && forall|j: int| 0 <= j < p.len() ==> ((#[trigger] p[j]) <= 63 ==> q[j] == p[j])
    }

    pub proof fn lemma_same_structure_starts(p: Seq<u8>, q: Seq<u8>, i: int)
        requires same_structure(p, q), 0 <= i <= p.len(), labels_ok(p, i),
        ensures labels_ok(q, i), label_starts(q, i) =~= label_starts(p, i),
        decreases p.len() - i
    {
        if i < p.len() {
            assert(p[i] <= 63);
            assert(q[i] == p[i]);
            lemma_same_structure_starts(p, q, i + p[i] as int + 1);
            assert(label_starts(p, i) =~= seq![i] + label_starts(p, i + p[i] as int + 1));
            assert(label_starts(q, i) =~= seq![i] + label_starts(q, i + q[i] as int + 1));
        } else {
            assert(label_starts(p, i) =~= Seq::<int>::empty());
            assert(label_starts(q, i) =~= Seq::<int>::empty());
        }
    }

    /// A valid name stays a valid name with the same label offsets under such a change.
    pub proof fn lemma_same_structure_name(s: Seq<u8>, t: Seq<u8>)
        requires valid_name(s), same_structure(s, t),
        ensures valid_name(t), name_offsets(t) =~= name_offsets(s),
    {
        assert(s[s.len() - 1] <= 63);
        assert(t.last() == s.last());
        let p = s.drop_last();
        let q = t.drop_last();
        assert forall|j: int| 0 <= j < p.len() && (#[trigger] p[j]) <= 63 implies q[j] == p[j] by {
            assert(p[j] == s[j]);
            assert(q[j] == t[j]);
        }
        lemma_same_structure_starts(p, q, 0);
    }

    /// The wire form with its first `k` octets case-folded.
    pub open spec fn lower_prefix(w: Seq<u8>, k: int) -> Seq<u8> {
        Seq::new(w.len(), |j: int| if j < k { lower(w[j]) } else { w[j] })
    }

    pub proof fn lemma_lower_prefix_structure(w: Seq<u8>, k: int)
        ensures same_structure(w, lower_prefix(w, k)), lower_prefix(w, w.len() as int) =~= lower_seq(w), lower_prefix(w, 0) =~= w,
    {
    }

    /// Case-folding a whole valid wire-form name folds each label and nothing else.
    pub proof fn lemma_lower_name(s: Seq<u8>)
        requires valid_name(s),
        ensures
            valid_name(lower_seq(s)),
            name_offsets(lower_seq(s)) =~= name_offsets(s),
            wire_labels(lower_seq(s)) =~= wire_labels(s),
            forall|i: int| 0 <= i < raw_labels(s).len() ==> #[trigger] raw_labels(lower_seq(s))[i] == lower_seq(raw_labels(s)[i]),
    {
        let t = lower_seq(s);
        lemma_lower_prefix_structure(s, s.len() as int);
        lemma_same_structure_name(s, t);
        let no = name_offsets(s);
        assert forall|i: int| 0 <= i < no.len() implies label_at(t, no[i]) == lower_seq(label_at(s, no[i])) by {
            lemma_name_step(s, i);
            assert(no[i] == pref(s, i));
            assert(t[no[i]] == s[no[i]]);
            assert(label_at(t, no[i]) =~= lower_seq(label_at(s, no[i])));
        }
        assert forall|i: int| 0 <= i < no.len() implies lower_seq(label_at(t, no[i])) == lower_seq(label_at(s, no[i])) by {
            assert(lower_seq(lower_seq(label_at(s, no[i]))) =~= lower_seq(label_at(s, no[i])));
        }
        assert(wire_labels(t) =~= wire_labels(s));
    }

    /// Number of labels of a valid name: between 1 and 128.
    pub proof fn lemma_name_label_count(s: Seq<u8>)
        requires valid_name(s),
        ensures 1 <= name_offsets(s).len() <= 128,
    {
        lemma_starts_len(s.drop_last(), 0);
    }

    /// The root name `.`: one null label.
    pub proof fn lemma_root_name()
        ensures
            valid_name(seq![0u8]),
            name_offsets(seq![0u8]) =~= seq![0int],
            raw_labels(seq![0u8]) =~= seq![Seq::<u8>::empty()],
    {
        let w = seq![0u8];
        assert(w.drop_last() =~= Seq::<u8>::empty());
        assert(label_starts(w.drop_last(), 0) =~= Seq::<int>::empty());
        assert(name_offsets(w) =~= seq![0int]);
        assert(label_at(w, 0) =~= Seq::<u8>::empty());
    }

    /// A valid name is the root exactly when it has one label.
    pub proof fn lemma_one_label_is_root(s: Seq<u8>)
        requires valid_name(s),
        ensures (name_offsets(s).len() == 1) == (s == seq![0u8]),
    {
        let p = s.drop_last();
        if name_offsets(s).len() == 1 {
            if p.len() > 0 {
                assert(label_starts(p, 0) =~= seq![0int] + label_starts(p, p[0] as int + 1));
            }
            assert(s =~= seq![0u8]);
        }
        if s == seq![0u8] {
            lemma_root_name();
        }
    }
}
