// SPEC (oracle) for the text form of domain names: RFC 1035 section 5.1 and
// RFC 4343 section 2.1.  Written from the RFCs, not from the code.
//
//   * labels are separated by dots; an absolute name ends with a dot; the root
//     is written ".";
//   * "\DDD" (three decimal digits, value 0..=255) denotes the octet DDD;
//     "\X" with X any character other than a digit denotes X itself;
//   * every other ASCII character denotes itself; non-ASCII text is not a
//     domain name in this presentation format;
//   * a label holds 1..=63 octets (only the root label is empty) and the wire
//     form of a name at most 255 octets (RFC 1035 2.3.4).
pub mod spec_name_text {
    use vstd::prelude::*;
    use crate::spec_name::*;
    use crate::spec_name_builder::*;

    pub open spec fn is_digit(c: u8) -> bool { 48 <= c <= 57 }

    pub open spec fn ddd(a: u8, b: u8, c: u8) -> int { 100 * (a - 48) + 10 * (b - 48) + (c - 48) }

    /// The escape whose first character (the one after the backslash) is t[i]:
    /// Some((octet denoted, characters used after the backslash)).
    pub open spec fn esc(t: Seq<u8>, i: int) -> Option<(u8, int)> {
        if i < 0 || i >= t.len() { None }
        else if is_digit(t[i]) {
            if i + 2 < t.len() && is_digit(t[i + 1]) && is_digit(t[i + 2]) && ddd(t[i], t[i + 1], t[i + 2]) <= 255 {
                Some((ddd(t[i], t[i + 1], t[i + 2]) as u8, 3))
            } else { None }
        } else { Some((t[i], 1)) }
    }

    /// Decode t[i..] given the wire form `done` of the labels already closed and
    /// the octets `cur` of the label being read.  Result: wire form of the name.
    /// The size limits are those of a domain name only: a closed label has
    /// 1..=63 octets and the complete name at most 255.
    pub open spec fn txt(t: Seq<u8>, i: int, done: Seq<u8>, cur: Seq<u8>) -> Option<Seq<u8>>
        decreases t.len() - i
    {
        if i < 0 { None }
        else if i >= t.len() {
            // end of text: an absolute name ends with the dot that closed its last label
            if cur.len() == 0 && done.len() + 1 <= 255 { Some(done.push(0u8)) } else { None }
        } else if t[i] == 92 {          // '\\'
            match esc(t, i + 1) {
                Some((v, used)) => txt(t, i + 1 + used, done, cur.push(v)),
                None => None,
            }
        } else if t[i] == 46 {          // '.'
            if 1 <= cur.len() <= 63 { txt(t, i + 1, done + wire_label(cur), Seq::empty()) } else { None }
        } else if t[i] >= 128 { None }  // not ASCII
        else { txt(t, i + 1, done, cur.push(t[i])) }
    }

    /// The name a text denotes, if it is an absolute domain name.
    pub open spec fn text_name(t: Seq<u8>) -> Option<Seq<u8>> {
        if t.len() == 0 { None }
        else if t =~= seq![46u8] { Some(seq![0u8]) }
        else { txt(t, 0, Seq::empty(), Seq::empty()) }
    }

    /// Once the label being read exceeds 63 octets, or what has been read no
    /// longer fits 255 octets together with the terminating root label, no
    /// continuation of the text denotes a name.
    pub proof fn lemma_txt_overflow(t: Seq<u8>, i: int, done: Seq<u8>, cur: Seq<u8>)
        requires cur.len() > 63 || done.len() + 1 + cur.len() > 255 || (cur.len() > 0 && done.len() + 1 + cur.len() + 1 > 255),
        ensures txt(t, i, done, cur) is None,
        decreases t.len() - i
    {
        if 0 <= i < t.len() {
            if t[i] == 92 {
                match esc(t, i + 1) {
                    Some((v, used)) => { lemma_txt_overflow(t, i + 1 + used, done, cur.push(v)); }
                    None => {}
                }
            } else if t[i] == 46 {
                if 1 <= cur.len() <= 63 {
                    lemma_txt_overflow(t, i + 1, done + wire_label(cur), Seq::empty());
                }
            } else if t[i] < 128 {
                lemma_txt_overflow(t, i + 1, done, cur.push(t[i]));
            }
        }
    }

    /// `esc` only looks at the text from position i on.
    pub proof fn lemma_esc_shift(t: Seq<u8>, i: int)
        requires 0 <= i <= t.len(),
        ensures esc(t.subrange(i, t.len() as int), 0) == esc(t, i),
    {
        let u = t.subrange(i, t.len() as int);
        if i < t.len() {
            assert(u[0] == t[i]);
            if i + 2 < t.len() {
                assert(u[1] == t[i + 1]);
                assert(u[2] == t[i + 2]);
            }
        }
    }
}
