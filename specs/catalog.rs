// SPEC (oracle) for C22 "Catalog updates never disturb unrelated entries".
// Written from the property text (and RFC 1034 4.3.2 step 2), not from the code:
//   * a catalog is a map  (class, name) -> entry     (`CatView`, names as case-folded label sequences)
//   * lookup(name, class) = the entry of that class whose name is the LONGEST SUFFIX of `name` (`longest_suffix`)
//   * get(name, class)    = the entry with exactly that name                                     (`exact`)
//   * insert / remove change exactly one key of the map                                        (IMap::insert / remove)
// plus the abstraction function `cat_view` (recursion over the tree of `Node`s), the tree
// invariant `node_wf` / `cat_wf`, and the pure lemmas connecting them.
pub mod spec_catalog {
    use vstd::prelude::*;
    use crate::name_standin::Name;
    use crate::name_labels::*;
    use crate::std_collections::*;
    use crate::class::Class;
    use crate::db::Zone;
    use crate::db::catalog::Entry;
    use crate::db::hash_map_tree::node::Node;
    use crate::db::hash_map_tree::catalog::HashMapTreeCatalog;

    broadcast use crate::std_collections::axiom_hashmap_decreases;

    /// A name as its case-folded labels, label 0 first, the null (root) label last.
    pub type Path = Seq<Seq<u8>>;
    /// The abstract catalog.
    pub type CatView<Z, M> = IMap<(Class, Path), Entry<Z, M>>;

    // ------------------------------------------------------------------ entries

    pub open spec fn entry_class<Z: Zone, M>(e: Entry<Z, M>) -> Class {
        match e {
            Entry::Loaded(z, _) => z.spec_class(),
            Entry::NotYetLoaded(_, c, _) => c,
            Entry::FailedToLoad(_, c, _) => c,
        }
    }

    pub open spec fn entry_name<Z: Zone, M>(e: Entry<Z, M>) -> Name {
        match e {
            Entry::Loaded(z, _) => z.spec_name(),
            Entry::NotYetLoaded(n, _, _) => *n,
            Entry::FailedToLoad(n, _, _) => *n,
        }
    }

    /// The key under which an entry is filed: its class and (case-folded) name.
    pub open spec fn entry_key<Z: Zone, M>(e: Entry<Z, M>) -> (Class, Path) {
        (entry_class(e), labels(entry_name(e)))
    }

    pub open spec fn entry_ok<Z: Zone, M>(e: Entry<Z, M>) -> bool { entry_name(e).wf() }

    pub open spec fn opt_deref<T>(r: Option<&T>) -> Option<T> {
        match r { Some(e) => Some(*e), None => None }
    }

    // ------------------------------------------------------- the property's oracle

    /// Scan the suffixes of `n` from the longest (`from == 0`, `n` itself) to the
    /// shortest (the root): the first one filed under `class` wins.
    pub open spec fn ls_from<E>(view: IMap<(Class, Path), E>, class: Class, n: Path, from: int) -> Option<E>
        decreases n.len() - from
    {
        if from < 0 || from >= n.len() { None }
        else if view.contains_key((class, n.skip(from))) { Some(view[(class, n.skip(from))]) }
        else { ls_from(view, class, n, from + 1) }
    }

    /// "the entry of that class whose name is the longest suffix of the name"
    pub open spec fn longest_suffix<E>(view: IMap<(Class, Path), E>, class: Class, n: Path) -> Option<E> {
        ls_from(view, class, n, 0)
    }

    /// "exact lookup returns only an entry with exactly that name"
    pub open spec fn exact<E>(view: IMap<(Class, Path), E>, class: Class, n: Path) -> Option<E> {
        if view.contains_key((class, n)) { Some(view[(class, n)]) } else { None }
    }

    /// Every entry is filed under its own class and name (so a view key IS the
    /// entry's name) and carries a well-formed name.
    pub open spec fn view_keys_ok<Z: Zone, M>(view: CatView<Z, M>) -> bool {
        forall|k: (Class, Path)| #[trigger] view.contains_key(k) ==> entry_ok(view[k]) && entry_key(view[k]) == k
    }

    /// Declarative reading of `ls_from` (sanity of the oracle): the result is filed
    /// under a suffix of `n`, and no longer suffix of `n` is filed under `class`.
    pub proof fn lemma_ls_from_char<E>(view: IMap<(Class, Path), E>, class: Class, n: Path, from: int)
        requires 0 <= from,
        ensures
            match ls_from(view, class, n, from) {
                Some(e) => exists|i: int| from <= i < n.len() && #[trigger] view.contains_key((class, n.skip(i))) && view[(class, n.skip(i))] == e
                    && is_suffix(n.skip(i), n)
                    && (forall|j: int| from <= j < i ==> !#[trigger] view.contains_key((class, n.skip(j)))),
                None => forall|j: int| from <= j < n.len() ==> !#[trigger] view.contains_key((class, n.skip(j))),
            },
        decreases n.len() - from
    {
        if from >= n.len() {
        } else if view.contains_key((class, n.skip(from))) {
            assert(n.skip(n.len() - n.skip(from).len()) =~= n.skip(from));
        } else {
            lemma_ls_from_char(view, class, n, from + 1);
            match ls_from(view, class, n, from + 1) {
                Some(e) => {
                    let i = choose|i: int| from + 1 <= i < n.len() && #[trigger] view.contains_key((class, n.skip(i))) && view[(class, n.skip(i))] == e
                        && is_suffix(n.skip(i), n)
                        && (forall|j: int| from + 1 <= j < i ==> !#[trigger] view.contains_key((class, n.skip(j))));
                    assert(forall|j: int| from <= j < i ==> !#[trigger] view.contains_key((class, n.skip(j)))) by {
                        assert forall|j: int| from <= j < i implies !#[trigger] view.contains_key((class, n.skip(j))) by {
                            if j == from {} else {}
                        }
                    }
                }
                None => {
                    assert forall|j: int| from <= j < n.len() implies !#[trigger] view.contains_key((class, n.skip(j))) by {
                        if j == from {} else {}
                    }
                }
            }
        }
    }

    /// `exact` is `longest_suffix` filtered by "same number of labels" when keys are names.
    pub proof fn lemma_exact_from_longest<Z: Zone, M>(view: CatView<Z, M>, class: Class, n: Path)
        requires view_keys_ok(view), n.len() >= 1,
        ensures
            match longest_suffix(view, class, n) {
                Some(e) => entry_ok(e) && labels(entry_name(e)).len() <= n.len()
                    && (labels(entry_name(e)).len() == n.len() ==> exact(view, class, n) == Some(e))
                    && (labels(entry_name(e)).len() != n.len() ==> exact(view, class, n) is None),
                None => exact(view, class, n) is None,
            },
    {
        lemma_ls_from_char(view, class, n, 0);
        assert(n.skip(0) =~= n);
        match longest_suffix(view, class, n) {
            Some(e) => {
                let i = choose|i: int| 0 <= i < n.len() && #[trigger] view.contains_key((class, n.skip(i))) && view[(class, n.skip(i))] == e
                    && is_suffix(n.skip(i), n)
                    && (forall|j: int| 0 <= j < i ==> !#[trigger] view.contains_key((class, n.skip(j))));
                assert(entry_key(e) == (class, n.skip(i)));
                assert(labels(entry_name(e)).len() == n.len() - i);
                if i > 0 {
                    assert(!view.contains_key((class, n.skip(0))));
                }
            }
            None => {
                assert(!view.contains_key((class, n.skip(0))));
            }
        }
    }

    /// Longest-suffix look-up in a one-entry catalog.
    pub proof fn lemma_ls_single<E>(view: IMap<(Class, Path), E>, class: Class, n: Path, from: int, c0: Class, s: Path, e: E)
        requires
            0 <= from <= n.len(),
            view == IMap::<(Class, Path), E>::empty().insert((c0, s), e),
        ensures
            ls_from(view, class, n, from) ==
                (if class == c0 && 1 <= s.len() <= n.len() - from && is_suffix(s, n) { Some(e) } else { None }),
        decreases n.len() - from
    {
        if from >= n.len() {
        } else {
            assert(view.contains_key((class, n.skip(from))) == (class == c0 && n.skip(from) == s));
            if view.contains_key((class, n.skip(from))) {
                assert(n.skip(n.len() - s.len()) =~= n.skip(from));
            } else {
                lemma_ls_single(view, class, n, from + 1, c0, s, e);
                if s.len() == n.len() - from {
                    assert(n.skip(n.len() - s.len()) =~= n.skip(from));
                }
            }
        }
    }

    // ---------------------------------------------------- abstraction function

    /// Descend from `n` along `q`, consuming labels from the right: the child key
    /// is `q.last()` (the label next to the node's own name).
    pub open spec fn sub_get<T>(n: Node<T>, q: Path) -> Option<Node<T>>
        decreases q.len()
    {
        if q.len() == 0 { Some(n) }
        else if n.children@.contains_key(q.last()) { sub_get(n.children@[q.last()], q.drop_last()) }
        else { None }
    }

    /// The entry stored at relative path `q` below `n`, if any.
    pub open spec fn sub_data<E>(n: Node<Option<E>>, q: Path) -> Option<E> {
        match sub_get(n, q) { Some(m) => m.data, None => None }
    }

    pub open spec fn root_label() -> Seq<u8> { Seq::<u8>::empty() }
    pub open spec fn root_path() -> Path { seq![root_label()] }

    /// The entry filed under (class, p): p must end with the null label; the rest
    /// is the path below the class's root node.
    pub open spec fn cat_get<Z: Zone, M>(cat: HashMapTreeCatalog<Z, M>, class: Class, p: Path) -> Option<Entry<Z, M>> {
        if p.len() >= 1 && p.last() == root_label() && cat.roots_by_class@.contains_key(class) {
            sub_data(cat.roots_by_class@[class], p.drop_last())
        } else {
            None
        }
    }

    /// Abstract view of the tree-shaped catalog.
    pub open spec fn cat_view<Z: Zone, M>(cat: HashMapTreeCatalog<Z, M>) -> CatView<Z, M> {
        IMap::new(
            |k: (Class, Path)| cat_get(cat, k.0, k.1) is Some,
            |k: (Class, Path)| cat_get(cat, k.0, k.1)->Some_0,
        )
    }

    // ------------------------------------------------------------ tree invariant

    /// A node that is worth keeping: it carries an entry or has children.
    pub open spec fn nonempty<E>(n: Node<Option<E>>) -> bool {
        n.data is Some || !(n.children@ == Map::<Seq<u8>, Node<Option<E>>>::empty())
    }

    pub open spec fn node_local_ok<Z: Zone, M>(n: Node<Option<Entry<Z, M>>>, path: Path, class: Class) -> bool {
        &&& n.name.wf()
        &&& labels(*n.name) == path
        &&& match n.data {
                Some(e) => entry_ok(e) && entry_key(e) == (class, path),
                None => true,
            }
    }

    /// `n` sits at `path` in the tree of `class`: it is named `path`, its entry (if
    /// any) is filed under (class, path), the child under key k is well-formed at
    /// k·path, and (pruning invariant) no child is an empty node.
    pub open spec fn node_wf<Z: Zone, M>(n: Node<Option<Entry<Z, M>>>, path: Path, class: Class) -> bool
        decreases n
    {
        &&& node_local_ok(n, path, class)
        &&& forall|k: Seq<u8>| #[trigger] n.children@.contains_key(k) ==>
                nonempty(n.children@[k]) && node_wf(n.children@[k], seq![k] + path, class)
    }

    pub open spec fn cat_wf<Z: Zone, M>(cat: HashMapTreeCatalog<Z, M>) -> bool {
        forall|c: Class| #[trigger] cat.roots_by_class@.contains_key(c) ==>
            nonempty(cat.roots_by_class@[c]) && node_wf(cat.roots_by_class@[c], root_path(), c)
    }

    /// A node as `Node::new` makes it.
    pub open spec fn fresh_node<T: Default>(n: Node<T>, path: Path) -> bool {
        &&& n.name.wf()
        &&& labels(*n.name) == path
        &&& n.children@ == Map::<Seq<u8>, Node<T>>::empty()
        &&& call_ensures(T::default, (), n.data)
    }

    /// Always true; only a trigger term for the existential in `goc_rel` (a recursive
    /// call cannot serve as trigger inside its own definition).
    pub open spec fn goc_seed<T>(n: Node<T>) -> bool { true }

    /// Effect of `o.get_or_create_descendant(name, level)` (l = labels of name):
    /// `f` is the final tree, `rc` the returned node as handed out, `rf` what the
    /// caller finally leaves in it.  Only the chain of nodes along
    /// l[level-1], l[level-2], .., l[0] is touched; missing ones are created fresh.
    pub open spec fn goc_rel<T: Default>(o: Node<T>, f: Node<T>, rc: Node<T>, rf: Node<T>, l: Path, level: int) -> bool
        decreases level
    {
        if level <= 0 {
            rc == o && rf == f
        } else {
            let k = l[level - 1];
            &&& f.name == o.name
            &&& f.data == o.data
            &&& f.children@ == o.children@.insert(k, f.children@[k])
            &&& exists|c0: Node<T>| #[trigger] goc_seed(c0) && goc_rel(c0, f.children@[k], rc, rf, l, level - 1)
                    && (if o.children@.contains_key(k) { c0 == o.children@[k] } else { fresh_node(c0, l.skip(level - 1)) })
        }
    }

    // ------------------------------------------------------------------ lemmas

    /// Below an empty node there is nothing.
    pub proof fn lemma_empty_sub<E>(n: Node<Option<E>>, q: Path)
        requires !nonempty(n),
        ensures sub_data(n, q) is None,
    {
        if q.len() > 0 {
            assert(!n.children@.contains_key(q.last()));
        }
    }

    /// `sub_data` below the root only depends on data (empty path) and children (otherwise).
    pub proof fn lemma_sub_data_same_children<E>(a: Node<Option<E>>, b: Node<Option<E>>, q: Path)
        requires a.children@ == b.children@,
        ensures sub_data(a, q) == (if q.len() == 0 { a.data } else { sub_data(b, q) }),
    {
    }

    /// One step of the descent (the parent's view in terms of the child's).
    pub proof fn lemma_sub_data_step<E>(n: Node<Option<E>>, q: Path)
        requires q.len() > 0,
        ensures sub_data(n, q) == (if n.children@.contains_key(q.last()) { sub_data(n.children@[q.last()], q.drop_last()) } else { None }),
    {
    }

    /// Longest match below a node: scan the suffixes of the relative path.
    pub open spec fn sub_ls<E>(n: Node<Option<E>>, q: Path, from: int) -> Option<E>
        decreases q.len() + 1 - from
    {
        if from < 0 || from > q.len() { None }
        else if sub_data(n, q.skip(from)) is Some { sub_data(n, q.skip(from)) }
        else { sub_ls(n, q, from + 1) }
    }

    /// The longest match below `n` is the longest match below the child on the
    /// path if there is one, else the node's own entry.
    pub proof fn lemma_sub_ls_step<E>(n: Node<Option<E>>, q: Path, from: int)
        requires q.len() > 0, 0 <= from <= q.len(),
        ensures
            sub_ls(n, q, from) == (
                if from < q.len() && n.children@.contains_key(q.last()) && sub_ls(n.children@[q.last()], q.drop_last(), from) is Some {
                    sub_ls(n.children@[q.last()], q.drop_last(), from)
                } else {
                    n.data
                }),
        decreases q.len() - from
    {
        let k = q.last();
        let dq = q.drop_last();
        if from == q.len() {
            assert(q.skip(from) =~= Seq::<Seq<u8>>::empty());
            assert(sub_data(n, q.skip(from)) == n.data);
            assert(sub_ls(n, q, from + 1) is None);
        } else {
            let s = q.skip(from);
            assert(s.len() > 0 && s.last() == k);
            assert(s.drop_last() =~= dq.skip(from));
            lemma_sub_data_step(n, s);
            lemma_sub_ls_step(n, q, from + 1);
            if n.children@.contains_key(k) {
                let c = n.children@[k];
                assert(sub_data(n, s) == sub_data(c, dq.skip(from)));
                if sub_data(n, s) is Some {
                } else {
                    // both scans move on
                    assert(sub_ls(n, q, from) == sub_ls(n, q, from + 1));
                    assert(sub_ls(c, dq, from) == sub_ls(c, dq, from + 1));
                    if from + 1 == q.len() {
                        assert(sub_ls(c, dq, from + 1) is None);
                    }
                }
            } else {
                assert(sub_data(n, s) is None);
            }
        }
    }

    /// The tree look-up below the class root is the oracle on the abstract view.
    pub proof fn lemma_lookup_view<Z: Zone, M>(cat: HashMapTreeCatalog<Z, M>, class: Class, l: Path, from: int)
        requires l.len() >= 1, l.last() == root_label(), 0 <= from <= l.len(),
        ensures
            ls_from(cat_view(cat), class, l, from) == (
                if cat.roots_by_class@.contains_key(class) { sub_ls(cat.roots_by_class@[class], l.drop_last(), from) } else { None }),
        decreases l.len() - from
    {
        if from < l.len() {
            lemma_lookup_view(cat, class, l, from + 1);
            let s = l.skip(from);
            assert(s.len() >= 1 && s.last() == root_label());
            assert(s.drop_last() =~= l.drop_last().skip(from));
            assert(cat_view(cat).contains_key((class, s)) == (cat_get(cat, class, s) is Some));
            if cat.roots_by_class@.contains_key(class) {
                assert(cat_get(cat, class, s) == sub_data(cat.roots_by_class@[class], l.drop_last().skip(from)));
            }
        } else {
            if cat.roots_by_class@.contains_key(class) {
                assert(sub_ls(cat.roots_by_class@[class], l.drop_last(), from) is None);
            }
        }
    }

    /// Well-formedness reaches every node: the node found at relative path q below
    /// a node at `path` is well-formed at q·path.
    pub proof fn lemma_wf_descend<Z: Zone, M>(n: Node<Option<Entry<Z, M>>>, path: Path, class: Class, q: Path)
        requires node_wf(n, path, class), sub_get(n, q) is Some,
        ensures node_wf(sub_get(n, q)->Some_0, q + path, class),
        decreases q.len()
    {
        if q.len() == 0 {
            assert(q + path =~= path);
        } else {
            let k = q.last();
            assert(n.children@.contains_key(k));
            lemma_wf_descend(n.children@[k], seq![k] + path, class, q.drop_last());
            assert(q.drop_last() + (seq![k] + path) =~= q + path);
        }
    }

    /// In a well-formed tree catalog every entry is filed under its own key.
    pub proof fn lemma_cat_view_keys<Z: Zone, M>(cat: HashMapTreeCatalog<Z, M>)
        requires cat_wf(cat),
        ensures view_keys_ok(cat_view(cat)),
    {
        let view = cat_view(cat);
        assert forall|k: (Class, Path)| #[trigger] view.contains_key(k) implies entry_ok(view[k]) && entry_key(view[k]) == k by {
            let (c, p) = k;
            assert(cat_get(cat, c, p) is Some);
            let root = cat.roots_by_class@[c];
            assert(cat.roots_by_class@.contains_key(c));
            lemma_wf_descend(root, root_path(), c, p.drop_last());
            assert(p.drop_last() + root_path() =~= p);
        }
    }

    // ----- get_or_create_descendant / insert

    /// What `goc_rel` means for the entries below the node: once the caller has
    /// stored `rf.data` in the returned node (leaving its children alone), only
    /// the entry at the target path changed; and the node handed out held the old
    /// entry of that path.
    pub proof fn lemma_goc_data<E>(o: Node<Option<E>>, f: Node<Option<E>>, rc: Node<Option<E>>, rf: Node<Option<E>>, l: Path, level: int, p: Path)
        requires
            0 <= level <= l.len(),
            goc_rel(o, f, rc, rf, l, level),
            rf.children@ == rc.children@,
        ensures
            sub_data(f, p) == (if p == l.take(level) { rf.data } else { sub_data(o, p) }),
            rc.data == sub_data(o, l.take(level)),
        decreases level
    {
        let q = l.take(level);
        if level <= 0 {
            assert(q =~= Seq::<Seq<u8>>::empty());
            lemma_sub_data_same_children(rf, rc, p);
            if p.len() == 0 { assert(p =~= q); }
        } else {
            let k = l[level - 1];
            assert(q.last() == k);
            assert(q.drop_last() =~= l.take(level - 1));
            let c0 = choose|c0: Node<Option<E>>| #[trigger] goc_seed(c0) && goc_rel(c0, f.children@[k], rc, rf, l, level - 1)
                    && (if o.children@.contains_key(k) { c0 == o.children@[k] } else { fresh_node(c0, l.skip(level - 1)) });
            lemma_goc_data(c0, f.children@[k], rc, rf, l, level - 1, l.take(level - 1));
            lemma_sub_data_step(o, q);
            if !o.children@.contains_key(k) {
                lemma_empty_sub(c0, l.take(level - 1));
            }
            if p.len() == 0 {
                assert(p != q);
            } else {
                lemma_sub_data_step(f, p);
                lemma_sub_data_step(o, p);
                if p.last() == k {
                    lemma_goc_data(c0, f.children@[k], rc, rf, l, level - 1, p.drop_last());
                    if p.drop_last() == l.take(level - 1) {
                        assert(p =~= q);
                    } else {
                        assert(p != q);
                        if !o.children@.contains_key(k) {
                            lemma_empty_sub(c0, p.drop_last());
                        }
                    }
                } else {
                    assert(p != q);
                    assert(f.children@.contains_key(p.last()) == o.children@.contains_key(p.last()));
                }
            }
        }
    }

    /// `goc_rel` keeps the tree invariant once the caller has put an entry that
    /// belongs there into the returned node.
    pub proof fn lemma_goc_wf<Z: Zone, M>(o: Node<Option<Entry<Z, M>>>, f: Node<Option<Entry<Z, M>>>,
            rc: Node<Option<Entry<Z, M>>>, rf: Node<Option<Entry<Z, M>>>, l: Path, level: int, class: Class)
        requires
            0 <= level < l.len(),
            goc_rel(o, f, rc, rf, l, level),
            node_wf(o, l.skip(level), class),
            rf.children@ == rc.children@,
            rf.name == rc.name,
            rf.data is Some,
            entry_ok(rf.data->Some_0),
            entry_key(rf.data->Some_0) == (class, l),
        ensures
            node_wf(f, l.skip(level), class),
            nonempty(f),
        decreases level
    {
        if level <= 0 {
            assert(l.skip(0) =~= l);
        } else {
            let k = l[level - 1];
            let c0 = choose|c0: Node<Option<Entry<Z, M>>>| #[trigger] goc_seed(c0) && goc_rel(c0, f.children@[k], rc, rf, l, level - 1)
                    && (if o.children@.contains_key(k) { c0 == o.children@[k] } else { fresh_node(c0, l.skip(level - 1)) });
            assert(seq![k] + l.skip(level) =~= l.skip(level - 1));
            if o.children@.contains_key(k) {
                assert(node_wf(c0, l.skip(level - 1), class));
            } else {
                assert(c0.data is None);
                assert(node_wf(c0, l.skip(level - 1), class));
            }
            lemma_goc_wf(c0, f.children@[k], rc, rf, l, level - 1, class);
            assert(f.children@.contains_key(k));
            assert forall|k2: Seq<u8>| #[trigger] f.children@.contains_key(k2) implies
                nonempty(f.children@[k2]) && node_wf(f.children@[k2], seq![k2] + l.skip(level), class) by {
                if k2 == k {} else {
                    assert(o.children@.contains_key(k2));
                }
            }
        }
    }

    /// Whole-view effect of `HashMapTreeCatalog::insert`.
    pub proof fn lemma_insert_view<Z: Zone, M>(oc: HashMapTreeCatalog<Z, M>, fc: HashMapTreeCatalog<Z, M>,
            root0: Node<Option<Entry<Z, M>>>, rootf: Node<Option<Entry<Z, M>>>,
            node0: Node<Option<Entry<Z, M>>>, nodef: Node<Option<Entry<Z, M>>>, e: Entry<Z, M>)
        requires
            cat_wf(oc),
            entry_ok(e),
            ({
                let class = entry_class(e);
                let l = labels(entry_name(e));
                &&& (if oc.roots_by_class@.contains_key(class) { root0 == oc.roots_by_class@[class] } else { fresh_node(root0, root_path()) })
                &&& l.len() >= 1 && l.last() == root_label()
                &&& goc_rel(root0, rootf, node0, nodef, l, l.len() - 1)
            }),
        ensures
            // (implication form: `fc`, `nodef` are prophesied final values, fixed by the last statement)
            (fc.roots_by_class@ == oc.roots_by_class@.insert(entry_class(e), rootf)
                && nodef.children@ == node0.children@ && nodef.name == node0.name && nodef.data == Some(e))
            ==> (cat_view(fc) == cat_view(oc).insert(entry_key(e), e)
                && node0.data == exact(cat_view(oc), entry_class(e), labels(entry_name(e)))
                && cat_wf(fc)),
    {
        if fc.roots_by_class@ == oc.roots_by_class@.insert(entry_class(e), rootf)
                && nodef.children@ == node0.children@ && nodef.name == node0.name && nodef.data == Some(e) {
        let class = entry_class(e);
        let l = labels(entry_name(e));
        let q = l.drop_last();
        let level = l.len() - 1;
        assert(l.take(level) =~= q);
        assert(q + root_path() =~= l);
        let had = oc.roots_by_class@.contains_key(class);
        // the old entry
        lemma_goc_data(root0, rootf, node0, nodef, l, level, q);
        if !had { lemma_empty_sub(root0, q); }
        assert(cat_get(oc, class, l) == (if had { sub_data(root0, q) } else { None }));
        assert(cat_view(oc).contains_key((class, l)) == (cat_get(oc, class, l) is Some));
        // the view
        let v1 = cat_view(fc);
        let v2 = cat_view(oc).insert(entry_key(e), e);
        assert forall|k: (Class, Path)| #![trigger v1.contains_key(k)] #![trigger v2.contains_key(k)]
            v1.contains_key(k) == v2.contains_key(k) && (v1.contains_key(k) ==> v1[k] == v2[k]) by {
            let (c, p) = k;
            if c == class {
                if p.len() >= 1 && p.last() == root_label() {
                    lemma_goc_data(root0, rootf, node0, nodef, l, level, p.drop_last());
                    if !had { lemma_empty_sub(root0, p.drop_last()); }
                    if p.drop_last() == q {
                        assert(p =~= p.drop_last().push(p.last()));
                        assert(l =~= q.push(l.last()));
                        assert(p == l);
                    }
                }
            } else {
                assert(fc.roots_by_class@.contains_key(c) == oc.roots_by_class@.contains_key(c));
            }
        }
        assert(v1 =~= v2);
        // the invariant
        assert(l.skip(level) =~= root_path());
        if !had { assert(root0.data is None); }
        assert(node_wf(root0, root_path(), class));
        lemma_goc_wf(root0, rootf, node0, nodef, l, level, class);
        assert forall|c: Class| #[trigger] fc.roots_by_class@.contains_key(c) implies
            nonempty(fc.roots_by_class@[c]) && node_wf(fc.roots_by_class@[c], root_path(), c) by {
            if c == class {} else { assert(oc.roots_by_class@.contains_key(c)); }
        }
        }
    }

    // ----- remove

    /// Frame of a removal below a node: exactly the entry at `q` is gone.
    pub open spec fn removed_at<E>(o: Node<Option<E>>, f: Node<Option<E>>, q: Path) -> bool {
        forall|p: Path| #[trigger] sub_data(f, p) == (if p == q { None } else { sub_data(o, p) })
    }

    /// Parent step of a removal when the child stays (updated in place).
    pub proof fn lemma_remove_step_keep<E>(o: Node<Option<E>>, f: Node<Option<E>>, k: Seq<u8>, cf: Node<Option<E>>, q: Path)
        requires
            q.len() > 0, q.last() == k,
            o.children@.contains_key(k),
            f.data == o.data,
            f.children@ == o.children@.insert(k, cf),
            removed_at(o.children@[k], cf, q.drop_last()),
        ensures removed_at(o, f, q),
    {
        assert forall|p: Path| #[trigger] sub_data(f, p) == (if p == q { None } else { sub_data(o, p) }) by {
            if p.len() > 0 {
                lemma_sub_data_step(f, p);
                lemma_sub_data_step(o, p);
                if p.last() == k {
                    assert(sub_data(cf, p.drop_last()) == (if p.drop_last() == q.drop_last() { None } else { sub_data(o.children@[k], p.drop_last()) }));
                    if p.drop_last() == q.drop_last() {
                        assert(p =~= p.drop_last().push(k));
                        assert(q =~= q.drop_last().push(k));
                    }
                } else {
                    assert(f.children@.contains_key(p.last()) == o.children@.contains_key(p.last()));
                }
            }
        }
    }

    /// Parent step of a removal when the (now empty) child is pruned.
    pub proof fn lemma_remove_step_prune<E>(o: Node<Option<E>>, f: Node<Option<E>>, k: Seq<u8>, cf: Node<Option<E>>, q: Path)
        requires
            q.len() > 0, q.last() == k,
            o.children@.contains_key(k),
            f.data == o.data,
            f.children@ == o.children@.remove(k),
            removed_at(o.children@[k], cf, q.drop_last()),
            !nonempty(cf),
        ensures removed_at(o, f, q),
    {
        assert forall|p: Path| #[trigger] sub_data(f, p) == (if p == q { None } else { sub_data(o, p) }) by {
            if p.len() > 0 {
                lemma_sub_data_step(f, p);
                lemma_sub_data_step(o, p);
                if p.last() == k {
                    lemma_empty_sub(cf, p.drop_last());
                    assert(sub_data(cf, p.drop_last()) == (if p.drop_last() == q.drop_last() { None } else { sub_data(o.children@[k], p.drop_last()) }));
                    if p.drop_last() == q.drop_last() {
                        assert(p =~= p.drop_last().push(k));
                        assert(q =~= q.drop_last().push(k));
                    }
                } else {
                    assert(f.children@.contains_key(p.last()) == o.children@.contains_key(p.last()));
                }
            }
        }
    }

    /// Nothing is filed at or below a path whose first step does not exist.
    pub proof fn lemma_remove_absent<E>(o: Node<Option<E>>, q: Path)
        requires q.len() > 0, !o.children@.contains_key(q.last()),
        ensures removed_at(o, o, q), sub_data(o, q) is None,
    {
        lemma_sub_data_step(o, q);
    }

    /// Removing the node's own entry.
    /// (Implication form: `f` is the prophesied final node, known only after the call.)
    pub proof fn lemma_remove_here<E>(o: Node<Option<E>>, f: Node<Option<E>>)
        ensures (f.children@ == o.children@ && f.data is None) ==> removed_at(o, f, Seq::<Seq<u8>>::empty()),
    {
        if f.children@ == o.children@ && f.data is None {
        assert forall|p: Path| #[trigger] sub_data(f, p) == (if p == Seq::<Seq<u8>>::empty() { None } else { sub_data(o, p) }) by {
            lemma_sub_data_same_children(f, o, p);
            if p.len() == 0 { assert(p =~= Seq::<Seq<u8>>::empty()); }
        }
        }
    }

    /// Whole-view effect of `HashMapTreeCatalog::remove` when the class has a tree.
    pub proof fn lemma_remove_view<Z: Zone, M>(oc: HashMapTreeCatalog<Z, M>, fc: HashMapTreeCatalog<Z, M>,
            rootf: Node<Option<Entry<Z, M>>>, class: Class, l: Path, pruned: bool)
        requires
            cat_wf(oc),
            l.len() >= 1, l.last() == root_label(),
            oc.roots_by_class@.contains_key(class),
            removed_at(oc.roots_by_class@[class], rootf, l.drop_last()),
            pruned ==> !nonempty(rootf),
            !pruned ==> nonempty(rootf) && node_wf(rootf, root_path(), class),
        ensures
            // (implication form: `fc` is the prophesied final catalog)
            fc.roots_by_class@ == (if pruned { oc.roots_by_class@.remove(class) } else { oc.roots_by_class@.insert(class, rootf) })
                ==> cat_view(fc) == cat_view(oc).remove((class, l)) && cat_wf(fc),
    {
        if fc.roots_by_class@ == (if pruned { oc.roots_by_class@.remove(class) } else { oc.roots_by_class@.insert(class, rootf) }) {
        let root0 = oc.roots_by_class@[class];
        let v1 = cat_view(fc);
        let v2 = cat_view(oc).remove((class, l));
        assert forall|k: (Class, Path)| #![trigger v1.contains_key(k)] #![trigger v2.contains_key(k)]
            v1.contains_key(k) == v2.contains_key(k) && (v1.contains_key(k) ==> v1[k] == v2[k]) by {
            let (c, p) = k;
            if c == class {
                if p.len() >= 1 && p.last() == root_label() {
                    assert(sub_data(rootf, p.drop_last()) == (if p.drop_last() == l.drop_last() { None } else { sub_data(root0, p.drop_last()) }));
                    if pruned { lemma_empty_sub(rootf, p.drop_last()); }
                    if p.drop_last() == l.drop_last() {
                        assert(p =~= p.drop_last().push(p.last()));
                        assert(l =~= l.drop_last().push(l.last()));
                    }
                }
            } else {
                assert(fc.roots_by_class@.contains_key(c) == oc.roots_by_class@.contains_key(c));
            }
        }
        assert(v1 =~= v2);
        assert forall|c: Class| #[trigger] fc.roots_by_class@.contains_key(c) implies
            nonempty(fc.roots_by_class@[c]) && node_wf(fc.roots_by_class@[c], root_path(), c) by {
            if c == class {} else { assert(oc.roots_by_class@.contains_key(c)); }
        }
        }
    }

    /// Removing from a class that has no tree changes nothing.
    pub proof fn lemma_remove_no_class<Z: Zone, M>(oc: HashMapTreeCatalog<Z, M>, class: Class, l: Path)
        requires !oc.roots_by_class@.contains_key(class),
        ensures cat_view(oc) =~= cat_view(oc).remove((class, l)), exact(cat_view(oc), class, l) is None,
    {
        assert(cat_get(oc, class, l) is None);
    }
}
