// SPEC for the RDATA set buffer (property C19, second sentence).  The buffer
// layout is the one documented in src/rr/rdata_set.rs: each member is stored as
// a 16-bit length in NATIVE byte order followed by that many octets.
pub mod spec_rdata_set {
    use vstd::prelude::*;
    use crate::spec_rdata_eq::*;

    /// u16::from_ne_bytes([b0, b1]) - platform dependent, left uninterpreted.
    pub uninterp spec fn ne16(b0: u8, b1: u8) -> u16;

    /// Members of a length-prefixed buffer, in order; None when the buffer is
    /// not a sequence of complete members.
    pub open spec fn set_view(buf: Seq<u8>) -> Option<Seq<Seq<u8>>>
        decreases buf.len()
    {
        if buf.len() == 0 { Some(Seq::empty()) }
        else if buf.len() < 2 { None }
        else {
            let len = ne16(buf[0], buf[1]) as int;
            if 2 + len > buf.len() { None }
            else {
                match set_view(buf.skip(2 + len)) {
                    Some(v) => Some(seq![buf.subrange(2, 2 + len)] + v),
                    None => None,
                }
            }
        }
    }

    /// One stored member: length prefix `p` (2 octets) then the octets `x`.
    pub open spec fn member(p: Seq<u8>, x: Seq<u8>) -> bool {
        p.len() == 2 && ne16(p[0], p[1]) as int == x.len()
    }

    /// Appending one stored member to a well-formed buffer appends it to the view.
    pub proof fn lemma_set_view_append(buf: Seq<u8>, p: Seq<u8>, x: Seq<u8>)
        requires set_view(buf) is Some, member(p, x),
        ensures set_view(buf + p + x) == Some(set_view(buf)->Some_0.push(x)),
        decreases buf.len()
    {
        let all = buf + p + x;
        if buf.len() == 0 {
            assert(all =~= p + x);
            assert(all.subrange(2, 2 + x.len() as int) =~= x);
            assert(all.skip(2 + x.len() as int) =~= Seq::<u8>::empty());
            assert(set_view(all.skip(2 + x.len() as int)) == Some(Seq::<Seq<u8>>::empty()));
            assert(seq![x] + Seq::<Seq<u8>>::empty() =~= Seq::<Seq<u8>>::empty().push(x));
        } else {
            let len = ne16(buf[0], buf[1]) as int;
            let rest = buf.skip(2 + len);
            lemma_set_view_append(rest, p, x);
            assert(all.skip(2 + len) =~= rest + p + x);
            assert(all.subrange(2, 2 + len) =~= buf.subrange(2, 2 + len));
            let v = set_view(rest)->Some_0;
            assert(seq![buf.subrange(2, 2 + len)] + v.push(x) =~= (seq![buf.subrange(2, 2 + len)] + v).push(x));
        }
    }

    /// A set as the property describes it: no two members are equal (each
    /// equality class is represented once).
    pub open spec fn no_dups(class: u16, ty: u16, v: Seq<Seq<u8>>) -> bool {
        forall|i: int, j: int| 0 <= i < j < v.len() ==> !rd_eq(class, ty, #[trigger] v[i], #[trigger] v[j])
    }

    /// [C19.set_first_of_class] set_insert keeps the set duplicate free.
    pub proof fn lemma_set_insert_no_dups(class: u16, ty: u16, v: Seq<Seq<u8>>, x: Seq<u8>)
        requires no_dups(class, ty, v),
        ensures no_dups(class, ty, set_insert(class, ty, v, x)),
    {
        if !has_eq(class, ty, v, x) {
            let w = v.push(x);
            assert forall|i: int, j: int| 0 <= i < j < w.len() implies !rd_eq(class, ty, #[trigger] w[i], #[trigger] w[j]) by {
                if j == v.len() {
                    assert(w[i] == v[i]);
                    assert(!rd_eq(class, ty, v[i], x));
                } else {
                    assert(w[i] == v[i] && w[j] == v[j]);
                }
            }
        }
    }

    /// Folding set_insert over a list of RDATA (RdataSetOwned::from_iter).
    pub open spec fn set_from(class: u16, ty: u16, xs: Seq<Seq<u8>>) -> Seq<Seq<u8>>
        decreases xs.len()
    {
        if xs.len() == 0 { Seq::empty() }
        else { set_insert(class, ty, set_from(class, ty, xs.drop_last()), xs.last()) }
    }

    /// Some element of `xs` equals `x`.
    pub open spec fn any_eq(class: u16, ty: u16, xs: Seq<Seq<u8>>, x: Seq<u8>) -> bool {
        exists|j: int| 0 <= j < xs.len() && rd_eq(class, ty, #[trigger] xs[j], x)
    }

    /// set_from never has two equal members.
    pub proof fn lemma_set_from_no_dups(class: u16, ty: u16, xs: Seq<Seq<u8>>)
        ensures no_dups(class, ty, set_from(class, ty, xs)),
        decreases xs.len()
    {
        if xs.len() > 0 {
            lemma_set_from_no_dups(class, ty, xs.drop_last());
            lemma_set_insert_no_dups(class, ty, set_from(class, ty, xs.drop_last()), xs.last());
        }
    }

    /// [C19.set_classes] the set built from `xs` represents exactly the equality
    /// classes that occur in `xs` (this is where transitivity of rd_eq is
    /// needed: an element is dropped when a KEPT earlier element equals it,
    /// which must mean: when ANY earlier element equals it; symmetry is used by
    /// `insert` itself, which tests `x.equals(member)`).
    pub proof fn lemma_set_from_classes(class: u16, ty: u16, xs: Seq<Seq<u8>>, x: Seq<u8>)
        ensures has_eq(class, ty, set_from(class, ty, xs), x) == any_eq(class, ty, xs, x),
        decreases xs.len()
    {
        if xs.len() > 0 {
            let ys = xs.drop_last();
            let y = xs.last();
            let s0 = set_from(class, ty, ys);
            let s1 = set_from(class, ty, xs);
            lemma_set_from_classes(class, ty, ys, x);
            lemma_set_from_classes(class, ty, ys, y);
            if has_eq(class, ty, s1, x) {
                let i = choose|i: int| 0 <= i < s1.len() && rd_eq(class, ty, #[trigger] s1[i], x);
                if i < s0.len() {
                    assert(s1[i] == s0[i]);
                    assert(has_eq(class, ty, s0, x));
                    let j = choose|j: int| 0 <= j < ys.len() && rd_eq(class, ty, #[trigger] ys[j], x);
                    assert(xs[j] == ys[j]);
                } else {
                    assert(s1[i] == y);
                    assert(xs[xs.len() - 1] == y);
                }
                assert(any_eq(class, ty, xs, x));
            }
            if any_eq(class, ty, xs, x) {
                let j = choose|j: int| 0 <= j < xs.len() && rd_eq(class, ty, #[trigger] xs[j], x);
                if j < ys.len() {
                    assert(ys[j] == xs[j]);
                    assert(any_eq(class, ty, ys, x));
                    let i = choose|i: int| 0 <= i < s0.len() && rd_eq(class, ty, #[trigger] s0[i], x);
                    assert(s1[i] == s0[i]);
                } else {
                    assert(xs[j] == y);
                    if has_eq(class, ty, s0, y) {
                        let i = choose|i: int| 0 <= i < s0.len() && rd_eq(class, ty, #[trigger] s0[i], y);
                        lemma_rd_eq_trans(class, ty, s0[i], y, x);
                        assert(s1[i] == s0[i]);
                    } else {
                        assert(s1[s1.len() - 1] == y);
                    }
                }
                assert(has_eq(class, ty, s1, x));
            }
        }
    }
}
