// SPEC (oracle) for the answer-construction half of src/server/query.rs (property C05 and the
// truncation clauses of C04).  Written from the property text, RFC 1034 4.3.2, RFC 1035
// 3.3.9/3.3.11/3.3.13, RFC 2308 3, RFC 2782, RFC 6604 -- NOT from the code.
pub mod spec_query {
    use vstd::prelude::*;
    use crate::spec_name::*;

    pub open spec fn max_cname_links() -> int { 8 }

    /// RFC 1035 3.3.13: SOA RDATA is MNAME, RNAME (two uncompressed domain names) followed by
    /// the five 32-bit fields SERIAL, REFRESH, RETRY, EXPIRE, MINIMUM.  Offset of SERIAL if the
    /// two names are well formed.
    pub open spec fn soa_fixed_start(rd: Seq<u8>) -> Option<int> {
        match ulen(rd) {
            None => None,
            Some(m) => if m > rd.len() { None } else {
                match ulen(rd.skip(m)) {
                    None => None,
                    Some(n) => Some(m + n),
                }
            },
        }
    }

    /// Big-endian 32-bit value at `rd[i..i+4]` (RFC 1035 2.3.2).
    pub open spec fn u32_at(rd: Seq<u8>, i: int) -> u32 {
        ((rd[i] as u32) * 16777216 + (rd[i + 1] as u32) * 65536 + (rd[i + 2] as u32) * 256 + (rd[i + 3] as u32)) as u32
    }

    /// The MINIMUM field of well-formed SOA RDATA: the last of the five 32-bit fields, which end
    /// the RDATA; None if the RDATA is not exactly two names and 20 octets.
    pub open spec fn soa_minimum(rd: Seq<u8>) -> Option<u32> {
        match soa_fixed_start(rd) {
            None => None,
            Some(k) => if rd.len() == k + 20 { Some(u32_at(rd, k + 16)) } else { None },
        }
    }

    /// RFC 2181 section 8: a TTL with the most significant bit set is treated as zero.
    pub open spec fn ttl_norm(raw: u32) -> u32 { if raw > 0x7fff_ffff { 0 } else { raw } }

    /// RFC 2308 section 3/5: "the TTL of this [SOA] record is set from the minimum of the MINIMUM
    /// field of the SOA record and the TTL of the SOA itself".
    pub open spec fn negative_ttl(soa_ttl: u32, minimum: u32) -> u32 {
        if ttl_norm(minimum) <= soa_ttl { ttl_norm(minimum) } else { soa_ttl }
    }

    /// The uncompressed domain name that fills `rd[start..]` exactly (NS / MB / MD / MF: start 0,
    /// RFC 1035 3.3; MX: after the 16-bit PREFERENCE, 3.3.9; SRV: after PRIORITY, WEIGHT, PORT,
    /// RFC 2782), as its wire form; None if `start` is beyond the RDATA or the rest is not
    /// exactly one valid name.
    pub open spec fn rdata_name(rd: Seq<u8>, start: int) -> Option<Seq<u8>> {
        if 0 <= start <= rd.len() && ulen(rd.skip(start)) == Some(rd.len() - start) { Some(rd.skip(start)) } else { None }
    }

    // ------------------------------------------------------------------
    // CNAME chains (RFC 1034 3.6.2 / 4.3.2 step 3a, RFC 6604, property text: "in-zone CNAME
    // chasing (at most 8 links, loops give SERVFAIL)", "RFC 6604 CNAME-chain RCODEs")
    // ------------------------------------------------------------------
    use crate::spec_zone::*;
    use crate::name_standin_q::wire_labels;

    /// How following a CNAME chain inside one zone ends.
    pub ghost enum ChaseEnd {
        /// the last target owns data of the requested type
        Data { rrset: RrsetV },
        /// the last target exists without data of the requested type (NOERROR / NODATA)
        NoData,
        /// the last target does not exist (RFC 6604 section 3: RCODE of the LAST lookup, NXDOMAIN)
        NxDomain,
        /// the last target lies beneath a delegation of the zone
        Referral { cut: NameK, ns: RrsetV },
        /// the last target is outside the zone: the chain is not followed further
        OutOfZone,
        /// loop, more than 8 links, or a CNAME record without a well-formed target
        ServFail,
    }

    /// Target of a CNAME RRset (RFC 1035 3.3.1: RDATA is one domain name; RFC 1034 3.6.2: a node has
    /// one CNAME record -- the first is taken), as case-folded labels.
    pub open spec fn cname_target(cn: RrsetV) -> Option<NameK> {
        if cn.rdatas.len() == 0 { None } else {
            match rdata_name(cn.rdatas[0], 0) { Some(w) => Some(wire_labels(w)), None => None }
        }
    }

    /// Follow the chain from the CNAME RRset `cn` found at the last name of `seen` (the owner names
    /// visited so far, QNAME first; `cn` is link number `seen.len()`).
    pub open spec fn chase(z: ZoneV, rr_type: u16, cn: RrsetV, seen: Seq<NameK>) -> ChaseEnd
        decreases 9 - seen.len(), 1int
    {
        match cname_target(cn) {
            None => ChaseEnd::ServFail,
            Some(t) => if seen.contains(t) { ChaseEnd::ServFail } // a repeated owner: loop
                       else { chase_at(z, rr_type, t, seen) },
        }
    }

    /// ... continue with a (checked) lookup of the target `t` in the same zone.
    pub open spec fn chase_at(z: ZoneV, rr_type: u16, t: NameK, seen: Seq<NameK>) -> ChaseEnd
        decreases 9 - seen.len(), 0int
    {
        match lookup_spec(z, t, rr_type, false) {
            Answer::Found { node, wildcard, rrset } => ChaseEnd::Data { rrset },
            Answer::Cname { node, wildcard, rrset } =>
                // `seen.len()` links were followed so far; a ninth link is refused
                if seen.len() >= max_cname_links() { ChaseEnd::ServFail } else { chase(z, rr_type, rrset, seen.push(t)) },
            Answer::Referral { cut, ns } => ChaseEnd::Referral { cut, ns },
            Answer::NoRecords { node, wildcard } => ChaseEnd::NoData,
            Answer::NxDomain => ChaseEnd::NxDomain,
            Answer::WrongZone => ChaseEnd::OutOfZone,
        }
    }

    /// Number of CNAME records (links) in the answer section when the chain does not fail.
    pub open spec fn chase_links(z: ZoneV, rr_type: u16, cn: RrsetV, seen: Seq<NameK>) -> int
        decreases 9 - seen.len(), 1int
    {
        match cname_target(cn) {
            None => 0,
            Some(t) => if seen.contains(t) { 0 } else { 1 + chase_links_at(z, rr_type, t, seen) },
        }
    }
    pub open spec fn chase_links_at(z: ZoneV, rr_type: u16, t: NameK, seen: Seq<NameK>) -> int
        decreases 9 - seen.len(), 0int
    {
        match lookup_spec(z, t, rr_type, false) {
            Answer::Cname { node, wildcard, rrset } =>
                if seen.len() >= max_cname_links() { 0 } else { chase_links(z, rr_type, rrset, seen.push(t)) },
            _ => 0,
        }
    }
}
