// SPEC (oracle) for zone contents and zone lookups (properties C06, C20).
// Written from RFC 1034 section 4.3.2 step 3, RFC 4592 sections 2.2/3.3 and the
// property text -- NOT from the code.  The zone is an abstract map from owner
// names to the RRsets held there; nothing here knows about trees or hash maps.
pub mod spec_zone {
    use vstd::prelude::*;

    /// A label as a hash/equality key: its octets with ASCII letters case-folded
    /// (RFC 1034 3.1: comparisons are case-insensitive).
    pub type LabelK = Seq<u8>;
    /// A domain name: labels, leftmost (deepest) label first; the last element
    /// is the root label (the empty sequence).
    pub type NameK = Seq<LabelK>;

    pub const TYPE_A: u16 = 1;
    pub const TYPE_NS: u16 = 2;
    pub const TYPE_CNAME: u16 = 5;
    pub const TYPE_SOA: u16 = 6;
    pub const TYPE_AAAA: u16 = 28;
    pub const CLASS_IN: u16 = 1;

    /// One RRset (owner, class and type are given by the context).
    pub ghost struct RrsetV {
        pub ttl: u32,
        /// RDATA in insertion order, without duplicates.
        pub rdatas: Seq<Seq<u8>>,
    }

    /// The RRsets at one owner name: type -> RRset.  An empty map is an empty
    /// non-terminal (RFC 4592 2.2.2).
    pub type NodeV = IMap<u16, RrsetV>;

    /// The zone's class is kept apart (`zclass` parameters below): it plays no role in
    /// name resolution.
    pub ghost struct ZoneV {
        pub apex: NameK,
        pub nodes: IMap<NameK, NodeV>,
    }

    /// The label `*` (RFC 4592 2.1.1: exactly one octet, 0x2a).
    pub open spec fn asterisk() -> LabelK { seq![42u8] }

    /// `name` is `apex` or a subdomain of it.
    pub open spec fn at_or_below(name: NameK, apex: NameK) -> bool {
        name.len() >= apex.len() && name.skip(name.len() - apex.len()) == apex
    }

    /// The ancestor-or-self of `name` that has `j` labels.
    pub open spec fn anc(name: NameK, j: int) -> NameK { name.skip(name.len() - j) }

    /// Zone well-formedness: the apex exists, every owner is at or below the
    /// apex, and with every owner all its ancestors down to the apex exist
    /// (RFC 4592 2.2.2: existence includes empty non-terminals).
    pub open spec fn zone_wf(z: ZoneV) -> bool {
        &&& z.apex.len() >= 1
        &&& z.nodes.contains_key(z.apex)
        &&& forall|n: NameK| #[trigger] z.nodes.contains_key(n) ==> at_or_below(n, z.apex)
        &&& forall|n: NameK, j: int| #[trigger] z.nodes.contains_key(n) && z.apex.len() <= j <= n.len()
                ==> z.nodes.contains_key(#[trigger] anc(n, j))
    }

    // ------------------------------------------------------------------
    // RFC 1034 4.3.2 step 3 / RFC 4592 3.3
    // ------------------------------------------------------------------

    /// The ancestor-or-self of `name` with `j` labels is a zone cut: it lies
    /// strictly below the apex, exists, and owns an NS RRset (RFC 1034 4.2.1).
    pub open spec fn cut_at(z: ZoneV, name: NameK, j: int) -> bool {
        &&& z.apex.len() < j <= name.len()
        &&& z.nodes.contains_key(anc(name, j))
        &&& z.nodes[anc(name, j)].contains_key(TYPE_NS)
    }

    /// `j` is the label count of the TOPMOST cut on the path from the apex to `name`.
    pub open spec fn topmost_cut_at(z: ZoneV, name: NameK, j: int) -> bool {
        cut_at(z, name, j) && forall|i: int| i < j ==> !cut_at(z, name, i)
    }

    pub open spec fn has_cut(z: ZoneV, name: NameK) -> bool {
        exists|j: int| cut_at(z, name, j)
    }

    /// The ancestor-or-self of `name` with `j` labels exists in the zone.
    pub open spec fn exists_at(z: ZoneV, name: NameK, j: int) -> bool {
        z.apex.len() <= j <= name.len() && z.nodes.contains_key(anc(name, j))
    }

    /// RFC 4592 3.3.1: the closest encloser is the LONGEST existing ancestor
    /// (or self) of the name; `j` is its label count.
    pub open spec fn closest_encloser_at(z: ZoneV, name: NameK, j: int) -> bool {
        exists_at(z, name, j) && forall|i: int| i > j ==> !exists_at(z, name, i)
    }

    /// RFC 4592 3.3.1: source of synthesis = `*.<closest encloser>`.
    pub open spec fn source_of_synthesis(ce: NameK) -> NameK { seq![asterisk()] + ce }

    /// Which node answers a query, before the type is considered.
    pub ghost enum Resolution {
        /// The data at `node` answers; `wildcard` tells whether `node` is a
        /// source of synthesis (then it must be reported) or the name itself.
        Node { node: NameK, wildcard: bool },
        /// Leaves authoritative data at the topmost cut `cut`.
        Referral { cut: NameK },
        NxDomain,
        WrongZone,
    }

    /// RFC 1034 4.3.2 step 3 with RFC 4592 3.3, for a name and the
    /// "search below cuts" option (which disables step 3b).
    pub open spec fn resolve(z: ZoneV, name: NameK, search_below_cuts: bool) -> Resolution {
        if !at_or_below(name, z.apex) {
            Resolution::WrongZone
        } else if !search_below_cuts && has_cut(z, name) {
            // step 3b: referral at the topmost delegation on the path
            let j = choose|j: int| topmost_cut_at(z, name, j);
            Resolution::Referral { cut: anc(name, j) }
        } else if z.nodes.contains_key(name) {
            // step 3a: the whole of QNAME is matched (possibly an empty non-terminal)
            Resolution::Node { node: name, wildcard: false }
        } else {
            // step 3c: no exact match; wildcard at the closest encloser or name error
            let j = choose|j: int| closest_encloser_at(z, name, j);
            let sos = source_of_synthesis(anc(name, j));
            if z.nodes.contains_key(sos) {
                Resolution::Node { node: sos, wildcard: true }
            } else {
                Resolution::NxDomain
            }
        }
    }

    /// Outcome of a single-type lookup (Zone::lookup).
    pub ghost enum Answer {
        Found { node: NameK, wildcard: bool, rrset: RrsetV },
        Cname { node: NameK, wildcard: bool, rrset: RrsetV },
        NoRecords { node: NameK, wildcard: bool },
        Referral { cut: NameK, ns: RrsetV },
        NxDomain,
        WrongZone,
    }

    /// RFC 1034 4.3.2 step 3a/3c for one RR type: data of that type if present;
    /// otherwise the CNAME if the node owns one; otherwise "no records" (which
    /// covers empty non-terminals).  For a node that owns both a CNAME and data
    /// of the requested type (forbidden by RFC 1034 3.6.2) the requested data
    /// wins, as documented for `LookupResult::Cname` ("No records were found,
    /// but a CNAME record was present").
    pub open spec fn lookup_spec(z: ZoneV, name: NameK, rr_type: u16, search_below_cuts: bool) -> Answer {
        match resolve(z, name, search_below_cuts) {
            Resolution::Node { node, wildcard } => {
                let d = z.nodes[node];
                if d.contains_key(rr_type) { Answer::Found { node, wildcard, rrset: d[rr_type] } }
                else if d.contains_key(TYPE_CNAME) { Answer::Cname { node, wildcard, rrset: d[TYPE_CNAME] } }
                else { Answer::NoRecords { node, wildcard } }
            },
            Resolution::Referral { cut } => Answer::Referral { cut, ns: z.nodes[cut][TYPE_NS] },
            Resolution::NxDomain => Answer::NxDomain,
            Resolution::WrongZone => Answer::WrongZone,
        }
    }

    pub open spec fn opt_rrset(d: NodeV, t: u16) -> Option<RrsetV> {
        if d.contains_key(t) { Some(d[t]) } else { None }
    }

    /// Outcome of an address lookup (Zone::lookup_addrs).
    pub ghost enum AddrsAnswer {
        Found { node: NameK, wildcard: bool, a: Option<RrsetV>, aaaa: Option<RrsetV> },
        Referral { cut: NameK, ns: RrsetV },
        NxDomain,
        WrongZone,
    }

    /// A always; AAAA only in class IN (Zone::lookup_addrs documentation).
    pub open spec fn lookup_addrs_spec(z: ZoneV, zclass: u16, name: NameK, search_below_cuts: bool) -> AddrsAnswer {
        match resolve(z, name, search_below_cuts) {
            Resolution::Node { node, wildcard } => AddrsAnswer::Found {
                node, wildcard,
                a: opt_rrset(z.nodes[node], TYPE_A),
                aaaa: if zclass == CLASS_IN { opt_rrset(z.nodes[node], TYPE_AAAA) } else { None },
            },
            Resolution::Referral { cut } => AddrsAnswer::Referral { cut, ns: z.nodes[cut][TYPE_NS] },
            Resolution::NxDomain => AddrsAnswer::NxDomain,
            Resolution::WrongZone => AddrsAnswer::WrongZone,
        }
    }

    /// Outcome of an all-records lookup (Zone::lookup_all).
    pub ghost enum AllAnswer {
        Found { node: NameK, wildcard: bool, rrsets: NodeV },
        Referral { cut: NameK, ns: RrsetV },
        NxDomain,
        WrongZone,
    }

    pub open spec fn lookup_all_spec(z: ZoneV, name: NameK, search_below_cuts: bool) -> AllAnswer {
        match resolve(z, name, search_below_cuts) {
            Resolution::Node { node, wildcard } => AllAnswer::Found { node, wildcard, rrsets: z.nodes[node] },
            Resolution::Referral { cut } => AllAnswer::Referral { cut, ns: z.nodes[cut][TYPE_NS] },
            Resolution::NxDomain => AllAnswer::NxDomain,
            Resolution::WrongZone => AllAnswer::WrongZone,
        }
    }

    // ------------------------------------------------------------------
    // C20: adding a record
    // ------------------------------------------------------------------

    /// `a` and `b` are the same RDATA for (class, type) -- decided by
    /// `Rdata::equals` (property C19); uninterpreted here.
    pub uninterp spec fn rdata_same(a: Seq<u8>, b: Seq<u8>, class: u16, rr_type: u16) -> bool;

    pub open spec fn rdatas_contain(s: Seq<Seq<u8>>, r: Seq<u8>, class: u16, rr_type: u16) -> bool {
        exists|i: int| 0 <= i < s.len() && rdata_same(r, #[trigger] s[i], class, rr_type)
    }

    /// Acceptance condition of the property text: owner at or below the apex,
    /// class equal to the zone's, TTL equal to that of the record's RRset if
    /// the RRset already exists.
    pub open spec fn add_accepts(z: ZoneV, zclass: u16, owner: NameK, rr_type: u16, class: u16, ttl: u32) -> bool {
        &&& at_or_below(owner, z.apex)
        &&& class == zclass
        &&& (z.nodes.contains_key(owner) && z.nodes[owner].contains_key(rr_type)
                ==> z.nodes[owner][rr_type].ttl == ttl)
    }

    /// The RRsets of the owner after the record was added (duplicates dropped).
    pub open spec fn node_after_add(d: NodeV, rr_type: u16, class: u16, ttl: u32, rdata: Seq<u8>) -> NodeV {
        if d.contains_key(rr_type) {
            let old = d[rr_type];
            if rdatas_contain(old.rdatas, rdata, class, rr_type) { d }
            else { d.insert(rr_type, RrsetV { ttl: old.ttl, rdatas: old.rdatas.push(rdata) }) }
        } else {
            d.insert(rr_type, RrsetV { ttl, rdatas: seq![rdata] })
        }
    }

    /// The zone after an accepted add: the owner holds the record; every name
    /// between the apex and the owner exists (as an empty non-terminal if it
    /// did not exist before); nothing else changes.
    pub open spec fn zone_after_add(z: ZoneV, owner: NameK, rr_type: u16, class: u16, ttl: u32, rdata: Seq<u8>) -> ZoneV {
        let old_d = if z.nodes.contains_key(owner) { z.nodes[owner] } else { IMap::<u16, RrsetV>::empty() };
        ZoneV {
            apex: z.apex,
            nodes: IMap::new(
                |n: NameK| z.nodes.contains_key(n)
                    || (exists|j: int| z.apex.len() <= j <= owner.len() && n == anc(owner, j)),
                |n: NameK| if n == owner { node_after_add(old_d, rr_type, class, ttl, rdata) }
                    else if z.nodes.contains_key(n) { z.nodes[n] }
                    else { IMap::<u16, RrsetV>::empty() },
            ),
        }
    }
}
