// SPEC for the incremental name builder (src/name/builder.rs), written from the
// property text / RFC 1035 3.1: a name under construction is a run of complete
// non-null labels (`done`, in wire form) followed by the octets of the label
// being built (`cur`); a label holds at most 63 octets, a name at most 255
// octets on the wire, and only the last label may be null.
pub mod spec_name_builder {
    use vstd::prelude::*;
    use crate::spec_name::*;

    /// Representation invariant of `NameBuilder` in terms of its four fields.
    /// `wire[label_start]` is the placeholder for the length octet of the label
    /// being built (kept 0 until the label is closed).
    pub open spec fn builder_wf(wire: Seq<u8>, offsets: Seq<u8>, label_start: int, label_len: int) -> bool {
        &&& 0 <= label_start < wire.len() <= 255
        &&& 0 <= label_len <= 63
        &&& label_start + 1 + label_len == wire.len()
        &&& wire[label_start] == 0
        &&& labels_ok(wire.subrange(0, label_start), 0)
        &&& offs(offsets) =~= label_starts(wire.subrange(0, label_start), 0).push(label_start)
    }

    /// A complete label `l` (1..=63 octets) in wire form.
    pub open spec fn wire_label(l: Seq<u8>) -> Seq<u8> { seq![l.len() as u8] + l }

    /// label_starts/labels_ok only look at the prefix they walk.
    pub proof fn lemma_offsets_bound(p: Seq<u8>, i: int)
        requires 0 <= i <= p.len(), labels_ok(p, i),
        ensures forall|k: int| 0 <= k < label_starts(p, i).len() ==> i <= #[trigger] label_starts(p, i)[k] < p.len(),
        decreases p.len() - i
    {
        if i < p.len() {
            lemma_offsets_bound(p, i + p[i] as int + 1);
            assert(label_starts(p, i) =~= seq![i] + label_starts(p, i + p[i] as int + 1));
        }
    }
}
