// SPEC for the incremental name builder (src/name/builder.rs), written from the
// property text / RFC 1035 3.1: a name under construction is a run of complete
// non-null labels (`done`, in wire form) followed by the octets of the label
// being built (`cur`); a label holds at most 63 octets, a name at most 255
// octets on the wire, and only the last label may be null.
pub mod spec_name_builder {
    use vstd::prelude::*;
    use crate::spec_name::*;

    /// Representation invariant of `NameBuilder` in terms of its four fields.
    /// `wire[label_start]` is the placeholder for the length octet of the label
    /// being built (kept 0 until the label is closed).
    pub open spec fn builder_wf(wire: Seq<u8>, offsets: Seq<u8>, label_start: int, label_len: int) -> bool {
        &&& 0 <= label_start < wire.len() <= 255
        &&& 0 <= label_len <= 63
        &&& label_start + 1 + label_len == wire.len()
        &&& wire[label_start] == 0
        &&& labels_ok(wire.subrange(0, label_start), 0)
        &&& offs(offsets) =~= label_starts(wire.subrange(0, label_start), 0).push(label_start)
    }

    /// A complete label `l` (1..=63 octets) in wire form.
    pub open spec fn wire_label(l: Seq<u8>) -> Seq<u8> { seq![l.len() as u8] + l }

    /// Offsets shifted by `d` (a name appended after `d` octets).
    pub open spec fn shift(s: Seq<int>, d: int) -> Seq<int> { Seq::new(s.len(), |k: int| s[k] + d) }

    /// Where label `i` of the valid name `s` starts, or `s.len()` past the last one.
    pub open spec fn pref(s: Seq<u8>, i: int) -> int {
        if 0 <= i < name_offsets(s).len() { name_offsets(s)[i] } else { s.len() as int }
    }

    /// Walking `label_starts`: entry j is a length octet 1..=63 inside `p`, the
    /// first entry is `s`, and each label ends where the next one starts (or at
    /// the end of `p`).
    pub proof fn lemma_starts_step(p: Seq<u8>, s: int, j: int)
        requires 0 <= s <= p.len(), labels_ok(p, s), 0 <= j < label_starts(p, s).len(),
        ensures
            label_starts(p, s)[0] == s,
            s <= label_starts(p, s)[j] < p.len(),
            1 <= p[label_starts(p, s)[j]] <= 63,
            label_starts(p, s)[j] + 1 + p[label_starts(p, s)[j]] as int <= p.len(),
            label_starts(p, s)[j] + 1 + p[label_starts(p, s)[j]] as int
                == (if j + 1 < label_starts(p, s).len() { label_starts(p, s)[j + 1] } else { p.len() as int }),
        decreases p.len() - s
    {
        let nx = s + p[s] as int + 1;
        assert(label_starts(p, s) =~= seq![s] + label_starts(p, nx));
        if j == 0 {
            if nx < p.len() {
                assert(label_starts(p, nx)[0] == nx);
            } else {
                assert(label_starts(p, nx) =~= Seq::<int>::empty());
            }
        } else {
            lemma_starts_step(p, nx, j - 1);
            assert(label_starts(p, s)[j] == label_starts(p, nx)[j - 1]);
            if j + 1 < label_starts(p, s).len() {
                assert(label_starts(p, s)[j + 1] == label_starts(p, nx)[j]);
            }
        }
    }

    /// The labels of a valid name tile it: label i starts at name_offsets[i], its
    /// length octet is <= 63 (0 exactly for the last one) and it ends where label
    /// i+1 starts (the last one ends at the end of the name).
    pub proof fn lemma_name_step(s: Seq<u8>, i: int)
        requires valid_name(s), 0 <= i < name_offsets(s).len(),
        ensures
            pref(s, 0) == 0,
            0 <= pref(s, i) < s.len(),
            s[pref(s, i)] <= 63,
            (s[pref(s, i)] == 0) == (i == name_offsets(s).len() - 1),
            pref(s, i) + 1 + s[pref(s, i)] as int == pref(s, i + 1),
            pref(s, i + 1) <= s.len(),
    {
        let p = s.drop_last();
        let st = label_starts(p, 0);
        assert(name_offsets(s) =~= st.push(s.len() - 1));
        if st.len() > 0 {
            lemma_starts_step(p, 0, 0);
        } else {
            // no non-null label: labels_ok(p, 0) with no start means p is empty
            if p.len() > 0 {
                assert(label_starts(p, 0) =~= seq![0int] + label_starts(p, p[0] as int + 1));
            }
        }
        if i < st.len() {
            lemma_starts_step(p, 0, i);
            assert(p[st[i]] == s[st[i]]);
        }
    }

    /// Labels of `q` from `j` on, seen inside `p + q`.
    pub proof fn lemma_shift(p: Seq<u8>, q: Seq<u8>, j: int)
        requires 0 <= j <= q.len(), labels_ok(q, j),
        ensures
            labels_ok(p + q, p.len() + j),
            label_starts(p + q, p.len() + j) =~= shift(label_starts(q, j), p.len() as int),
        decreases q.len() - j
    {
        let r = p + q;
        if j < q.len() {
            assert(r[p.len() + j] == q[j]);
            lemma_shift(p, q, j + q[j] as int + 1);
            assert(label_starts(q, j) =~= seq![j] + label_starts(q, j + q[j] as int + 1));
            assert(label_starts(r, p.len() + j) =~= seq![p.len() + j] + label_starts(r, p.len() + j + q[j] as int + 1));
        } else {
            assert(label_starts(q, j) =~= Seq::<int>::empty());
            assert(label_starts(r, p.len() + j) =~= Seq::<int>::empty());
        }
    }

    /// Appending a run of complete labels `q` to a run of complete labels `p`.
    pub proof fn lemma_concat_starts(p: Seq<u8>, q: Seq<u8>, i: int)
        requires 0 <= i <= p.len(), labels_ok(p, i), labels_ok(q, 0),
        ensures
            labels_ok(p + q, i),
            label_starts(p + q, i) =~= label_starts(p, i) + shift(label_starts(q, 0), p.len() as int),
        decreases p.len() - i
    {
        let r = p + q;
        if i == p.len() {
            lemma_shift(p, q, 0);
            assert(label_starts(p, i) =~= Seq::<int>::empty());
        } else {
            assert(r[i] == p[i]);
            lemma_concat_starts(p, q, i + p[i] as int + 1);
            assert(label_starts(p, i) =~= seq![i] + label_starts(p, i + p[i] as int + 1));
            assert(label_starts(r, i) =~= seq![i] + label_starts(r, i + r[i] as int + 1));
        }
    }

    /// Complete labels `p` followed by a valid name `s` form a valid name (if it
    /// fits 255 octets) whose label offsets are those of `p` followed by those of
    /// `s` shifted by `p.len()`.
    pub proof fn lemma_concat_name(p: Seq<u8>, s: Seq<u8>)
        requires labels_ok(p, 0), valid_name(s), p.len() + s.len() <= 255,
        ensures
            valid_name(p + s),
            name_offsets(p + s) =~= label_starts(p, 0) + shift(name_offsets(s), p.len() as int),
    {
        let q = s.drop_last();
        assert((p + s).drop_last() =~= p + q);
        lemma_concat_starts(p, q, 0);
        assert(shift(name_offsets(s), p.len() as int) =~= shift(label_starts(q, 0), p.len() as int).push(p.len() + s.len() - 1));
    }

    /// label_starts/labels_ok only look at the prefix they walk.
    pub proof fn lemma_offsets_bound(p: Seq<u8>, i: int)
        requires 0 <= i <= p.len(), labels_ok(p, i),
        ensures forall|k: int| 0 <= k < label_starts(p, i).len() ==> i <= #[trigger] label_starts(p, i)[k] < p.len(),
        decreases p.len() - i
    {
        if i < p.len() {
            lemma_offsets_bound(p, i + p[i] as int + 1);
            assert(label_starts(p, i) =~= seq![i] + label_starts(p, i + p[i] as int + 1));
        }
    }
}
