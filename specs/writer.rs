// SPEC (oracle) for the message writer: byte-level helpers written from
// RFC 1035 section 4.1 (message format), not from the code.
pub mod spec_writer {
    use vstd::prelude::*;
    use crate::spec_name::*;

    /// `s` with the octets `[pos, pos + data.len())` replaced by `data`;
    /// everything else unchanged (the frame of every buffer write).
    pub open spec fn splice(s: Seq<u8>, pos: int, data: Seq<u8>) -> Seq<u8> {
        Seq::new(s.len(), |i: int| if pos <= i < pos + data.len() { data[i - pos] } else { s[i] })
    }

    /// Big-endian (network order) encodings, RFC 1035 2.3.2.
    pub open spec fn u16_be(x: u16) -> Seq<u8> { seq![(x >> 8) as u8, (x & 0xff) as u8] }
    pub open spec fn u32_be(x: u32) -> Seq<u8> {
        seq![(x >> 24) as u8, ((x >> 16) & 0xff) as u8, ((x >> 8) & 0xff) as u8, (x & 0xff) as u8]
    }

    /// The 16-bit / 32-bit big-endian value `x` is stored at `b[i..]`.
    pub open spec fn at16(b: Seq<u8>, i: int, x: u16) -> bool {
        b[i] == (x >> 8) as u8 && b[i + 1] == (x & 0xff) as u8
    }
    pub open spec fn at32(b: Seq<u8>, i: int, x: u32) -> bool {
        b[i] == (x >> 24) as u8 && b[i + 1] == ((x >> 16) & 0xff) as u8 && b[i + 2] == ((x >> 8) & 0xff) as u8 && b[i + 3] == (x & 0xff) as u8
    }

    /// The octets `w` are stored at `b[at..]`.
    pub open spec fn placed(b: Seq<u8>, at: int, w: Seq<u8>) -> bool {
        at + w.len() <= b.len() && forall|i: int| 0 <= i < w.len() ==> b[at + i] == #[trigger] w[i]
    }

    /// The two buffers agree on `[0, n)`.
    pub open spec fn same_prefix(a: Seq<u8>, b: Seq<u8>, n: int) -> bool {
        a.len() == b.len() && forall|i: int| 0 <= i < n ==> a[i] == #[trigger] b[i]
    }

    /// Header field: 16-bit counter stored at `[at, at + 2)`.
    pub open spec fn hdr16(s: Seq<u8>, at: int) -> int { (s[at] as int) * 256 + (s[at + 1] as int) }

    /// A compression pointer to offset `p` (RFC 1035 4.1.4): two octets `11pppppp pppppppp`.
    pub open spec fn ptr_octets(p: u16) -> Seq<u8> { u16_be((0xc000u16 | p) as u16) }

    /// RFC 1035 4.1.4 walk: from position `i` of the chunk that started at `cs`, the octets of
    /// `b[lb, end)` form labels (1..=63 octets each) up to a null label, possibly continuing
    /// through compression pointers, each of which points strictly before the start of the
    /// chunk it ends and not below `lb`.  (The validity part of the C14 reference decoder
    /// `dec`, plus the lower bound `lb` that keeps the walk out of the header.)
    pub open spec fn lab_ok(b: Seq<u8>, lb: int, end: int, cs: int, i: int) -> bool
        decreases cs, end - i
    {
        if i < lb || i >= end || end > b.len() || cs < lb || cs > i { false }
        else if b[i] >= 192 {
            i + 1 < end && {
                let p = ((b[i] as int) % 64) * 256 + (b[i + 1] as int);
                lb <= p < cs && lab_ok(b, lb, end, p, p)
            }
        }
        else if b[i] > 63 { false }
        else if b[i] == 0 { true }
        else { i + b[i] as int + 1 < end && lab_ok(b, lb, end, cs, i + b[i] as int + 1) }
    }

    /// [C13] `p` is the first octet of a label (not a pointer) of a name that lies, with
    /// everything its pointers lead to, in `b[lb, end)`.
    pub open spec fn label_start(b: Seq<u8>, lb: int, end: int, p: int) -> bool {
        lb <= p < end && end <= b.len() && b[p] < 192 && lab_ok(b, lb, end, p, p)
    }

    /// Label starts of the message body (offsets >= 12) survive the step from buffer `a` with
    /// message end `n` to buffer `b` with message end `m`, and stay label starts for every
    /// earlier message end.
    pub open spec fn kept(a: Seq<u8>, n: int, b: Seq<u8>, m: int) -> bool {
        &&& forall|p: int| #[trigger] label_start(a, 12, n, p) ==> label_start(b, 12, m, p)
        &&& forall|e: int, p: int| e <= n && #[trigger] label_start(a, 12, e, p) ==> label_start(b, 12, e, p)
    }

    /// A walk only depends on the octets in `[lb, end)` and survives growing `end`.
    pub proof fn lemma_lab_ok_frame(a: Seq<u8>, b: Seq<u8>, lb: int, n: int, m: int, cs: int, i: int)
        requires
            lab_ok(a, lb, n, cs, i),
            n <= m <= b.len(),
            forall|k: int| lb <= k < n ==> a[k] == b[k],
        ensures lab_ok(b, lb, m, cs, i),
        decreases cs, n - i
    {
        if a[i] >= 192 {
            let p = ((a[i] as int) % 64) * 256 + (a[i + 1] as int);
            lemma_lab_ok_frame(a, b, lb, n, m, p, p);
        } else if a[i] == 0 {
        } else {
            lemma_lab_ok_frame(a, b, lb, n, m, cs, i + a[i] as int + 1);
        }
    }

    /// Writing at or beyond the message end `n` (or into the header) keeps every label start.
    pub proof fn lemma_kept(a: Seq<u8>, b: Seq<u8>, n: int, m: int)
        requires
            n <= m <= b.len(),
            forall|k: int| 12 <= k < n ==> a[k] == b[k],
        ensures kept(a, n, b, m),
    {
        assert forall|p: int| #[trigger] label_start(a, 12, n, p) implies label_start(b, 12, m, p) by {
            lemma_lab_ok_frame(a, b, 12, n, m, p, p);
        }
        assert forall|e: int, p: int| e <= n && #[trigger] label_start(a, 12, e, p) implies label_start(b, 12, e, p) by {
            lemma_lab_ok_frame(a, b, 12, e, e, p, p);
        }
    }

    /// An uncompressed valid name stored at `c` is a walk from `c + k` for each of its label
    /// offsets `k`.
    pub proof fn lemma_placed_name_lab_ok(b: Seq<u8>, lb: int, end: int, c: int, w: Seq<u8>, k: int)
        requires
            valid_name(w), placed(b, c, w), lb <= c, c + w.len() <= end <= b.len(),
            0 <= k < w.len(), labels_ok(w.drop_last(), k),
        ensures lab_ok(b, lb, end, c, c + k),
        decreases w.len() - k
    {
        let d = w.drop_last();
        assert(b[c + k] == w[k]);
        if k == d.len() {
            assert(w[k] == w.last());
        } else {
            assert(w[k] == d[k]);
            let nk = k + d[k] as int + 1;
            assert(nk <= d.len());
            lemma_placed_name_lab_ok(b, lb, end, c, w, nk);
        }
    }

    /// [C13] The first octet of an uncompressed valid name stored at `c` is a label start.
    pub proof fn lemma_placed_name_label_start(b: Seq<u8>, end: int, c: int, w: Seq<u8>)
        requires valid_name(w), placed(b, c, w), 12 <= c, c + w.len() <= end <= b.len(),
        ensures label_start(b, 12, end, c),
    {
        lemma_placed_name_lab_ok(b, 12, end, c, w, 0);
        assert(b[c + 0] == w[0]);
        let d = w.drop_last();
        if d.len() == 0 { assert(w[0] == w.last()); } else { assert(w[0] == d[0]); }
    }

    /// ASCII case folding (RFC 4343).
    pub open spec fn lc(b: u8) -> u8 { if 65 <= b && b <= 90 { (b + 32) as u8 } else { b } }
    pub open spec fn ci_eq(a: Seq<u8>, b: Seq<u8>) -> bool {
        a.len() == b.len() && forall|i: int| 0 <= i < a.len() ==> lc(a[i]) == lc(b[i])
    }

    /// Reading back a big-endian 16-bit value.
    pub proof fn lemma_hdr16_be(x: u16)
        ensures ((x >> 8) as u8 as int) * 256 + ((x & 0xff) as u8 as int) == x as int,
    {
        assert(((x >> 8) as u8 as int) * 256 + ((x & 0xff) as u8 as int) == x as int) by (bit_vector);
    }

    pub proof fn lemma_splice(s: Seq<u8>, pos: int, data: Seq<u8>)
        requires 0 <= pos, pos + data.len() <= s.len(),
        ensures splice(s, pos, data) =~= s.subrange(0, pos) + data + s.subrange(pos + data.len(), s.len() as int),
    {}
}
