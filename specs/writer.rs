// SPEC (oracle) for the message writer: byte-level helpers written from
// RFC 1035 section 4.1 (message format), not from the code.
pub mod spec_writer {
    use vstd::prelude::*;
    use crate::spec_name::*;

    /// `s` with the octets `[pos, pos + data.len())` replaced by `data`;
    /// everything else unchanged (the frame of every buffer write).
    pub open spec fn splice(s: Seq<u8>, pos: int, data: Seq<u8>) -> Seq<u8> {
        Seq::new(s.len(), |i: int| if pos <= i < pos + data.len() { data[i - pos] } else { s[i] })
    }

    /// Big-endian (network order) encodings, RFC 1035 2.3.2.
    pub open spec fn u16_be(x: u16) -> Seq<u8> { seq![(x >> 8) as u8, (x & 0xff) as u8] }
    pub open spec fn u32_be(x: u32) -> Seq<u8> {
        seq![(x >> 24) as u8, ((x >> 16) & 0xff) as u8, ((x >> 8) & 0xff) as u8, (x & 0xff) as u8]
    }

    /// The 16-bit / 32-bit big-endian value `x` is stored at `b[i..]`.
    pub open spec fn at16(b: Seq<u8>, i: int, x: u16) -> bool {
        b[i] == (x >> 8) as u8 && b[i + 1] == (x & 0xff) as u8
    }
    pub open spec fn at32(b: Seq<u8>, i: int, x: u32) -> bool {
        b[i] == (x >> 24) as u8 && b[i + 1] == ((x >> 16) & 0xff) as u8 && b[i + 2] == ((x >> 8) & 0xff) as u8 && b[i + 3] == (x & 0xff) as u8
    }

    /// The octets `w` are stored at `b[at..]`.
    pub open spec fn placed(b: Seq<u8>, at: int, w: Seq<u8>) -> bool {
        at + w.len() <= b.len() && forall|i: int| 0 <= i < w.len() ==> b[at + i] == #[trigger] w[i]
    }

    /// The two buffers agree on `[0, n)`.
    pub open spec fn same_prefix(a: Seq<u8>, b: Seq<u8>, n: int) -> bool {
        a.len() == b.len() && forall|i: int| 0 <= i < n ==> a[i] == #[trigger] b[i]
    }

    /// Header field: 16-bit counter stored at `[at, at + 2)`.
    pub open spec fn hdr16(s: Seq<u8>, at: int) -> int { (s[at] as int) * 256 + (s[at + 1] as int) }

    /// A compression pointer to offset `p` (RFC 1035 4.1.4): two octets `11pppppp pppppppp`.
    pub open spec fn ptr_octets(p: u16) -> Seq<u8> { u16_be((0xc000u16 | p) as u16) }

    /// RFC 1035 4.1.4: `p` is the offset of the first octet of a label (not of a
    /// pointer) of a name that lies completely inside `msg[0, end)` and decodes.
    pub open spec fn label_start_at(msg: Seq<u8>, end: int, p: int) -> bool {
        12 <= p < end && end <= msg.len() && msg[p] < 192
            && dec(msg.subrange(0, end), p) is Some
    }

    /// ASCII case folding (RFC 4343).
    pub open spec fn lc(b: u8) -> u8 { if 65 <= b && b <= 90 { (b + 32) as u8 } else { b } }
    pub open spec fn ci_eq(a: Seq<u8>, b: Seq<u8>) -> bool {
        a.len() == b.len() && forall|i: int| 0 <= i < a.len() ==> lc(a[i]) == lc(b[i])
    }

    /// Reading back a big-endian 16-bit value.
    pub proof fn lemma_hdr16_be(x: u16)
        ensures ((x >> 8) as u8 as int) * 256 + ((x & 0xff) as u8 as int) == x as int,
    {
        assert(((x >> 8) as u8 as int) * 256 + ((x & 0xff) as u8 as int) == x as int) by (bit_vector);
    }

    pub proof fn lemma_splice(s: Seq<u8>, pos: int, data: Seq<u8>)
        requires 0 <= pos, pos + data.len() <= s.len(),
        ensures splice(s, pos, data) =~= s.subrange(0, pos) + data + s.subrange(pos + data.len(), s.len() as int),
    {}
}
