// SPEC (oracle) for DNS message framing, RFC 1035 section 4.1: header fields, the
// question entry and the resource-record entry as seen from a cursor.  Written
// from the RFC; the RDATA payload is delegated to `rdata_read_spec` (C18).
pub mod spec_msg {
    use vstd::prelude::*;
    use crate::spec_name::*;
    use crate::vq::{be16, be32};

    pub open spec fn u16_at(b: Seq<u8>, i: int) -> u16 { be16(b[i], b[i + 1]) }
    pub open spec fn u32_at(b: Seq<u8>, i: int) -> u32 { be32(b[i], b[i + 1], b[i + 2], b[i + 3]) }

    /// RFC 2181 section 8: TTLs with the top bit set count as zero.
    pub open spec fn ttl_clamp(raw: u32) -> u32 { if raw > 0x7fff_ffff { 0 } else { raw } }

    pub struct QuestionView { pub qname: Seq<u8>, pub qtype: u16, pub qclass: u16, pub end: int }

    /// The question entry at `c`: a possibly compressed QNAME, then QTYPE and QCLASS.
    pub open spec fn question_at(b: Seq<u8>, c: int) -> Option<QuestionView> {
        match dec(b, c) {
            None => None,
            Some(d) => {
                let e = c + d.1;
                if e + 4 > b.len() { None }
                else { Some(QuestionView { qname: d.0, qtype: u16_at(b, e), qclass: u16_at(b, e + 2), end: e + 4 }) }
            }
        }
    }

    /// The question entry at `c` judged without following pointers (what "skipping" may rely on).
    pub open spec fn question_skip_at(b: Seq<u8>, c: int) -> Option<int> {
        if c < 0 || c > b.len() { None } else {
            match skip_from(b.subrange(c, b.len() as int), 0) {
                None => None,
                Some(n) => if c + n + 4 > b.len() { None } else { Some(c + n + 4) },
            }
        }
    }

    /// Decompressed, validated RDATA of (class, type) found at `cursor` with length
    /// `rdlength`, or None when it is malformed / does not fit.  Defined by the RDATA
    /// units (property C18); here only its framing consequence is used.
    pub uninterp spec fn rdata_read_spec(class: u16, rr_type: u16, msg: Seq<u8>, cursor: int, rdlength: int) -> Option<Seq<u8>>;

    pub struct RrView {
        pub owner: Seq<u8>, pub rr_type: u16, pub class: u16, pub ttl: u32, pub rdlength: u16,
        pub rdata: Seq<u8>, pub owner_end: int, pub end: int,
    }

    /// The resource record at `c`, fully decoded.
    pub open spec fn rr_at(b: Seq<u8>, c: int) -> Option<RrView> {
        match dec(b, c) {
            None => None,
            Some(d) => {
                let e = c + d.1;
                if e + 10 > b.len() { None } else {
                    let t = u16_at(b, e); let cl = u16_at(b, e + 2); let rl = u16_at(b, e + 8);
                    match rdata_read_spec(cl, t, b, e + 10, rl as int) {
                        None => None,
                        Some(rd) => Some(RrView { owner: d.0, rr_type: t, class: cl, ttl: ttl_clamp(u32_at(b, e + 4)),
                                                  rdlength: rl, rdata: rd, owner_end: e, end: e + 10 + rl as int }),
                    }
                }
            }
        }
    }

    /// The resource record at `c` delimited without following pointers and
    /// without validating RDATA: (end of owner, end of record).
    pub open spec fn rr_skip_at(b: Seq<u8>, c: int) -> Option<(int, int)> {
        if c < 0 || c > b.len() { None } else {
            match skip_from(b.subrange(c, b.len() as int), 0) {
                None => None,
                Some(n) => {
                    let e = c + n;
                    if e + 10 > b.len() { None } else {
                        let end = e + 10 + u16_at(b, e + 8) as int;
                        if end > b.len() { None } else { Some((e, end)) }
                    }
                }
            }
        }
    }
}
