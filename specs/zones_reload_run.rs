// SPEC (oracle) for the reload step of C31 "Reloading keeps every zone on its own latest good data",
// written from the property text:
//   "After the daemon reloads on SIGHUP, each configured zone is served from its newly loaded data if
//    its file loaded and validated, from its previously served data if it failed, and with SERVFAIL if
//    it has never loaded; zones removed from the configuration are no longer served."
// "Served" = the catalog the Server holds (`ServerView::catalog`, written only by Server::set_catalog);
// "configured" = the zone list the reload obtains from its source (command line: the list given at
// start-up; configuration file: what config::load_from_path returns NOW).
pub mod spec_run {
    use vstd::prelude::*;
    use crate::config::{Config, ZoneConfig, TsigKeyConfig};
    use crate::run::ReloadSource;
    use crate::spec_zones::*;
    use crate::spec_zones_result::*;

    /// The configuration a reload from `src` works with: None if it cannot be obtained.
    pub open spec fn source_zones(src: ReloadSource) -> Option<Seq<ZoneConfig>> {
        match src {
            ReloadSource::Args(zs) => Some(zs@),
            ReloadSource::Config(path) => match crate::config::config_outcome(*path) {
                Ok(c) => Some(c.zones@),
                Err(_) => None,
            },
        }
    }
    /// ... and the TSIG key configurations (none on the command line).
    pub open spec fn source_keys(src: ReloadSource) -> Option<Seq<TsigKeyConfig>> {
        match src {
            ReloadSource::Args(_) => Some(Seq::empty()),
            ReloadSource::Config(path) => match crate::config::config_outcome(*path) {
                Ok(c) => Some(c.tsig_keys@),
                Err(_) => None,
            },
        }
    }

    /// "zones removed from the configuration are no longer served": only configured zones have an entry.
    pub open spec fn only_configured_served(zs: Seq<ZoneConfig>, served: CatView) -> bool {
        forall|k: Key| #[trigger] served.contains_key(k) ==> exists|i: int| 0 <= i < zs.len() && #[trigger] zkey(zs[i]) == k
    }

    /// "each configured zone is served from its newly loaded data if its file loaded and validated, from
    /// its previously served data if it failed, and with SERVFAIL [a FailedToLoad entry] if it has never
    /// loaded" - `zone_entry_ok` (specs/zones_reload.rs) against the zone's OWN previously served entry.
    pub open spec fn every_zone_on_own_data(zs: Seq<ZoneConfig>, prev_served: CatView, served: CatView) -> bool {
        forall|i: int| 0 <= i < zs.len() ==> served.contains_key(zkey(#[trigger] zs[i]))
            && zone_entry_ok(zs[i], prev_exact(Some(prev_served), zs[i]), served[zkey(zs[i])])
    }
}
