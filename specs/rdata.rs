// SPEC (oracle) for RDATA wire formats (property C18).  Written from the
// defining RFCs, not from the code:
//   RFC 1035 3.3   <domain-name>, <character-string>; 3.3.1-3.3.14 standard RRs;
//            3.4.1 A, 3.4.2 WKS (Internet class); RFC 1034 3.6 (Chaosnet A);
//   RFC 2782 SRV;  RFC 3596 2.2 AAAA;  RFC 6891 6.1.2 OPT;  RFC 8945 4.2 TSIG;
//   RFC 3597 (unknown types are opaque; only RFC 1035 types are decompressed).
// Class and type are the IANA 16-bit values.  Embedded domain names reuse the
// RFC 1035 3.1 / 4.1.4 reference of specs/name.rs (`ulen`, `valid_name`, `dec`).
pub mod spec_rdata {
    use vstd::prelude::*;
    use crate::spec_name::*;

    pub spec const CLASS_IN: u16 = 1;
    pub spec const CLASS_CH: u16 = 3;

    pub spec const T_A: u16 = 1;
    pub spec const T_NS: u16 = 2;
    pub spec const T_MD: u16 = 3;
    pub spec const T_MF: u16 = 4;
    pub spec const T_CNAME: u16 = 5;
    pub spec const T_SOA: u16 = 6;
    pub spec const T_MB: u16 = 7;
    pub spec const T_MG: u16 = 8;
    pub spec const T_MR: u16 = 9;
    pub spec const T_NULL: u16 = 10;
    pub spec const T_WKS: u16 = 11;
    pub spec const T_PTR: u16 = 12;
    pub spec const T_HINFO: u16 = 13;
    pub spec const T_MINFO: u16 = 14;
    pub spec const T_MX: u16 = 15;
    pub spec const T_TXT: u16 = 16;
    pub spec const T_AAAA: u16 = 28;
    pub spec const T_SRV: u16 = 33;
    pub spec const T_OPT: u16 = 41;
    pub spec const T_TSIG: u16 = 250;

    /// RDATA is carried behind a 16-bit RDLENGTH (RFC 1035 3.2.1).
    pub spec const MAX_RDATA_LEN: int = 65535;

    // ------------------------------------------------------------ primitives

    /// `s[i..]`.
    pub open spec fn tail(s: Seq<u8>, i: int) -> Seq<u8> {
        s.subrange(i, s.len() as int)
    }

    /// Big-endian 16-bit integer at `s[i], s[i+1]`.
    pub open spec fn u16_at(s: Seq<u8>, i: int) -> int {
        (s[i] as int) * 256 + (s[i + 1] as int)
    }

    /// RFC 1035 3.3 <domain-name> (uncompressed) starting at offset `i`: its
    /// length in octets, if there is one.
    pub open spec fn name_len_at(s: Seq<u8>, i: int) -> Option<int> {
        if 0 <= i <= s.len() { ulen(tail(s, i)) } else { None }
    }

    /// RFC 1035 3.3 <character-string> starting at offset `i`: "a single
    /// length octet followed by that number of characters"; its length on the
    /// wire, if it fits.
    pub open spec fn cstr_len_at(s: Seq<u8>, i: int) -> Option<int> {
        if 0 <= i < s.len() && i + 1 + s[i] as int <= s.len() { Some(1 + s[i] as int) } else { None }
    }

    /// `s[i..]` is exactly a sequence of zero or more <character-string>s.
    pub open spec fn cstrs_from(s: Seq<u8>, i: int) -> bool
        decreases s.len() - i
    {
        if i < 0 || i > s.len() { false }
        else if i == s.len() { true }
        else {
            match cstr_len_at(s, i) {
                Some(n) => cstrs_from(s, i + n),
                None => false,
            }
        }
    }

    /// RFC 6891 6.1.2: one option = OPTION-CODE (16 bit), OPTION-LENGTH (16 bit),
    /// OPTION-DATA (OPTION-LENGTH octets); its length on the wire, if it fits.
    pub open spec fn option_len_at(s: Seq<u8>, i: int) -> Option<int> {
        if 0 <= i && i + 4 <= s.len() && i + 4 + u16_at(s, i + 2) <= s.len() { Some(4 + u16_at(s, i + 2)) } else { None }
    }

    /// `s[i..]` is exactly a sequence of zero or more options.
    pub open spec fn options_from(s: Seq<u8>, i: int) -> bool
        decreases s.len() - i
    {
        if i < 0 || i > s.len() { false }
        else if i == s.len() { true }
        else {
            match option_len_at(s, i) {
                Some(n) => options_from(s, i + n),
                None => false,
            }
        }
    }

    // --------------------------------------------------- per-type wire formats

    /// NS, MD, MF, CNAME, MB, MG, MR, PTR (RFC 1035 3.3.x): a single <domain-name>.
    pub open spec fn valid_single_name(s: Seq<u8>) -> bool {
        name_len_at(s, 0) == Some(s.len() as int)
    }

    /// RFC 1035 3.4.1: ADDRESS, a 32 bit Internet address.
    pub open spec fn valid_in_a(s: Seq<u8>) -> bool { s.len() == 4 }

    /// RFC 1034 3.6: "a domain name followed by a 16 bit octal Chaos address".
    pub open spec fn valid_ch_a(s: Seq<u8>) -> bool {
        match name_len_at(s, 0) {
            Some(n) => s.len() == n + 2,
            None => false,
        }
    }

    /// RFC 1035 3.3.13: MNAME RNAME SERIAL REFRESH RETRY EXPIRE MINIMUM (5 x 32 bit).
    pub open spec fn valid_soa(s: Seq<u8>) -> bool {
        match name_len_at(s, 0) {
            Some(m) => match name_len_at(s, m) {
                Some(r) => s.len() == m + r + 20,
                None => false,
            },
            None => false,
        }
    }

    /// RFC 1035 3.4.2: ADDRESS (32 bit) PROTOCOL (8 bit) <BIT MAP> (variable,
    /// a whole number of octets, possibly none).
    pub open spec fn valid_in_wks(s: Seq<u8>) -> bool { s.len() >= 5 }

    /// RFC 1035 3.3.2: CPU OS, two <character-string>s.
    pub open spec fn valid_hinfo(s: Seq<u8>) -> bool {
        match cstr_len_at(s, 0) {
            Some(c) => match cstr_len_at(s, c) {
                Some(o) => s.len() == c + o,
                None => false,
            },
            None => false,
        }
    }

    /// RFC 1035 3.3.7: RMAILBX EMAILBX, two <domain-name>s.
    pub open spec fn valid_minfo(s: Seq<u8>) -> bool {
        match name_len_at(s, 0) {
            Some(r) => match name_len_at(s, r) {
                Some(e) => s.len() == r + e,
                None => false,
            },
            None => false,
        }
    }

    /// RFC 1035 3.3.9: PREFERENCE (16 bit) EXCHANGE (<domain-name>).
    pub open spec fn valid_mx(s: Seq<u8>) -> bool {
        s.len() >= 2 && name_len_at(s, 2) == Some(s.len() - 2)
    }

    /// RFC 1035 3.3.14: "One or more <character-string>s".
    pub open spec fn valid_txt(s: Seq<u8>) -> bool {
        s.len() >= 1 && cstrs_from(s, 0)
    }

    /// RFC 3596 2.2: "A 128 bit IPv6 address".
    pub open spec fn valid_in_aaaa(s: Seq<u8>) -> bool { s.len() == 16 }

    /// RFC 2782: Priority Weight Port (3 x 16 bit) Target (<domain-name>, never compressed).
    pub open spec fn valid_in_srv(s: Seq<u8>) -> bool {
        s.len() >= 6 && name_len_at(s, 6) == Some(s.len() - 6)
    }

    /// RFC 6891 6.1.2: zero or more {attribute, value} pairs.
    pub open spec fn valid_opt(s: Seq<u8>) -> bool { options_from(s, 0) }

    /// RFC 8945 4.2: Algorithm Name (<domain-name>, uncompressed), Time Signed
    /// (48 bit), Fudge (16), MAC Size (16), MAC (MAC Size octets), Original ID
    /// (16), Error (16), Other Len (16), Other Data (Other Len octets).
    pub open spec fn valid_tsig(s: Seq<u8>) -> bool {
        match name_len_at(s, 0) {
            Some(a) => {
                &&& a + 10 <= s.len()
                &&& a + 10 + u16_at(s, a + 8) + 6 <= s.len()
                &&& s.len() == a + 10 + u16_at(s, a + 8) + 6 + u16_at(s, a + 10 + u16_at(s, a + 8) + 4)
            },
            None => false,
        }
    }

    /// The types whose RDATA is one <domain-name>.
    pub open spec fn is_single_name_type(ty: u16) -> bool {
        ty == T_NS || ty == T_MD || ty == T_MF || ty == T_CNAME || ty == T_MB || ty == T_MG || ty == T_MR || ty == T_PTR
    }

    /// Wire-format validity of RDATA of type `ty` in class `class`, length limit
    /// aside.  Class/type pairs without a known format (NULL, RFC 3597 unknown
    /// types, class-specific types in other classes) are opaque: anything goes.
    pub open spec fn valid_form(class: u16, ty: u16, s: Seq<u8>) -> bool {
        if is_single_name_type(ty) { valid_single_name(s) }
        else if ty == T_A && class == CLASS_IN { valid_in_a(s) }
        else if ty == T_A && class == CLASS_CH { valid_ch_a(s) }
        else if ty == T_SOA { valid_soa(s) }
        else if ty == T_WKS && class == CLASS_IN { valid_in_wks(s) }
        else if ty == T_HINFO { valid_hinfo(s) }
        else if ty == T_MINFO { valid_minfo(s) }
        else if ty == T_MX { valid_mx(s) }
        else if ty == T_TXT { valid_txt(s) }
        else if ty == T_AAAA && class == CLASS_IN { valid_in_aaaa(s) }
        else if ty == T_SRV && class == CLASS_IN { valid_in_srv(s) }
        else if ty == T_OPT { valid_opt(s) }
        else if ty == T_TSIG { valid_tsig(s) }
        else { true }
    }

    /// Valid RDATA: the format of its class/type, in at most 65535 octets.
    pub open spec fn valid(class: u16, ty: u16, s: Seq<u8>) -> bool {
        s.len() <= MAX_RDATA_LEN && valid_form(class, ty, s)
    }

    // ------------------------------------------- layout for name compression

    /// How RDATA is cut up for the compressing writer: embedded names that may
    /// be compressed, embedded names that must not, runs of other octets.
    pub enum Piece { CName, UName, Fixed(int) }

    /// RFC 3597 section 4: names in the RDATA of the RFC 1035 types (NS, MD, MF,
    /// CNAME, SOA, MB, MG, MR, PTR, MINFO, MX) may be compressed; no other name
    /// may (the crate knows two such formats: Chaosnet A and SRV, RFC 2782
    /// "name compression is not to be used").  Whatever follows the listed
    /// pieces is other data; formats without names have no pieces.
    pub open spec fn pieces(class: u16, ty: u16) -> Seq<Piece> {
        if is_single_name_type(ty) { seq![Piece::CName] }
        else if ty == T_A && class == CLASS_CH { seq![Piece::UName] }
        else if ty == T_SOA { seq![Piece::CName, Piece::CName] }
        else if ty == T_MINFO { seq![Piece::CName, Piece::CName] }
        else if ty == T_MX { seq![Piece::Fixed(2), Piece::CName] }
        else if ty == T_SRV && class == CLASS_IN { seq![Piece::Fixed(6), Piece::UName] }
        else { Seq::empty() }
    }

    // ------------------------------------------------- reading from a message

    /// The possibly compressed name at `msg[at..]` (RFC 1035 4.1.4; pointers
    /// are offsets into `msg`): (uncompressed wire form, octets occupied at `at`).
    pub open spec fn cname_at(msg: Seq<u8>, at: int) -> Option<(Seq<u8>, int)> {
        dec(msg, at)
    }

    // Per-format readers.  `msg` is the message truncated at the end of the RDATA
    // (so `msg.len() == cursor + rdlen`): a name may not run past the RDATA, and
    // pointers can only refer to what precedes them anyway.

    /// <domain-name>
    pub open spec fn rd_single_name(msg: Seq<u8>, cursor: int, rdlen: int) -> Option<Seq<u8>> {
        match cname_at(msg, cursor) {
            Some((w, n)) => if n == rdlen { Some(w) } else { None },
            None => None,
        }
    }

    /// <domain-name> ADDRESS(16)
    pub open spec fn rd_ch_a(msg: Seq<u8>, cursor: int, rdlen: int) -> Option<Seq<u8>> {
        match cname_at(msg, cursor) {
            Some((w, n)) => if rdlen == n + 2 { Some(w + tail(msg, cursor + n)) } else { None },
            None => None,
        }
    }

    /// MNAME RNAME 5 x 32 bit
    pub open spec fn rd_soa(msg: Seq<u8>, cursor: int, rdlen: int) -> Option<Seq<u8>> {
        match cname_at(msg, cursor) {
            Some((w1, n1)) => match cname_at(msg, cursor + n1) {
                Some((w2, n2)) => if rdlen == n1 + n2 + 20 { Some(w1 + w2 + tail(msg, cursor + n1 + n2)) } else { None },
                None => None,
            },
            None => None,
        }
    }

    /// RMAILBX EMAILBX
    pub open spec fn rd_minfo(msg: Seq<u8>, cursor: int, rdlen: int) -> Option<Seq<u8>> {
        match cname_at(msg, cursor) {
            Some((w1, n1)) => match cname_at(msg, cursor + n1) {
                Some((w2, n2)) => if rdlen == n1 + n2 { Some(w1 + w2) } else { None },
                None => None,
            },
            None => None,
        }
    }

    /// `fixed` octets, then a <domain-name> (MX: 2, SRV: 6)
    pub open spec fn rd_fixed_then_name(msg: Seq<u8>, cursor: int, rdlen: int, fixed: int) -> Option<Seq<u8>> {
        if rdlen < fixed { None } else {
            match cname_at(msg, cursor + fixed) {
                Some((w, n)) => if rdlen == n + fixed { Some(msg.subrange(cursor, cursor + fixed) + w) } else { None },
                None => None,
            }
        }
    }

    /// What reading RDATA of `rdlen` octets at `message[cursor..]` must deliver:
    /// for the RFC 1035 types that embed names (RFC 3597 section 4; SRV as the
    /// crate documents) the names are decompressed and the fields must fill the
    /// RDATA exactly; every other type is taken as is and must be valid.
    /// None = the reader must fail.
    pub open spec fn read_spec(class: u16, ty: u16, message: Seq<u8>, cursor: int, rdlen: int) -> Option<Seq<u8>> {
        if cursor < 0 || rdlen < 0 || cursor + rdlen > message.len() { None }
        else {
            let msg = message.subrange(0, cursor + rdlen);
            if is_single_name_type(ty) { rd_single_name(msg, cursor, rdlen) }
            else if ty == T_A && class == CLASS_CH { rd_ch_a(msg, cursor, rdlen) }
            else if ty == T_SOA { rd_soa(msg, cursor, rdlen) }
            else if ty == T_MINFO { rd_minfo(msg, cursor, rdlen) }
            else if ty == T_MX { rd_fixed_then_name(msg, cursor, rdlen, 2) }
            else if ty == T_SRV && class == CLASS_IN { rd_fixed_then_name(msg, cursor, rdlen, 6) }
            else if valid_form(class, ty, tail(msg, cursor)) { Some(tail(msg, cursor)) }
            else { None }
        }
    }

    // ---------------------------------------------------------------- lemmas

    /// A valid name followed by anything is found, with its own length, by the
    /// RFC 1035 3.1 walk.
    pub proof fn lemma_valid_name_ulen_from(w: Seq<u8>, rest: Seq<u8>, i: int)
        requires
            w.len() >= 1, w.last() == 0,
            0 <= i <= w.len() - 1,
            labels_ok(w.drop_last(), i),
        ensures
            ulen_from(w + rest, i) == Some(w.len() as int),
        decreases w.len() - i
    {
        let s = w + rest;
        let p = w.drop_last();
        if i == p.len() {
            assert(s[i] == w[i]);
            assert(s[i] == 0);
        } else {
            assert(p[i] == w[i]);
            assert(s[i] == w[i]);
            assert(i + p[i] as int + 1 <= p.len());
            lemma_valid_name_ulen_from(w, rest, i + p[i] as int + 1);
        }
    }

    /// A valid name `w` at the front of `w + rest` is what `ulen` finds.
    pub proof fn lemma_valid_name_ulen(w: Seq<u8>, rest: Seq<u8>)
        requires valid_name(w),
        ensures ulen(w + rest) == Some(w.len() as int),
    {
        lemma_valid_name_ulen_from(w, rest, 0);
    }

    /// `name_len_at` of a valid name `w` placed at offset `pre.len()`.
    pub proof fn lemma_name_len_at_concat(pre: Seq<u8>, w: Seq<u8>, rest: Seq<u8>)
        requires valid_name(w),
        ensures name_len_at(pre + w + rest, pre.len() as int) == Some(w.len() as int),
    {
        let s = pre + w + rest;
        assert(tail(s, pre.len() as int) =~= w + rest);
        lemma_valid_name_ulen(w, rest);
    }

    /// Conversely, what `ulen` finds is a valid name (so `ulen` and
    /// `valid_name` are two readings of the same RFC 1035 3.1 definition).
    pub proof fn lemma_ulen_from_valid(s: Seq<u8>, i: int, n: int)
        requires 0 <= i, ulen_from(s, i) == Some(n),
        ensures
            i < n <= s.len(), s[n - 1] == 0,
            labels_ok(s.subrange(0, n - 1), i),
        decreases s.len() - i
    {
        if s[i] == 0 {
            assert(n == i + 1);
            assert(s.subrange(0, n - 1).len() == i);
        } else {
            let j = i + s[i] as int + 1;
            lemma_ulen_from_valid(s, j, n);
            let p = s.subrange(0, n - 1);
            assert(p[i] == s[i]);
        }
    }

    pub proof fn lemma_ulen_valid(s: Seq<u8>, n: int)
        requires ulen(s) == Some(n),
        ensures 1 <= n <= 255, n <= s.len(), valid_name(s.subrange(0, n)),
    {
        lemma_ulen_from_valid(s, 0, n);
        assert(s.subrange(0, n).drop_last() =~= s.subrange(0, n - 1));
    }

    /// Every name the RFC 1035 4.1.4 reference decoder delivers is a valid name.
    pub proof fn lemma_dec_at_valid(b: Seq<u8>, cs: int, i: int, acc: Seq<u8>, fc: int, start: int)
        requires
            labels_ok(acc, 0),
            dec_at(b, cs, i, acc, fc, start) is Some,
        ensures
            valid_name(dec_at(b, cs, i, acc, fc, start)->Some_0.0),
        decreases cs, b.len() - i
    {
        let o = b[i];
        if is_ptr(o) {
            let p = ptr_val(b[i], b[i + 1]);
            lemma_dec_at_valid(b, p, p, acc, if fc < 0 { i + 2 - start } else { fc }, start);
        } else if o == 0 {
            assert(acc.push(0u8).drop_last() =~= acc);
        } else {
            let end = i + o as int + 1;
            let l = b.subrange(i, end);
            lemma_append_label(acc, l, 0);
            lemma_dec_at_valid(b, cs, end, acc + l, fc, start);
        }
    }

    pub proof fn lemma_dec_valid(b: Seq<u8>, at: int)
        requires dec(b, at) is Some,
        ensures valid_name(dec(b, at)->Some_0.0),
    {
        lemma_dec_at_valid(b, at, at, Seq::empty(), -1, at);
    }

    /// The first chunk of a decoded name is non-empty and lies inside the buffer.
    pub proof fn lemma_dec_at_bounds(b: Seq<u8>, cs: int, i: int, acc: Seq<u8>, fc: int, start: int)
        requires
            dec_at(b, cs, i, acc, fc, start) is Some,
            fc < 0 ==> 0 <= start <= i,
            fc >= 0 ==> 0 <= start && 1 <= fc && start + fc <= b.len(),
        ensures
            1 <= dec_at(b, cs, i, acc, fc, start)->Some_0.1,
            0 <= start,
            start + dec_at(b, cs, i, acc, fc, start)->Some_0.1 <= b.len(),
        decreases cs, b.len() - i
    {
        let o = b[i];
        if is_ptr(o) {
            let p = ptr_val(b[i], b[i + 1]);
            lemma_dec_at_bounds(b, p, p, acc, if fc < 0 { i + 2 - start } else { fc }, start);
        } else if o == 0 {
        } else {
            let end = i + o as int + 1;
            lemma_dec_at_bounds(b, cs, end, acc + b.subrange(i, end), fc, start);
        }
    }

    pub proof fn lemma_dec_bounds(b: Seq<u8>, at: int)
        requires dec(b, at) is Some,
        ensures 0 <= at, 1 <= dec(b, at)->Some_0.1, at + dec(b, at)->Some_0.1 <= b.len(),
    {
        lemma_dec_at_bounds(b, at, at, Seq::empty(), -1, at);
    }

    /// Everything `read_spec` delivers is valid RDATA of that class and type
    /// (in particular at most 65535 octets, since RDLENGTH is a 16-bit field).
    pub proof fn lemma_read_spec_valid(class: u16, ty: u16, message: Seq<u8>, cursor: int, rdlen: int)
        requires
            rdlen <= 65535,
            read_spec(class, ty, message, cursor, rdlen) is Some,
        ensures
            valid(class, ty, read_spec(class, ty, message, cursor, rdlen)->Some_0),
    {
        let msg = message.subrange(0, cursor + rdlen);
        let out = read_spec(class, ty, message, cursor, rdlen)->Some_0;
        let e = Seq::<u8>::empty();
        if is_single_name_type(ty) {
            let w = cname_at(msg, cursor)->Some_0.0;
            lemma_dec_valid(msg, cursor);
            lemma_name_len_at_concat(e, w, e);
            assert(e + w + e =~= w);
        } else if ty == T_A && class == CLASS_CH {
            let (w, n) = cname_at(msg, cursor)->Some_0;
            let t = tail(msg, cursor + n);
            lemma_dec_valid(msg, cursor);
            lemma_dec_bounds(msg, cursor);
            lemma_name_len_at_concat(e, w, t);
            assert(e + w + t =~= w + t);
        } else if ty == T_SOA {
            let (w1, n1) = cname_at(msg, cursor)->Some_0;
            let (w2, n2) = cname_at(msg, cursor + n1)->Some_0;
            let t = tail(msg, cursor + n1 + n2);
            lemma_dec_valid(msg, cursor);
            lemma_dec_valid(msg, cursor + n1);
            lemma_dec_bounds(msg, cursor);
            lemma_dec_bounds(msg, cursor + n1);
            lemma_name_len_at_concat(e, w1, w2 + t);
            lemma_name_len_at_concat(w1, w2, t);
            assert(e + w1 + (w2 + t) =~= w1 + w2 + t);
        } else if ty == T_MINFO {
            let (w1, n1) = cname_at(msg, cursor)->Some_0;
            let (w2, n2) = cname_at(msg, cursor + n1)->Some_0;
            lemma_dec_valid(msg, cursor);
            lemma_dec_valid(msg, cursor + n1);
            lemma_name_len_at_concat(e, w1, w2);
            lemma_name_len_at_concat(w1, w2, e);
            assert(e + w1 + w2 =~= w1 + w2);
            assert(w1 + w2 + e =~= w1 + w2);
        } else if ty == T_MX {
            let (w, n) = cname_at(msg, cursor + 2)->Some_0;
            let p = msg.subrange(cursor, cursor + 2);
            lemma_dec_valid(msg, cursor + 2);
            lemma_name_len_at_concat(p, w, e);
            assert(p + w + e =~= p + w);
        } else if ty == T_SRV && class == CLASS_IN {
            let (w, n) = cname_at(msg, cursor + 6)->Some_0;
            let p = msg.subrange(cursor, cursor + 6);
            lemma_dec_valid(msg, cursor + 6);
            lemma_name_len_at_concat(p, w, e);
            assert(p + w + e =~= p + w);
        } else {
        }
    }

    // -------------------------------------------------- examples (spec sanity)
    // Concrete members and non-members of the predicates, so that a predicate
    // that is accidentally constant would be noticed.

    pub proof fn examples_valid_form()
    {
        // IN A: exactly four octets
        assert(valid(CLASS_IN, T_A, seq![192u8, 0, 2, 1]));
        assert(!valid(CLASS_IN, T_A, seq![192u8, 0, 2]));
        // NS "." is valid; a name cut short or followed by junk is not
        let root = seq![0u8];
        assert(tail(root, 0) =~= root);
        assert(valid(CLASS_IN, T_NS, root));
        let cut = seq![1u8];
        assert(tail(cut, 0) =~= cut);
        assert(!valid(CLASS_IN, T_NS, cut));
        let junk = seq![0u8, 7];
        assert(tail(junk, 0) =~= junk);
        assert(!valid(CLASS_IN, T_NS, junk));
        // MX 10 "."
        let mx = seq![0u8, 10, 0];
        assert(tail(mx, 2) =~= seq![0u8]);
        assert(valid(CLASS_IN, T_MX, mx));
        assert(!valid(CLASS_IN, T_MX, seq![0u8]));
        // TXT: at least one <character-string>
        assert(!valid(CLASS_IN, T_TXT, Seq::<u8>::empty()));
        let txt = seq![1u8, 65];
        assert(cstr_len_at(txt, 0) == Some(2int));
        assert(cstrs_from(txt, 2));
        assert(valid(CLASS_IN, T_TXT, txt));
        let txt_short = seq![2u8, 65];
        assert(!valid(CLASS_IN, T_TXT, txt_short));
        // OPT: no options is fine, a truncated option header is not
        assert(valid(CLASS_IN, T_OPT, Seq::<u8>::empty()));
        let opt_bad = seq![0u8, 1, 0];
        assert(option_len_at(opt_bad, 0) is None);
        assert(!valid(CLASS_IN, T_OPT, opt_bad));
        // unknown type: opaque up to 65535 octets
        assert(valid(CLASS_IN, 65280, seq![1u8, 2, 3]));
        // AAAA is only known in class IN
        assert(!valid(CLASS_IN, T_AAAA, seq![1u8]));
        assert(valid(CLASS_CH, T_AAAA, seq![1u8]));
    }
}
