// SPEC (oracle) for RDATA equality (property C19).  Written from the property
// text, RFC 1035 section 3.3 (RDATA layouts), RFC 2782 (SRV), RFC 3597
// section 6 (equality of RRs), RFC 4343 (case insensitivity); not from the code.
//
//   rd_eq(class, type, a, b):
//     * types without special comparison rules: octet-wise equality;
//     * pre-RFC 3597 types that embed domain names: when BOTH a and b are
//       well formed (fixed-length fields of the right size, every name field
//       a valid uncompressed name, nothing left over) the fixed fields are
//       compared octet-wise and the name fields ASCII-case-insensitively;
//       when either is malformed: octet-wise equality.
pub mod spec_rdata_eq {
    use vstd::prelude::*;
    use crate::spec_name::*;

    // ------------------------------------------------------- case folding

    /// RFC 4343: only the ASCII letters A-Z fold (to a-z).
    pub open spec fn lower_u8(c: u8) -> u8 {
        if 65 <= c <= 90 { (c + 32) as u8 } else { c }
    }

    pub open spec fn lower(s: Seq<u8>) -> Seq<u8> {
        Seq::new(s.len(), |i: int| lower_u8(s[i]))
    }

    /// ASCII-case-insensitive equality of octet strings.
    pub open spec fn ci_eq(a: Seq<u8>, b: Seq<u8>) -> bool {
        lower(a) =~= lower(b)
    }

    // ------------------------------------------------------------- layout

    /// RDATA layout of a type with embedded names: `pre` fixed octets, then
    /// `names` uncompressed domain names, then `suf` fixed octets.
    pub struct Shape { pub pre: int, pub names: nat, pub suf: int }

    pub spec const CLASS_IN: u16 = 1;
    pub spec const CLASS_CH: u16 = 3;

    /// The types that predate RFC 3597 and embed domain names, as far as the
    /// crate knows them (mnemonic = IANA value):
    ///   NS=2 MD=3 MF=4 CNAME=5 MB=7 MG=8 MR=9 PTR=12   <name>
    ///   SOA=6      MNAME RNAME SERIAL REFRESH RETRY EXPIRE MINIMUM (5 x 32 bit)
    ///   MINFO=14   RMAILBX EMAILBX
    ///   MX=15      PREFERENCE(16 bit) EXCHANGE
    ///   A=1 in CH  <name> ADDRESS(16 bit)            (RFC 1035 3.3 / Chaosnet)
    ///   SRV=33 in IN  PRIORITY WEIGHT PORT (3 x 16 bit) TARGET   (RFC 2782)
    pub open spec fn shape(class: u16, ty: u16) -> Option<Shape> {
        if ty == 2 || ty == 3 || ty == 4 || ty == 5 || ty == 7 || ty == 8 || ty == 9 || ty == 12 {
            Some(Shape { pre: 0, names: 1, suf: 0 })
        } else if ty == 1 && class == CLASS_CH {
            Some(Shape { pre: 0, names: 1, suf: 2 })
        } else if ty == 6 {
            Some(Shape { pre: 0, names: 2, suf: 20 })
        } else if ty == 14 {
            Some(Shape { pre: 0, names: 2, suf: 0 })
        } else if ty == 15 {
            Some(Shape { pre: 2, names: 1, suf: 0 })
        } else if ty == 33 && class == CLASS_IN {
            Some(Shape { pre: 6, names: 1, suf: 0 })
        } else {
            None
        }
    }

    /// Length of the valid uncompressed name (RFC 1035 3.1) at offset `off`.
    pub open spec fn name_at(s: Seq<u8>, off: int) -> Option<int> {
        if 0 <= off <= s.len() { ulen(s.skip(off)) } else { None }
    }

    /// End offset of `n` consecutive valid names starting at `off`.
    pub open spec fn names_end(s: Seq<u8>, off: int, n: nat) -> Option<int>
        decreases n
    {
        if n == 0 { Some(off) }
        else {
            match name_at(s, off) {
                Some(l) => names_end(s, off + l, (n - 1) as nat),
                None => None,
            }
        }
    }

    /// Well-formed RDATA of the given layout.
    pub open spec fn wf(sh: Shape, s: Seq<u8>) -> bool {
        sh.pre <= s.len() && names_end(s, sh.pre, sh.names) == Some(s.len() - sh.suf)
    }

    /// The `n` names at `oa` in `a` and at `ob` in `b` exist and are pairwise
    /// case-insensitively equal.
    pub open spec fn names_ci_eq(a: Seq<u8>, oa: int, b: Seq<u8>, ob: int, n: nat) -> bool
        decreases n
    {
        if n == 0 { true }
        else {
            match (name_at(a, oa), name_at(b, ob)) {
                (Some(la), Some(lb)) =>
                    ci_eq(a.subrange(oa, oa + la), b.subrange(ob, ob + lb))
                    && names_ci_eq(a, oa + la, b, ob + lb, (n - 1) as nat),
                _ => false,
            }
        }
    }

    /// Field-wise equality of two well-formed RDATA.
    pub open spec fn fields_eq(sh: Shape, a: Seq<u8>, b: Seq<u8>) -> bool {
        a.subrange(0, sh.pre) =~= b.subrange(0, sh.pre)
        && names_ci_eq(a, sh.pre, b, sh.pre, sh.names)
        && a.skip(a.len() - sh.suf) =~= b.skip(b.len() - sh.suf)
    }

    pub open spec fn rd_eq_shape(sh: Shape, a: Seq<u8>, b: Seq<u8>) -> bool {
        if wf(sh, a) && wf(sh, b) { fields_eq(sh, a, b) } else { a =~= b }
    }

    /// [C19] RDATA equality for RRs of class `class` and type `ty`.
    pub open spec fn rd_eq(class: u16, ty: u16, a: Seq<u8>, b: Seq<u8>) -> bool {
        match shape(class, ty) {
            Some(sh) => rd_eq_shape(sh, a, b),
            None => a =~= b,
        }
    }

    /// Equality of two single-name RDATA (NS, CNAME, PTR, ...; also the name
    /// part of MX / SRV).
    pub open spec fn name_rd_eq(a: Seq<u8>, b: Seq<u8>) -> bool {
        rd_eq_shape(Shape { pre: 0, names: 1, suf: 0 }, a, b)
    }

    // ------------------------------------- three-way field test (helper level)

    /// What `helpers::test_n_name_fields` documents (this one is a helper-level
    /// reference, taken from the function's doc comment): walk `n` name fields
    /// at the same offsets of both buffers;
    ///   Some(Some(end)) all fields valid on both sides and pairwise ci-equal,
    ///   Some(None)      a field is valid on one side only, or valid on both and different,
    ///   None            a field is invalid on both sides.
    pub open spec fn tnf(a: Seq<u8>, b: Seq<u8>, off: int, n: nat) -> Option<Option<int>>
        decreases n
    {
        if n == 0 { Some(Some(off)) }
        else {
            match (name_at(a, off), name_at(b, off)) {
                (None, None) => None,
                (Some(la), Some(lb)) =>
                    if ci_eq(a.subrange(off, off + la), b.subrange(off, off + lb)) {
                        tnf(a, b, off + la, (n - 1) as nat)
                    } else {
                        Some(None)
                    },
                _ => Some(None),
            }
        }
    }

    /// Meaning of the three outcomes in terms of the C19 reference.
    pub proof fn lemma_tnf(a: Seq<u8>, b: Seq<u8>, off: int, n: nat)
        requires 0 <= off,
        ensures
            match tnf(a, b, off, n) {
                Some(Some(e)) => names_ci_eq(a, off, b, off, n)
                    && names_end(a, off, n) == Some(e) && names_end(b, off, n) == Some(e),
                Some(None) => !names_ci_eq(a, off, b, off, n) && !(a =~= b),
                None => names_end(a, off, n) is None && names_end(b, off, n) is None,
            },
        decreases n
    {
        if n > 0 {
            match (name_at(a, off), name_at(b, off)) {
                (Some(la), Some(lb)) => {
                    lemma_name_at_bounds(a, off);
                    lemma_name_at_bounds(b, off);
                    if ci_eq(a.subrange(off, off + la), b.subrange(off, off + lb)) {
                        lemma_ci_eq_len(a.subrange(off, off + la), b.subrange(off, off + lb));
                        lemma_tnf(a, b, off + la, (n - 1) as nat);
                    } else if a =~= b {
                        lemma_ci_eq_refl(a.subrange(off, off + la));
                    }
                }
                _ => {}
            }
        }
    }

    /// Two RDATA that are equal have the same length.
    pub proof fn lemma_rd_eq_shape_len(sh: Shape, a: Seq<u8>, b: Seq<u8>)
        requires rd_eq_shape(sh, a, b),
        ensures a.len() == b.len(),
    {
        if wf(sh, a) && wf(sh, b) {
            lemma_names_ci_eq_end(a, sh.pre, b, sh.pre, sh.names);
        }
    }

    /// Names inside a suffix of the buffer are the names of the buffer.
    pub proof fn lemma_name_at_shift(s: Seq<u8>, p: int, off: int)
        requires 0 <= p <= s.len(), 0 <= off,
        ensures name_at(s.skip(p), off) == name_at(s, p + off),
    {
        if off <= s.len() - p {
            assert(s.skip(p).skip(off) =~= s.skip(p + off));
        }
    }

    pub proof fn lemma_names_end_shift(s: Seq<u8>, p: int, off: int, n: nat)
        requires 0 <= p <= s.len(), 0 <= off,
        ensures names_end(s.skip(p), off, n) == (match names_end(s, p + off, n) { Some(e) => Some(e - p), None => None }),
        decreases n
    {
        if n > 0 {
            lemma_name_at_shift(s, p, off);
            if name_at(s, p + off) is Some {
                lemma_name_at_bounds(s, p + off);
                lemma_names_end_shift(s, p, off + name_at(s, p + off)->Some_0, (n - 1) as nat);
            }
        }
    }

    pub proof fn lemma_names_ci_eq_shift(a: Seq<u8>, pa: int, oa: int, b: Seq<u8>, pb: int, ob: int, n: nat)
        requires 0 <= pa <= a.len(), 0 <= oa, 0 <= pb <= b.len(), 0 <= ob,
        ensures names_ci_eq(a.skip(pa), oa, b.skip(pb), ob, n) == names_ci_eq(a, pa + oa, b, pb + ob, n),
        decreases n
    {
        if n > 0 {
            lemma_name_at_shift(a, pa, oa);
            lemma_name_at_shift(b, pb, ob);
            if name_at(a, pa + oa) is Some && name_at(b, pb + ob) is Some {
                let la = name_at(a, pa + oa)->Some_0;
                let lb = name_at(b, pb + ob)->Some_0;
                lemma_name_at_bounds(a, pa + oa);
                lemma_name_at_bounds(b, pb + ob);
                assert(a.skip(pa).subrange(oa, oa + la) =~= a.subrange(pa + oa, pa + oa + la));
                assert(b.skip(pb).subrange(ob, ob + lb) =~= b.subrange(pb + ob, pb + ob + lb));
                lemma_names_ci_eq_shift(a, pa, oa + la, b, pb, ob + lb, (n - 1) as nat);
            }
        }
    }

    /// RDATA made of `p` fixed octets and one name (MX, SRV): equality is
    /// equality of the fixed part and single-name equality of the rest.
    pub proof fn lemma_prefix_then_name(p: int, a: Seq<u8>, b: Seq<u8>)
        requires 0 <= p <= a.len(), p <= b.len(),
        ensures
            rd_eq_shape(Shape { pre: p, names: 1, suf: 0 }, a, b)
                == (a.subrange(0, p) =~= b.subrange(0, p) && name_rd_eq(a.skip(p), b.skip(p))),
    {
        let sh = Shape { pre: p, names: 1, suf: 0 };
        let s0 = Shape { pre: 0, names: 1, suf: 0 };
        lemma_names_end_shift(a, p, 0, 1);
        lemma_names_end_shift(b, p, 0, 1);
        lemma_names_ci_eq_shift(a, p, 0, b, p, 0, 1);
        assert(wf(sh, a) == wf(s0, a.skip(p)));
        assert(wf(sh, b) == wf(s0, b.skip(p)));
        if wf(sh, a) && wf(sh, b) {
            assert(a.skip(p).subrange(0, 0) =~= b.skip(p).subrange(0, 0));
            assert(a.skip(a.len() - 0) =~= b.skip(b.len() - 0));
            assert(a.skip(p).skip(a.skip(p).len() - 0) =~= b.skip(p).skip(b.skip(p).len() - 0));
        } else {
            if a.subrange(0, p) =~= b.subrange(0, p) && a.skip(p) =~= b.skip(p) {
                assert(a =~= a.subrange(0, p) + a.skip(p));
                assert(b =~= b.subrange(0, p) + b.skip(p));
            }
        }
    }

    /// Well-formed RDATA holds its fixed part and at least one octet per name.
    pub proof fn lemma_wf_min_len(sh: Shape, a: Seq<u8>)
        requires wf(sh, a), sh.pre >= 0, sh.names >= 1,
        ensures a.len() >= sh.pre + 1 + sh.suf,
    {
        lemma_name_at_bounds(a, sh.pre);
        lemma_names_end_bounds(a, sh.pre + name_at(a, sh.pre)->Some_0, (sh.names - 1) as nat);
    }

    // ------------------------------------------------ RDATA set (RRset) model

    /// Position of the first member equal to `x`, if any.
    pub open spec fn has_eq(class: u16, ty: u16, v: Seq<Seq<u8>>, x: Seq<u8>) -> bool {
        exists|i: int| 0 <= i < v.len() && rd_eq(class, ty, #[trigger] v[i], x)
    }

    /// [C19] Inserting into an RDATA set: keep the first member of each
    /// equality class, in insertion order, and nothing else.
    pub open spec fn set_insert(class: u16, ty: u16, v: Seq<Seq<u8>>, x: Seq<u8>) -> Seq<Seq<u8>> {
        if has_eq(class, ty, v, x) { v } else { v.push(x) }
    }

    // ---------------------------------------------------------------- lemmas

    pub proof fn lemma_ci_eq_refl(a: Seq<u8>)
        ensures ci_eq(a, a),
    {}

    pub proof fn lemma_ci_eq_sym(a: Seq<u8>, b: Seq<u8>)
        ensures ci_eq(a, b) == ci_eq(b, a),
    {}

    pub proof fn lemma_ci_eq_trans(a: Seq<u8>, b: Seq<u8>, c: Seq<u8>)
        requires ci_eq(a, b), ci_eq(b, c),
        ensures ci_eq(a, c),
    {}

    pub proof fn lemma_ci_eq_len(a: Seq<u8>, b: Seq<u8>)
        requires ci_eq(a, b),
        ensures a.len() == b.len(),
    {
        assert(lower(a).len() == a.len());
        assert(lower(b).len() == b.len());
    }

    /// A name found at `off` lies inside the buffer and is not empty.
    pub proof fn lemma_name_at_bounds(s: Seq<u8>, off: int)
        requires name_at(s, off) is Some,
        ensures 1 <= name_at(s, off)->Some_0 <= s.len() - off, name_at(s, off)->Some_0 <= 255,
    {
        lemma_ulen_bounds(s.skip(off), 0);
    }

    pub proof fn lemma_names_end_bounds(s: Seq<u8>, off: int, n: nat)
        requires names_end(s, off, n) is Some, 0 <= off <= s.len(),
        ensures off <= names_end(s, off, n)->Some_0 <= s.len(),
        decreases n
    {
        if n > 0 {
            lemma_name_at_bounds(s, off);
            lemma_names_end_bounds(s, off + name_at(s, off)->Some_0, (n - 1) as nat);
        }
    }

    pub proof fn lemma_names_ci_eq_refl(a: Seq<u8>, oa: int, n: nat)
        requires names_end(a, oa, n) is Some,
        ensures names_ci_eq(a, oa, a, oa, n),
        decreases n
    {
        if n > 0 {
            let la = name_at(a, oa)->Some_0;
            lemma_ci_eq_refl(a.subrange(oa, oa + la));
            lemma_names_ci_eq_refl(a, oa + la, (n - 1) as nat);
        }
    }

    pub proof fn lemma_names_ci_eq_sym(a: Seq<u8>, oa: int, b: Seq<u8>, ob: int, n: nat)
        ensures names_ci_eq(a, oa, b, ob, n) == names_ci_eq(b, ob, a, oa, n),
        decreases n
    {
        if n > 0 && name_at(a, oa) is Some && name_at(b, ob) is Some {
            let la = name_at(a, oa)->Some_0;
            let lb = name_at(b, ob)->Some_0;
            lemma_ci_eq_sym(a.subrange(oa, oa + la), b.subrange(ob, ob + lb));
            lemma_names_ci_eq_sym(a, oa + la, b, ob + lb, (n - 1) as nat);
        }
    }

    pub proof fn lemma_names_ci_eq_trans(a: Seq<u8>, oa: int, b: Seq<u8>, ob: int, c: Seq<u8>, oc: int, n: nat)
        requires names_ci_eq(a, oa, b, ob, n), names_ci_eq(b, ob, c, oc, n),
        ensures names_ci_eq(a, oa, c, oc, n),
        decreases n
    {
        if n > 0 {
            let la = name_at(a, oa)->Some_0;
            let lb = name_at(b, ob)->Some_0;
            let lc = name_at(c, oc)->Some_0;
            lemma_ci_eq_trans(a.subrange(oa, oa + la), b.subrange(ob, ob + lb), c.subrange(oc, oc + lc));
            lemma_names_ci_eq_trans(a, oa + la, b, ob + lb, c, oc + lc, (n - 1) as nat);
        }
    }

    /// Pairwise equal names end at corresponding offsets.
    pub proof fn lemma_names_ci_eq_end(a: Seq<u8>, oa: int, b: Seq<u8>, ob: int, n: nat)
        requires names_ci_eq(a, oa, b, ob, n),
        ensures
            names_end(a, oa, n) is Some, names_end(b, ob, n) is Some,
            names_end(a, oa, n)->Some_0 - oa == names_end(b, ob, n)->Some_0 - ob,
        decreases n
    {
        if n > 0 {
            let la = name_at(a, oa)->Some_0;
            let lb = name_at(b, ob)->Some_0;
            lemma_name_at_bounds(a, oa);
            lemma_name_at_bounds(b, ob);
            lemma_ci_eq_len(a.subrange(oa, oa + la), b.subrange(ob, ob + lb));
            lemma_names_ci_eq_end(a, oa + la, b, ob + lb, (n - 1) as nat);
        }
    }

    // [C19.refl]
    pub proof fn lemma_rd_eq_refl(class: u16, ty: u16, a: Seq<u8>)
        ensures rd_eq(class, ty, a, a),
    {
        match shape(class, ty) {
            Some(sh) => { if wf(sh, a) { lemma_names_ci_eq_refl(a, sh.pre, sh.names); } }
            None => {}
        }
    }

    // [C19.sym]
    pub proof fn lemma_rd_eq_sym(class: u16, ty: u16, a: Seq<u8>, b: Seq<u8>)
        ensures rd_eq(class, ty, a, b) == rd_eq(class, ty, b, a),
    {
        match shape(class, ty) {
            Some(sh) => { lemma_names_ci_eq_sym(a, sh.pre, b, sh.pre, sh.names); }
            None => {}
        }
    }

    // [C19.trans]
    pub proof fn lemma_rd_eq_trans(class: u16, ty: u16, a: Seq<u8>, b: Seq<u8>, c: Seq<u8>)
        requires rd_eq(class, ty, a, b), rd_eq(class, ty, b, c),
        ensures rd_eq(class, ty, a, c),
    {
        match shape(class, ty) {
            Some(sh) => {
                if wf(sh, a) && wf(sh, b) && wf(sh, c) {
                    lemma_names_ci_eq_trans(a, sh.pre, b, sh.pre, c, sh.pre, sh.names);
                    // equal total lengths, so the suffixes line up
                    lemma_names_ci_eq_end(a, sh.pre, b, sh.pre, sh.names);
                    lemma_names_ci_eq_end(b, sh.pre, c, sh.pre, sh.names);
                    assert(a.len() == b.len() && b.len() == c.len());
                } else if wf(sh, a) && wf(sh, b) {
                    // c malformed, hence b == c, contradiction
                    assert(b =~= c);
                } else if wf(sh, b) && wf(sh, c) {
                    assert(a =~= b);
                } else {
                    // b malformed: a == b == c ... or a/c malformed with b equal to it
                    if !wf(sh, b) {
                        assert(a =~= b);
                        assert(b =~= c);
                    } else if !wf(sh, a) {
                        assert(a =~= b);
                    } else {
                        assert(b =~= c);
                    }
                    lemma_rd_eq_refl(class, ty, a);
                }
            }
            None => {}
        }
    }

    /// rd_eq is at least as coarse as octet equality.
    pub proof fn lemma_rd_eq_of_eq(class: u16, ty: u16, a: Seq<u8>, b: Seq<u8>)
        requires a =~= b,
        ensures rd_eq(class, ty, a, b),
    {
        lemma_rd_eq_refl(class, ty, a);
    }
}
