// SPEC (oracle) for RDATA equality (property C19).  Written from the property
// text, RFC 1035 section 3.3 (RDATA layouts), RFC 2782 (SRV), RFC 3597
// section 6 (equality of RRs), RFC 4343 (case insensitivity); not from the code.
//
//   rd_eq(class, type, a, b):
//     * types without special comparison rules: octet-wise equality;
//     * pre-RFC 3597 types that embed domain names: when BOTH a and b are
//       well formed (fixed-length fields of the right size, every name field
//       a valid uncompressed name, nothing left over) the fixed fields are
//       compared octet-wise and the name fields ASCII-case-insensitively;
//       when either is malformed: octet-wise equality.
pub mod spec_rdata_eq {
    use vstd::prelude::*;
    use crate::spec_name::*;

    // ------------------------------------------------------- case folding

    /// RFC 4343: only the ASCII letters A-Z fold (to a-z).
    pub open spec fn lower_u8(c: u8) -> u8 {
        if 65 <= c <= 90 { (c + 32) as u8 } else { c }
    }

    pub open spec fn lower(s: Seq<u8>) -> Seq<u8> {
        Seq::new(s.len(), |i: int| lower_u8(s[i]))
    }

    /// ASCII-case-insensitive equality of octet strings.
    pub open spec fn ci_eq(a: Seq<u8>, b: Seq<u8>) -> bool {
        lower(a) =~= lower(b)
    }

    // ------------------------------------------------------------- layout

    /// RDATA layout of a type with embedded names: `pre` fixed octets, then
    /// `names` uncompressed domain names, then `suf` fixed octets.
    pub struct Shape { pub pre: int, pub names: nat, pub suf: int }

    pub spec const CLASS_IN: u16 = 1;
    pub spec const CLASS_CH: u16 = 3;

    /// The types that predate RFC 3597 and embed domain names, as far as the
    /// crate knows them (mnemonic = IANA value):
    ///   NS=2 MD=3 MF=4 CNAME=5 MB=7 MG=8 MR=9 PTR=12   <name>
    ///   SOA=6      MNAME RNAME SERIAL REFRESH RETRY EXPIRE MINIMUM (5 x 32 bit)
    ///   MINFO=14   RMAILBX EMAILBX
    ///   MX=15      PREFERENCE(16 bit) EXCHANGE
    ///   A=1 in CH  <name> ADDRESS(16 bit)            (RFC 1035 3.3 / Chaosnet)
    ///   SRV=33 in IN  PRIORITY WEIGHT PORT (3 x 16 bit) TARGET   (RFC 2782)
    pub open spec fn shape(class: u16, ty: u16) -> Option<Shape> {
        if ty == 2 || ty == 3 || ty == 4 || ty == 5 || ty == 7 || ty == 8 || ty == 9 || ty == 12 {
            Some(Shape { pre: 0, names: 1, suf: 0 })
        } else if ty == 1 && class == CLASS_CH {
            Some(Shape { pre: 0, names: 1, suf: 2 })
        } else if ty == 6 {
            Some(Shape { pre: 0, names: 2, suf: 20 })
        } else if ty == 14 {
            Some(Shape { pre: 0, names: 2, suf: 0 })
        } else if ty == 15 {
            Some(Shape { pre: 2, names: 1, suf: 0 })
        } else if ty == 33 && class == CLASS_IN {
            Some(Shape { pre: 6, names: 1, suf: 0 })
        } else {
            None
        }
    }

    /// Length of the valid uncompressed name (RFC 1035 3.1) at offset `off`.
    pub open spec fn name_at(s: Seq<u8>, off: int) -> Option<int> {
        if 0 <= off <= s.len() { ulen(s.skip(off)) } else { None }
    }

    /// End offset of `n` consecutive valid names starting at `off`.
    pub open spec fn names_end(s: Seq<u8>, off: int, n: nat) -> Option<int>
        decreases n
    {
        if n == 0 { Some(off) }
        else {
            match name_at(s, off) {
                Some(l) => names_end(s, off + l, (n - 1) as nat),
                None => None,
            }
        }
    }

    /// Well-formed RDATA of the given layout.
    pub open spec fn wf(sh: Shape, s: Seq<u8>) -> bool {
        sh.pre <= s.len() && names_end(s, sh.pre, sh.names) == Some(s.len() - sh.suf)
    }

    /// The `n` names at `oa` in `a` and at `ob` in `b` exist and are pairwise
    /// case-insensitively equal.
    pub open spec fn names_ci_eq(a: Seq<u8>, oa: int, b: Seq<u8>, ob: int, n: nat) -> bool
        decreases n
    {
        if n == 0 { true }
        else {
            match (name_at(a, oa), name_at(b, ob)) {
                (Some(la), Some(lb)) =>
                    ci_eq(a.subrange(oa, oa + la), b.subrange(ob, ob + lb))
                    && names_ci_eq(a, oa + la, b, ob + lb, (n - 1) as nat),
                _ => false,
            }
        }
    }

    /// Field-wise equality of two well-formed RDATA.
    pub open spec fn fields_eq(sh: Shape, a: Seq<u8>, b: Seq<u8>) -> bool {
        a.subrange(0, sh.pre) =~= b.subrange(0, sh.pre)
        && names_ci_eq(a, sh.pre, b, sh.pre, sh.names)
        && a.skip(a.len() - sh.suf) =~= b.skip(b.len() - sh.suf)
    }

    pub open spec fn rd_eq_shape(sh: Shape, a: Seq<u8>, b: Seq<u8>) -> bool {
        if wf(sh, a) && wf(sh, b) { fields_eq(sh, a, b) } else { a =~= b }
    }

    /// [C19] RDATA equality for RRs of class `class` and type `ty`.
    pub open spec fn rd_eq(class: u16, ty: u16, a: Seq<u8>, b: Seq<u8>) -> bool {
        match shape(class, ty) {
            Some(sh) => rd_eq_shape(sh, a, b),
            None => a =~= b,
        }
    }

    /// Equality of two single-name RDATA (NS, CNAME, PTR, ...; also the name
    /// part of MX / SRV).
    pub open spec fn name_rd_eq(a: Seq<u8>, b: Seq<u8>) -> bool {
        rd_eq_shape(Shape { pre: 0, names: 1, suf: 0 }, a, b)
    }

    // ------------------------------------------------ RDATA set (RRset) model

    /// Position of the first member equal to `x`, if any.
    pub open spec fn has_eq(class: u16, ty: u16, v: Seq<Seq<u8>>, x: Seq<u8>) -> bool {
        exists|i: int| 0 <= i < v.len() && rd_eq(class, ty, #[trigger] v[i], x)
    }

    /// [C19] Inserting into an RDATA set: keep the first member of each
    /// equality class, in insertion order, and nothing else.
    pub open spec fn set_insert(class: u16, ty: u16, v: Seq<Seq<u8>>, x: Seq<u8>) -> Seq<Seq<u8>> {
        if has_eq(class, ty, v, x) { v } else { v.push(x) }
    }

    // ---------------------------------------------------------------- lemmas

    pub proof fn lemma_ci_eq_refl(a: Seq<u8>)
        ensures ci_eq(a, a),
    {}

    pub proof fn lemma_ci_eq_sym(a: Seq<u8>, b: Seq<u8>)
        ensures ci_eq(a, b) == ci_eq(b, a),
    {}

    pub proof fn lemma_ci_eq_trans(a: Seq<u8>, b: Seq<u8>, c: Seq<u8>)
        requires ci_eq(a, b), ci_eq(b, c),
        ensures ci_eq(a, c),
    {}

    pub proof fn lemma_ci_eq_len(a: Seq<u8>, b: Seq<u8>)
        requires ci_eq(a, b),
        ensures a.len() == b.len(),
    {
        assert(lower(a).len() == a.len());
        assert(lower(b).len() == b.len());
    }

    /// A name found at `off` lies inside the buffer and is not empty.
    pub proof fn lemma_name_at_bounds(s: Seq<u8>, off: int)
        requires name_at(s, off) is Some,
        ensures 1 <= name_at(s, off)->Some_0 <= s.len() - off, name_at(s, off)->Some_0 <= 255,
    {
        lemma_ulen_bounds(s.skip(off), 0);
    }

    pub proof fn lemma_names_end_bounds(s: Seq<u8>, off: int, n: nat)
        requires names_end(s, off, n) is Some, 0 <= off <= s.len(),
        ensures off <= names_end(s, off, n)->Some_0 <= s.len(),
        decreases n
    {
        if n > 0 {
            lemma_name_at_bounds(s, off);
            lemma_names_end_bounds(s, off + name_at(s, off)->Some_0, (n - 1) as nat);
        }
    }

    pub proof fn lemma_names_ci_eq_refl(a: Seq<u8>, oa: int, n: nat)
        requires names_end(a, oa, n) is Some,
        ensures names_ci_eq(a, oa, a, oa, n),
        decreases n
    {
        if n > 0 {
            let la = name_at(a, oa)->Some_0;
            lemma_ci_eq_refl(a.subrange(oa, oa + la));
            lemma_names_ci_eq_refl(a, oa + la, (n - 1) as nat);
        }
    }

    pub proof fn lemma_names_ci_eq_sym(a: Seq<u8>, oa: int, b: Seq<u8>, ob: int, n: nat)
        ensures names_ci_eq(a, oa, b, ob, n) == names_ci_eq(b, ob, a, oa, n),
        decreases n
    {
        if n > 0 && name_at(a, oa) is Some && name_at(b, ob) is Some {
            let la = name_at(a, oa)->Some_0;
            let lb = name_at(b, ob)->Some_0;
            lemma_ci_eq_sym(a.subrange(oa, oa + la), b.subrange(ob, ob + lb));
            lemma_names_ci_eq_sym(a, oa + la, b, ob + lb, (n - 1) as nat);
        }
    }

    pub proof fn lemma_names_ci_eq_trans(a: Seq<u8>, oa: int, b: Seq<u8>, ob: int, c: Seq<u8>, oc: int, n: nat)
        requires names_ci_eq(a, oa, b, ob, n), names_ci_eq(b, ob, c, oc, n),
        ensures names_ci_eq(a, oa, c, oc, n),
        decreases n
    {
        if n > 0 {
            let la = name_at(a, oa)->Some_0;
            let lb = name_at(b, ob)->Some_0;
            let lc = name_at(c, oc)->Some_0;
            lemma_ci_eq_trans(a.subrange(oa, oa + la), b.subrange(ob, ob + lb), c.subrange(oc, oc + lc));
            lemma_names_ci_eq_trans(a, oa + la, b, ob + lb, c, oc + lc, (n - 1) as nat);
        }
    }

    /// Pairwise equal names end at corresponding offsets.
    pub proof fn lemma_names_ci_eq_end(a: Seq<u8>, oa: int, b: Seq<u8>, ob: int, n: nat)
        requires names_ci_eq(a, oa, b, ob, n),
        ensures
            names_end(a, oa, n) is Some, names_end(b, ob, n) is Some,
            names_end(a, oa, n)->Some_0 - oa == names_end(b, ob, n)->Some_0 - ob,
        decreases n
    {
        if n > 0 {
            let la = name_at(a, oa)->Some_0;
            let lb = name_at(b, ob)->Some_0;
            lemma_name_at_bounds(a, oa);
            lemma_name_at_bounds(b, ob);
            lemma_ci_eq_len(a.subrange(oa, oa + la), b.subrange(ob, ob + lb));
            lemma_names_ci_eq_end(a, oa + la, b, ob + lb, (n - 1) as nat);
        }
    }

    // [C19.refl]
    pub proof fn lemma_rd_eq_refl(class: u16, ty: u16, a: Seq<u8>)
        ensures rd_eq(class, ty, a, a),
    {
        match shape(class, ty) {
            Some(sh) => { if wf(sh, a) { lemma_names_ci_eq_refl(a, sh.pre, sh.names); } }
            None => {}
        }
    }

    // [C19.sym]
    pub proof fn lemma_rd_eq_sym(class: u16, ty: u16, a: Seq<u8>, b: Seq<u8>)
        ensures rd_eq(class, ty, a, b) == rd_eq(class, ty, b, a),
    {
        match shape(class, ty) {
            Some(sh) => { lemma_names_ci_eq_sym(a, sh.pre, b, sh.pre, sh.names); }
            None => {}
        }
    }

    // [C19.trans]
    pub proof fn lemma_rd_eq_trans(class: u16, ty: u16, a: Seq<u8>, b: Seq<u8>, c: Seq<u8>)
        requires rd_eq(class, ty, a, b), rd_eq(class, ty, b, c),
        ensures rd_eq(class, ty, a, c),
    {
        match shape(class, ty) {
            Some(sh) => {
                if wf(sh, a) && wf(sh, b) && wf(sh, c) {
                    lemma_names_ci_eq_trans(a, sh.pre, b, sh.pre, c, sh.pre, sh.names);
                    // equal total lengths, so the suffixes line up
                    lemma_names_ci_eq_end(a, sh.pre, b, sh.pre, sh.names);
                    lemma_names_ci_eq_end(b, sh.pre, c, sh.pre, sh.names);
                    assert(a.len() == b.len() && b.len() == c.len());
                } else if wf(sh, a) && wf(sh, b) {
                    // c malformed, hence b == c, contradiction
                    assert(b =~= c);
                } else if wf(sh, b) && wf(sh, c) {
                    assert(a =~= b);
                } else {
                    // b malformed: a == b == c ... or a/c malformed with b equal to it
                    if !wf(sh, b) {
                        assert(a =~= b);
                        assert(b =~= c);
                    } else if !wf(sh, a) {
                        assert(a =~= b);
                    } else {
                        assert(b =~= c);
                    }
                    lemma_rd_eq_refl(class, ty, a);
                }
            }
            None => {}
        }
    }

    /// rd_eq is at least as coarse as octet equality.
    pub proof fn lemma_rd_eq_of_eq(class: u16, ty: u16, a: Seq<u8>, b: Seq<u8>)
        requires a =~= b,
        ensures rd_eq(class, ty, a, b),
    {
        lemma_rd_eq_refl(class, ty, a);
    }
}
