#!/usr/bin/env python3
"""mutation self-test for units tsig / tsig_rdata: (name, file, old, new, unit, expect_fail)"""
import os, shutil, subprocess, sys
M = [
 ('M01 arcount not decremented', 'src/message/tsig.rs', ".try_into().unwrap()) - 1;", ".try_into().unwrap()) - 0;", 'tsig', True),
 ('M02 class octets swapped in variables', 'src/message/tsig.rs', r'b"\x00\xff\x00\x00\x00\x00"', r'b"\xff\x00\x00\x00\x00\x00"', 'tsig', True),
 ('M03 half -> third of output size', 'src/message/tsig.rs', "(algorithm.output_size() + 1) / 2;", "(algorithm.output_size() + 1) / 3;", 'tsig', True),
 ('M04 MAC size > -> >=', 'src/message/tsig.rs', "if mac_size > algorithm.output_size()", "if mac_size >= algorithm.output_size()", 'tsig', True),
 ('M05 time window end exclusive', 'src/message/tsig.rs', "now_unix <= time_window_end", "now_unix < time_window_end", 'tsig', True),
 ('M06 time check before MAC check', 'src/message/tsig.rs', None, None, 'tsig', True),
 ('M07 subsequent uses full variables', 'src/message/tsig.rs', "add_tsig_timers(authenticator, self);\n        };", "add_tsig_variables(authenticator, self);\n        };", 'tsig', True),
 ('M08 original_id offset', 'src/message/tsig.rs', "self.rdata.octets()[algo_len + mac_size + 10..algo_len + mac_size + 12]", "self.rdata.octets()[algo_len + mac_size + 12..algo_len + mac_size + 14]", 'tsig', True),
 ('M09 unsigned_len 25', 'src/message/tsig.rs', "algorithm.wire_repr().len() + 26;", "algorithm.wire_repr().len() + 25;", 'tsig', True),
 ('M10 new_from_read BADTIME branch swapped', 'src/message/tsig.rs', "(read.time_signed(), time_signed)\n        } else {", "(time_signed, read.time_signed())\n        } else {", 'tsig', True),
 ('M11 sign_response drops MAC length prefix', 'src/message/tsig.rs', "        assert!(request_mac.len() <= u16::MAX as usize);\n        let mut authenticator = algorithm.make_authenticator(key);\n        authenticator.update(&(request_mac.len() as u16).to_be_bytes());\n", "        assert!(request_mac.len() <= u16::MAX as usize);\n        let mut authenticator = algorithm.make_authenticator(key);\n", 'tsig', True),
 ('M12 harmless rename of a local', 'src/message/tsig.rs', None, None, 'tsig', False),
 ('M13 48-bit check drops octet 1', 'src/rr/rdata/tsig.rs', "if octets[0] != 0 || octets[1] != 0 {", "if octets[0] != 0 {", 'tsig_rdata', True),
 ('M14 required_len +15', 'src/rr/rdata/tsig.rs', "(algorithm.wire_repr().len() + 16)", "(algorithm.wire_repr().len() + 15)", 'tsig_rdata', True),
 ('M15 rdata: error before original id', 'src/rr/rdata/tsig.rs', "    buf.extend_from_slice(&original_id.to_be_bytes());\n    buf.extend_from_slice(&u16::from(error).to_be_bytes());", "    buf.extend_from_slice(&u16::from(error).to_be_bytes());\n    buf.extend_from_slice(&original_id.to_be_bytes());", 'tsig_rdata', True),
 ('M16 try_from drops TTL check', 'src/message/tsig.rs', "rr.class != Qclass::ANY.into() || u32::from(rr.ttl) != 0", "rr.class != Qclass::ANY.into()", 'tsig', True),
 ('M17 MAC failure ignored', 'src/message/tsig.rs', "            .or(Err(VerificationError::BadSig))?;", "            .or(Err(VerificationError::BadSig)).ok();", 'tsig', True),
 ('M18 verify_request ignores original id', 'src/message/tsig.rs', "add_modified_message(authenticator, message, self.original_id());\n            add_tsig_variables(authenticator, self);\n        };\n        self.verification_core(add_data_to_mac, algorithm, key, now)\n    }\n\n    /// Verifies the given response", "add_modified_message(authenticator, message, 0);\n            add_tsig_variables(authenticator, self);\n        };\n        self.verification_core(add_data_to_mac, algorithm, key, now)\n    }\n\n    /// Verifies the given response", 'tsig', True),
 ('M19 to_unix_time copies to wrong place', 'src/rr/rdata/tsig.rs', "octets[2..8].copy_from_slice(self.0.as_slice());", "octets[0..6].copy_from_slice(self.0.as_slice());", 'tsig_rdata', True),
 ('M20 mac() one octet short', 'src/message/tsig.rs', "&self.rdata.octets()[algo_len + 10..algo_len + mac_size + 10]", "&self.rdata.octets()[algo_len + 10..algo_len + mac_size + 9]", 'tsig', True),
 ('M21 BADTIME other data dropped', 'src/message/tsig.rs', "            self.server_time.as_slice()\n        } else {", "            &[]\n        } else {", 'tsig', True),
 ('S1 BADSIG answered with FORMERR rcode', 'src/server/mod.rs', "Err(tsig::VerificationError::BadSig) => (\n                Rcode::NOTAUTH,", "Err(tsig::VerificationError::BadSig) => (\n                Rcode::FORMERR,", 'tsig_server', True),
 ('S2 BADTIME response unsigned', 'src/server/mod.rs', None, None, 'tsig_server', True),
 ('S3 helper always reports success', 'src/server/mod.rs', "    rcode == Rcode::NOERROR\n}", "    rcode == rcode\n}", 'tsig_server', True),
 ('S4 unknown algorithm answered with BADSIG', 'src/server/mod.rs', "PreparedTsigRr::new_from_read(tsig_rr, now, TSIG_FUDGE, ExtendedRcode::BADKEY),\n            )\n            .unwrap();\n        None\n    }\n}\n\n/// Finds the TSIG key", "PreparedTsigRr::new_from_read(tsig_rr, now, TSIG_FUDGE, ExtendedRcode::BADVERSBADSIG),\n            )\n            .unwrap();\n        None\n    }\n}\n\n/// Finds the TSIG key", 'tsig_server', True),
 ('S5 key accepted when the algorithm differs', 'src/server/mod.rs', ".filter(|(a, _)| *a == algorithm)", ".filter(|(a, _)| *a != algorithm)", 'tsig_server', True),
 ('S6 fudge 301', 'src/server/mod.rs', "const TSIG_FUDGE: u16 = 300;", "const TSIG_FUDGE: u16 = 301;", 'tsig_server', True),
]
def special(name, text):
    if name.startswith('M06'):
        a = text.index("        // RFC 8945 § 5.2.2: verify the MAC.")
        b = text.index("        // RFC 8945 § 5.2.3: ensure that the time signed is close enough")
        c = text.index("        // RFC 8495 § 5.2.4")
        return text[:a] + text[b:c] + text[a:b] + text[c:]
    if name.startswith('S2'):
        a = text.index("Err(tsig::VerificationError::BadTime) => (")
        b = text.index("// The next case occurs when", a)
        blk = text[a:b]
        blk2 = blk.replace("""writer::TsigMode::Response {
                    request_mac: tsig_rr.mac().into(),
                    algorithm,
                    key: key.into(),
                },""", """writer::TsigMode::Unsigned {
                    algorithm: algorithm.name().to_owned(),
                },""")
        assert blk != blk2
        return text[:a] + blk2 + text[b:]
    if name.startswith('M12'):
        return text.replace("arcount_without_tsig", "arcount_minus_one")
    raise SystemExit('no special ' + name)
sel = sys.argv[1:]
D = "/var/tmp/tsig-mut"
for (name, f, old, new, unit, expect) in M:
    if sel and not any(name.startswith(s) for s in sel):
        continue
    shutil.rmtree(D, ignore_errors=True)
    os.makedirs(D)
    subprocess.run(['rsync', '-a', '--exclude', 'target', '--exclude', '.git', '/repo/', D + '/repo/'], check=True)
    p = os.path.join(D, 'repo', f)
    t = open(p).read()
    t2 = special(name, t) if old is None else t.replace(old, new)
    if t2 == t:
        print(name, ': MUTATION DID NOT APPLY'); continue
    open(p, 'w').write(t2)
    env = dict(os.environ, VQ_REPO=D + '/repo')
    r = subprocess.run(['/verif/tools/vu.sh', unit], capture_output=True, text=True, env=env)
    out = r.stdout + r.stderr
    res = [l for l in out.splitlines() if l.startswith('verification results') or 'lost anchor' in l or l.startswith('error')]
    failed = not any('0 errors' in l for l in res if l.startswith('verification results')) 
    import re
    fns = sorted(set(re.findall(r'^\s*\d+ \| (?:pub )?fn (\w+)', out, flags=re.M)))
    print('%-45s expect_fail=%-5s got_fail=%-5s %s %s' % (name, expect, failed, 'OK' if failed == expect else '*** MISMATCH ***', [l for l in res if l.startswith('verification')][:1]))
shutil.rmtree(D, ignore_errors=True)
