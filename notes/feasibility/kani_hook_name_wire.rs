use super::*;
#[kani::proof]
#[kani::unwind(8)]
fn skip_len_le_buf() {
    let buf: [u8; 6] = kani::any();
    let n: usize = kani::any();
    kani::assume(n <= 6);
    if let Ok(l) = skip_compressed_name(&buf[..n]) { assert!(l <= n); }
}
