use super::*;
use crate::class::Class;
use crate::db::catalog::Entry;
use crate::db::{HashMapTreeZone, SingleZoneCatalog};

#[kani::proof]
#[kani::unwind(24)]
fn handle_message_small_udp() {
    let entry: Entry<HashMapTreeZone, ()> = Entry::NotYetLoaded(Name::root().to_owned(), Class::IN, ());
    let server = Server::new(Arc::new(SingleZoneCatalog::new(entry)));
    let buf: [u8; 20] = kani::any();
    let n: usize = kani::any();
    kani::assume(n <= 20);
    let info = ReceivedInfo { source: IpAddr::V4(Ipv4Addr::new(127, 0, 0, 1)), transport: Transport::Udp };
    let mut out = [0u8; 1232];
    let r = server.handle_message(&buf[..n], info, &mut out);
    if let Response::Single(len) = r { assert!(len <= 512); }
}
