use vstd::prelude::*;
verus! {

#[derive(PartialEq, Eq, Clone, Copy)]
pub enum NameError { ExtraData, LabelTooLong, NameTooLong, UnexpectedEom }
#[derive(PartialEq, Eq, Clone, Copy)]
pub enum ReadRdataError { InvalidName(NameError), UnexpectedEom, Other }

#[repr(transparent)]
pub struct Rdata {
    pub octets: [u8],
}

fn validate_character_string(octets: &[u8]) -> (r: Result<usize, ReadRdataError>)
    ensures r is Ok ==> r->Ok_0 <= octets.len() && r->Ok_0 >= 1
{
    if let Some(len) = octets.first() {
        let wire_len = 1 + *len as usize;
        if wire_len <= octets.len() {
            Ok(wire_len)
        } else {
            Err(ReadRdataError::Other)
        }
    } else {
        Err(ReadRdataError::Other)
    }
}

impl Rdata {
    pub fn len(&self) -> (r: usize) ensures r == self.octets@.len() {
        self.octets.len()
    }
    pub fn is_empty(&self) -> (r: bool) ensures r == (self.octets@.len() == 0) {
        self.octets.is_empty()
    }
    pub fn validate_as_hinfo(&self) -> Result<(), ReadRdataError> {
        let cpu_len = validate_character_string(&self.octets)?;
        let os_len = validate_character_string(&self.octets[cpu_len..])?;
        if self.len() == cpu_len + os_len {
            Ok(())
        } else {
            Err(ReadRdataError::Other)
        }
    }
    pub fn validate_as_txt(&self) -> Result<(), ReadRdataError> {
        if self.is_empty() {
            return Err(ReadRdataError::Other);
        }
        let mut offset = 0;
        while offset < self.len()
            invariant offset <= self.octets@.len()
            decreases self.octets@.len() - offset
        {
            offset += validate_character_string(&self.octets[offset..])?;
        }
        Ok(())
    }
    pub fn validate_as_mx(&self) -> Result<(), ReadRdataError> {
        if let Some(exchange_octets) = self.octets.get(2..) {
            Ok(())
        } else {
            Err(ReadRdataError::Other)
        }
    }
}
}
fn main(){}
