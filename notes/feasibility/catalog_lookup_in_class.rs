use vstd::prelude::*;
verus! {

#[verifier::allow(undeclared_external_trait)]
pub assume_specification<T> [core::option::Option::<T>::or] (a: Option<T>, b: Option<T>) -> (r: Option<T>)
    where T: core::marker::Destruct,
    ensures r == (if a is Some { a } else { b });
// --- stand-ins
#[verifier::external_body]
pub struct Name { x: Vec<u8> }
impl Name {
    /// labels as lowercase octet seqs, label 0 first; last is the empty (root) label
    pub uninterp spec fn labels(&self) -> Seq<Seq<u8>>;
    #[verifier::external_body]
    pub fn len(&self) -> (r: usize) ensures r == self.labels().len(), r >= 1 { unimplemented!() }
    #[verifier::external_body]
    pub fn label(&self, i: usize) -> (r: &Label) requires i < self.labels().len() ensures r.key() == self.labels()[i as int] { unimplemented!() }
}
#[verifier::external_body]
pub struct Label { x: Vec<u8> }
impl Label { pub uninterp spec fn key(&self) -> Seq<u8>; }

#[verifier::external_body]
#[verifier::accept_recursive_types(V)]
pub struct ChildMap<V> { m: std::collections::HashMap<Vec<u8>, V> }
impl<V> ChildMap<V> {
    pub uninterp spec fn view(&self) -> Map<Seq<u8>, V>;
    #[verifier::external_body]
    pub fn get(&self, k: &Label) -> (r: Option<&V>)
        ensures match r { Some(v) => self@.contains_key(k.key()) && *v == self@[k.key()], None => !self@.contains_key(k.key()) }
    { unimplemented!() }
}

pub struct Node<T> {
    pub name: Box<Name>,
    pub children: ChildMap<Node<T>>,
    pub data: T,
}

pub struct Entry { pub id: u64 }

/// spec: longest match
pub open spec fn spec_lookup(node: Node<Option<Entry>>, labels: Seq<Seq<u8>>, level: int) -> Option<Entry>
    decreases level
{
    if level <= 0 { node.data }
    else {
        let k = labels[level - 1];
        let longer = if node.children@.contains_key(k) { spec_lookup(node.children@[k], labels, level - 1) } else { None };
        if longer is Some { longer } else { node.data }
    }
}

fn lookup_in_class<'a>(
    node: &'a Node<Option<Entry>>,
    name: &Name,
    level: usize,
) -> (r: Option<&'a Entry>)
    requires level < name.labels().len()
    ensures (match r { Some(e) => Some(*e), None => None }) == spec_lookup(*node, name.labels(), level as int)
    decreases level
{
    if level == 0 {
        node.data.as_ref()
    } else {
        let longer_match = if let Some(subnode) = node.children.get(name.label(level - 1)) {
            lookup_in_class(subnode, name, level - 1)
        } else {
            None
        };
        longer_match.or(node.data.as_ref())
    }
}
}
fn main(){}
