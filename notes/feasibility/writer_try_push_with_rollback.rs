use vstd::prelude::*;
verus! {
#[derive(PartialEq, Eq, Clone, Copy)]
pub enum Error { Truncation, OutOfOrder }
pub type Result<T> = core::result::Result<T, Error>;
#[derive(PartialEq, Eq, Clone, Copy)]
pub enum Section { Question, Answer }

pub struct Writer<'a> {
    pub octets: &'a mut [u8],
    pub cursor: usize,
    pub available: usize,
    pub section: Section,
}

impl<'a> Writer<'a> {
    pub open spec fn wf(&self) -> bool { self.cursor <= self.available && self.available <= self.octets@.len() && self.octets@.len() <= isize::MAX as usize }

    fn write(&mut self, position: usize, data: &[u8])
        requires position + data@.len() <= old(self).octets@.len(), old(self).octets@.len() <= isize::MAX as usize
        ensures final(self).cursor == old(self).cursor, final(self).available == old(self).available,
            final(self).octets@.len() == old(self).octets@.len(),
    {
        self.octets[position..position + data.len()].copy_from_slice(data);
    }

    fn try_push(&mut self, data: &[u8]) -> (r: Result<()>)
        requires old(self).wf()
        ensures final(self).wf(),
            r is Ok <==> old(self).available - old(self).cursor >= data@.len(),
            r is Ok ==> final(self).cursor == old(self).cursor + data@.len(),
            r is Err ==> final(self).cursor == old(self).cursor,
    {
        if self.available - self.cursor >= data.len() {
            self.write(self.cursor, data);
            self.cursor += data.len();
            Ok(())
        } else {
            Err(Error::Truncation)
        }
    }

    fn with_rollback<F, T>(&mut self, f: F) -> (result: Result<T>)
    where
        F: FnOnce(&mut Self) -> Result<T>,
        requires
            old(self).wf(),
            forall|w: &mut Self| (*w).wf() ==> f.requires((w,)),
            forall|w: &mut Self, r: Result<T>| f.ensures((w,), r) ==> final(w).wf() && final(w).available == (*w).available,
        ensures
            final(self).wf(),
            result is Err ==> final(self).cursor == old(self).cursor && final(self).section == old(self).section,
    {
        let saved_section = self.section;
        let saved_cursor = self.cursor;
        let result = f(self);
        if result.is_err() {
            self.section = saved_section;
            self.cursor = saved_cursor;
        }
        result
    }
}
}
fn main(){}
