use vstd::prelude::*;
verus! {

pub const MAX_LABEL_LEN: usize = 63;
pub const MAX_WIRE_LEN: usize = 255;
pub const MAX_N_LABELS: usize = 128;

#[derive(PartialEq, Eq, Clone, Copy)]
pub enum Error { ExtraData, InvalidPointer, LabelTooLong, NameTooLong, UnexpectedEom }

pub open spec fn be16(b: [u8;2]) -> u16 { ((b[0] as u16) * 256 + (b[1] as u16)) as u16 }
#[verifier::external_body]
fn shim_u16_from_be_bytes(b: [u8;2]) -> (r: u16) ensures r == be16(b) { u16::from_be_bytes(b) }

pub assume_specification<T, E, F> [core::result::Result::<T, E>::or] (a: Result<T, E>, b: Result<T, F>) -> (r: Result<T, F>)
    where E: core::marker::Destruct, F: core::marker::Destruct, T: core::marker::Destruct,
    ensures a is Ok ==> r == Ok::<T,F>(a->Ok_0), a is Err ==> r == b;

pub open spec fn ptr_val(b0: u8, b1: u8) -> u16 { be16([b0, b1]) & (!0xc000u16) }

pub open spec fn dec_at(b: Seq<u8>, cs: int, index: int, acc: Seq<u8>) -> Option<Seq<u8>>
    decreases cs, b.len() - index
{
    if index < 0 || index >= b.len() || cs < 0 || cs > index { None }
    else {
        let len = b[index];
        if len & 0xc0 == 0xc0 {
            if index + 1 >= b.len() { None } else {
                let p = ptr_val(b[index], b[index + 1]) as int;
                if p >= cs { None } else { dec_at(b, p, p, acc) }
            }
        } else if len > 63 { None }
        else {
            let end = index + len as int + 1;
            if len == 0 {
                if acc.len() + 1 > 255 { None } else { Some(acc + b.subrange(index, end)) }
            } else if end >= b.len() { None }
            else if acc.len() + len as int + 1 > 255 { None }
            else { dec_at(b, cs, end, acc + b.subrange(index, end)) }
        }
    }
}
pub open spec fn dec(b: Seq<u8>, start: int) -> Option<Seq<u8>> { dec_at(b, start, start, Seq::empty()) }

// ---- ArrayVec stand-in
pub struct CapacityError;
#[verifier::external_body]
#[verifier::reject_recursive_types(T)]
pub struct ArrayVec<T, const CAP: usize> { v: Vec<T> }

impl<T: Copy, const CAP: usize> ArrayVec<T, CAP> {
    pub uninterp spec fn view(&self) -> Seq<T>;

    #[verifier::external_body]
    pub fn new() -> (r: Self) ensures r@.len() == 0 { unimplemented!() }

    #[verifier::external_body]
    pub fn len(&self) -> (r: usize) ensures r == self@.len(), r <= CAP { unimplemented!() }

    #[verifier::external_body]
    pub fn push(&mut self, x: T)
        requires old(self)@.len() < CAP
        ensures final(self)@ == old(self)@.push(x)
    { unimplemented!() }

    #[verifier::external_body]
    pub fn try_extend_from_slice(&mut self, s: &[T]) -> (r: Result<(), CapacityError>)
        ensures
            old(self)@.len() + s@.len() <= CAP ==> r is Ok && final(self)@ == old(self)@ + s@,
            old(self)@.len() + s@.len() > CAP ==> r is Err && final(self)@ == old(self)@,
    { unimplemented!() }

    #[verifier::external_body]
    pub fn as_slice(&self) -> (r: &[T]) ensures r@ == self@ { unimplemented!() }
}

impl<T: Copy, const CAP: usize> core::ops::Deref for ArrayVec<T, CAP> {
    type Target = [T];
    #[verifier::external_body]
    fn deref(&self) -> (r: &[T]) ensures r@ == self@ { unimplemented!() }
}
// ---- Name stand-in
#[verifier::external_body]
pub struct Name { x: Vec<u8> }
impl Name {
    pub uninterp spec fn wire(&self) -> Seq<u8>;
    pub uninterp spec fn offsets(&self) -> Seq<u8>;
}

#[verifier::external_body]
fn new_boxed_name(wire_len: usize, label_offsets: &[u8], slices: &[&[u8]]) -> (r: Box<Name>)
    requires slices@.len() == 1, slices@[0]@.len() == wire_len,
    ensures r.wire() == slices@[0]@, r.offsets() == label_offsets@
{ unimplemented!() }

fn parse_pointer(octets: &[u8], chunk_start: usize, index: usize) -> (r: Result<u16, Error>)
    requires index < octets.len(),
    ensures r is Ok ==> (r->Ok_0 as usize) < chunk_start && index + 1 < octets.len()
                && r->Ok_0 == ptr_val(octets@[index as int], octets@[index + 1]),
            r is Err ==> (index + 1 >= octets.len() || ptr_val(octets@[index as int], octets@[index + 1]) as int >= chunk_start),
{
    if index + 1 < octets.len() {
        let pointer_bytes = [octets[index], octets[index + 1]];
        let pointer = shim_u16_from_be_bytes(pointer_bytes) & (!0xc000);
        if (pointer as usize) >= chunk_start {
            Err(Error::InvalidPointer)
        } else {
            Ok(pointer)
        }
    } else {
        Err(Error::UnexpectedEom)
    }
}

pub fn parse_compressed_name(octets: &[u8], start: usize) -> (r: Result<(Box<Name>, usize), Error>)
    requires start < octets.len(), octets.len() <= isize::MAX as usize
    ensures
        dec(octets@, start as int) is Some ==> r is Ok && r->Ok_0.0.wire() == dec(octets@, start as int)->Some_0,
        dec(octets@, start as int) is None ==> r is Err,
{
    let mut next_chunk = Some(start);
    let mut wire_len_of_first_chunk = None;

    let mut label_offsets = ArrayVec::<u8, MAX_N_LABELS>::new();
    let mut wire_repr = ArrayVec::<u8, MAX_WIRE_LEN>::new();

    proof { assert(wire_repr@ =~= Seq::<u8>::empty()); }
    while let Some(chunk_start) = next_chunk
        invariant
            next_chunk is Some ==> next_chunk->Some_0 < octets.len(),
            next_chunk is Some ==> 2 * label_offsets@.len() <= wire_repr@.len(),
            wire_repr@.len() <= 255,
            octets.len() <= isize::MAX as usize,
            next_chunk is None ==> wire_len_of_first_chunk is Some,
            wire_len_of_first_chunk is None ==> next_chunk == Some(start),
            next_chunk is Some ==> dec(octets@, start as int) == dec_at(octets@, next_chunk->Some_0 as int, next_chunk->Some_0 as int, wire_repr@),
            next_chunk is None ==> dec(octets@, start as int) == Some(wire_repr@),
        ensures next_chunk is None
        decreases (if next_chunk is Some { next_chunk->Some_0 + 1 } else { 0 })
    {
        let mut finished_with_chunk = false;
        let mut index = chunk_start;

        while !finished_with_chunk
            invariant
                !finished_with_chunk ==> index < octets.len(),
                chunk_start <= index,
                chunk_start < octets.len(),
                next_chunk is Some ==> 2 * label_offsets@.len() <= wire_repr@.len(),
                wire_repr@.len() <= 255,
                octets.len() <= isize::MAX as usize,
                wire_len_of_first_chunk is None ==> chunk_start == start,
                !finished_with_chunk ==> next_chunk == Some(chunk_start),
                !finished_with_chunk ==> dec(octets@, start as int) == dec_at(octets@, chunk_start as int, index as int, wire_repr@),
                finished_with_chunk && next_chunk is Some ==> dec(octets@, start as int) == dec_at(octets@, next_chunk->Some_0 as int, next_chunk->Some_0 as int, wire_repr@),
                finished_with_chunk && next_chunk is None ==> dec(octets@, start as int) == Some(wire_repr@),
                finished_with_chunk ==> (next_chunk is Some ==> next_chunk->Some_0 < chunk_start),
            decreases (if finished_with_chunk {0int} else {1int}) + octets.len() - index
        {
            let len = octets[index];
            if len & 0xc0 == 0xc0 {
                next_chunk = Some(parse_pointer(octets, chunk_start, index)? as usize);
                index += 2;
                finished_with_chunk = true;
            } else if len > (MAX_LABEL_LEN as u8) {
                return Err(Error::LabelTooLong);
            } else {
                label_offsets.push(wire_repr.len() as u8);
                let end_of_label = index + len as usize + 1;
                if len == 0 {
                    next_chunk = None;
                    finished_with_chunk = true;
                } else if end_of_label >= octets.len() {
                    return Err(Error::UnexpectedEom);
                }
                wire_repr
                    .try_extend_from_slice(&octets[index..end_of_label])
                    .or(Err(Error::NameTooLong))?;
                index = end_of_label;
            }
        }

        wire_len_of_first_chunk.get_or_insert(index - chunk_start);
    }

    let name = unsafe {
        new_boxed_name(wire_repr.len(), &label_offsets, &[wire_repr.as_slice()])
    };
    Ok((name, wire_len_of_first_chunk.unwrap()))
}
}
fn main(){}
