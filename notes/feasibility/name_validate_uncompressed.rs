use vstd::prelude::*;
verus! {

pub open spec fn be16(b: [u8;2]) -> u16 { ((b[0] as u16) * 256 + (b[1] as u16)) as u16 }
#[verifier::external_body]
fn shim_u16_from_be_bytes(b: [u8;2]) -> (r: u16) ensures r == be16(b) { u16::from_be_bytes(b) }
pub const MAX_LABEL_LEN: usize = 63;
pub const MAX_WIRE_LEN: usize = 255;

#[derive(PartialEq, Eq, Clone, Copy)]
pub enum Error { ExtraData, InvalidPointer, LabelTooLong, NameTooLong, UnexpectedEom }

fn parse_pointer(octets: &[u8], chunk_start: usize, index: usize) -> (r: Result<u16, Error>)
    requires index < octets.len(),
    ensures r is Ok ==> (r->Ok_0 as usize) < chunk_start,
{
    if index + 1 < octets.len() {
        let pointer_bytes = [octets[index], octets[index + 1]];
        let pointer = shim_u16_from_be_bytes(pointer_bytes) & (!0xc000);
        if (pointer as usize) >= chunk_start {
            Err(Error::InvalidPointer)
        } else {
            Ok(pointer)
        }
    } else {
        Err(Error::UnexpectedEom)
    }
}

pub fn validate_uncompressed_name(octets: &[u8], use_all: bool) -> (r: Result<usize, Error>)
    ensures r is Ok ==> r->Ok_0 <= octets.len()
{
    let mut offset = 0;
    let mut finished = false;
    while !finished && offset < octets.len()
        invariant offset <= 255 + 0, finished ==> offset <= octets.len(),
        decreases (if finished {0int} else {1int}) + octets.len() - offset
    {
        let label_len = octets[offset];
        if label_len > (MAX_LABEL_LEN as u8) {
            return Err(Error::LabelTooLong);
        } else if label_len == 0 {
            finished = true;
        }
        offset += label_len as usize + 1;
        if offset > MAX_WIRE_LEN {
            return Err(Error::NameTooLong);
        }
    }

    if !finished {
        Err(Error::UnexpectedEom)
    } else if use_all && offset < octets.len() {
        Err(Error::ExtraData)
    } else {
        Ok(offset)
    }
}
}
fn main(){}
