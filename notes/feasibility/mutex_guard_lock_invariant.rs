use vstd::prelude::*;
verus! {
pub struct PoolRecords { pub queue_len: usize, pub available_workers: usize, pub shutting_down: bool }

pub open spec fn inv(r: PoolRecords) -> bool { r.shutting_down || r.queue_len <= r.available_workers }

#[verifier::external_body]
#[verifier::reject_recursive_types(T)]
pub struct Mutex<T> { t: core::marker::PhantomData<T> }
#[verifier::external_body]
#[verifier::reject_recursive_types(T)]
pub struct MutexGuard<'a, T> { t: core::marker::PhantomData<&'a mut T> }

impl<'a> MutexGuard<'a, PoolRecords> {
    pub uninterp spec fn view(&self) -> PoolRecords;
}
impl<'a> core::ops::Deref for MutexGuard<'a, PoolRecords> {
    type Target = PoolRecords;
    #[verifier::external_body]
    fn deref(&self) -> (r: &PoolRecords) ensures *r == self@ { unimplemented!() }
}
impl<'a> core::ops::DerefMut for MutexGuard<'a, PoolRecords> {
    #[verifier::external_body]
    fn deref_mut(&mut self) -> (r: &mut PoolRecords) ensures *r == old(self)@, *final(r) == final(self)@ { unimplemented!() }
}
impl Mutex<PoolRecords> {
    #[verifier::external_body]
    pub fn lock(&self) -> (g: MutexGuard<'_, PoolRecords>) ensures inv(g@) { unimplemented!() }
}
#[verifier::external_body]
pub fn unlock(g: MutexGuard<'_, PoolRecords>) requires inv(g@) { }

pub fn worker_timeout(m: &Mutex<PoolRecords>) {
    let mut records = m.lock();
    if records.available_workers > 0 {
        records.available_workers -= 1;
    }
    unlock(records);
}
}
fn main(){}
