// Feasibility transcript: PeekRr holding `&mut Reader` is accepted; the slice
// `&self.octets[owner_end + 8..]` fails its precondition = defect D3 (expected).
// (The read_u16 postcondition failure is a scratch artefact: shift needs by(bit_vector).)
use vstd::prelude::*;
verus! {
#[derive(PartialEq, Eq, Clone, Copy)]
pub enum Error { UnexpectedEomInField, InvalidOwner, InvalidRdata }
pub type Result<T> = core::result::Result<T, Error>;

pub struct Reader<'a> {
    pub octets: &'a [u8],
    pub cursor: usize,
    pub mark: Option<usize>,
}
pub struct PeekRr<'r, 'b> {
    pub reader: &'r mut Reader<'b>,
    pub owner_end: usize,
    pub rr_end: usize,
}

pub open spec fn be16s(a: u8, b: u8) -> u16 { ((a as u16) * 256 + (b as u16)) as u16 }

#[verifier::external_body]
fn skip_compressed(octets: &[u8]) -> (r: Result<usize>)
    ensures r is Ok ==> r->Ok_0 <= octets@.len() && r->Ok_0 >= 1
{ unimplemented!() }

fn read_u16(octets: &[u8]) -> (r: Result<u16>)
    ensures r is Ok <==> octets@.len() >= 2,
            r is Ok ==> r->Ok_0 == be16s(octets@[0], octets@[1])
{
    if octets.len() >= 2 { Ok(((octets[0] as u16) << 8) | (octets[1] as u16)) } else { Err(Error::UnexpectedEomInField) }
}

impl<'a> Reader<'a> {
    pub open spec fn wf(&self) -> bool { 12 <= self.cursor <= self.octets@.len() && self.octets@.len() <= isize::MAX as usize }

    pub fn peek_rr<'r>(&'r mut self) -> (res: Result<PeekRr<'r, 'a>>)
        requires old(self).wf()
        ensures
            res is Err ==> *final(self) == *old(self),
    {
        let owner_len = skip_compressed(&self.octets[self.cursor..])?;
        let owner_end = self.cursor + owner_len;
        let rdlength = read_u16(&self.octets[owner_end + 8..])?;
        let rr_end = owner_end + 10 + rdlength as usize;
        if rr_end > self.octets.len() {
            Err(Error::InvalidRdata)
        } else {
            Ok(PeekRr {
                reader: self,
                owner_end,
                rr_end,
            })
        }
    }
}
impl<'r, 'b> PeekRr<'r, 'b> {
    pub fn skip(self) {
        self.reader.cursor = self.rr_end;
    }
}
}
fn main(){}
